"""Native bounded stand-in for C17: every decomposition of small grids (serial use of GridMesh)."""

import itertools
import json
import sys

import numpy as np

import pde
from pde import CartesianGrid, CylindricalSymGrid, PolarSymGrid, ScalarField, SphericalSymGrid, UnitGrid, VectorField
from pde.grids._mesh import GridMesh


def subdivide_sweep(limit):
    """pure integer function with float intermediates: every (num, chunks) pair below the limit (exhaustive, bounded)"""
    from pde.grids._mesh import _subdivide

    fails = []
    for num in range(1, limit + 1):
        for chunks in range(1, num + 1):
            sizes = [int(x) for x in _subdivide(num, chunks)]
            if len(sizes) != chunks or sum(sizes) != num or min(sizes) < 1 or max(sizes) - min(sizes) > 1:
                fails.append({"id": "subdivide_does_not_tile_the_axis", "num": num, "chunks": chunks, "sizes": sizes})
                if len(fails) >= 3:
                    return fails
    return fails


def run(payload):
    rng = np.random.default_rng(payload.get("seed", 0))
    thorough = payload.get("thorough", False)
    fails, cases = [], 0

    def fail(kind, **kw):
        if len(fails) < 8:
            fails.append({"id": kind, **kw})

    grids = [UnitGrid([7]), CartesianGrid([(-1, 2.5)], [5], periodic=True), CartesianGrid([(0, 1.4), (-2, 1)], [6, 5], periodic=[True, False]),
             PolarSymGrid((0.5, 3), 6), SphericalSymGrid((0, 2), 5), CylindricalSymGrid(2, (0, 3), (3, 6), periodic_z=True)]
    if thorough:
        grids.append(CartesianGrid([(0, 1), (0, 2), (0, 3)], [7, 6, 3], periodic=[False, True, False]))
    for grid in grids:
        options = []
        for a in range(grid.num_axes):
            if isinstance(grid, CylindricalSymGrid) and a == 0:
                options.append([1])
            else:
                options.append(list(range(1, min(grid.shape[a], 4) + 1)))
        for deco in itertools.product(*options):
            cases += 1
            try:
                mesh = GridMesh.from_grid(grid, list(deco))
            except Exception as e:
                fail("from_grid_error", grid=repr(grid), decomposition=deco, error=f"{type(e).__name__}: {e}")
                continue
            subs = [mesh[i] for i in range(len(mesh))]
            # tiling: volumes, coordinates
            if not np.isclose(sum(s.volume for s in subs), grid.volume, rtol=1e-10):
                fail("volume", grid=repr(grid), decomposition=deco)
            for s in subs:
                if not np.allclose(s.discretization, grid.discretization, rtol=1e-10):
                    fail("discretization", grid=repr(grid), decomposition=deco, sub=repr(s))
            coords = ScalarField(grid, 0)
            for a in range(grid.num_axes):
                base = np.broadcast_to(grid.axes_coords[a].reshape([-1 if b == a else 1 for b in range(grid.num_axes)]), grid.shape)
                parts = [np.broadcast_to(s.axes_coords[a].reshape([-1 if b == a else 1 for b in range(grid.num_axes)]), s.shape) for s in subs]
                comb = mesh.combine_field_data(parts)
                if not np.allclose(comb, base, rtol=1e-10, atol=1e-12):
                    fail("cell_coordinates", grid=repr(grid), decomposition=deco, axis=a)
                vols = mesh.combine_field_data([np.broadcast_to(s.cell_volumes, s.shape) for s in subs])
                if not np.allclose(vols, np.broadcast_to(grid.cell_volumes, grid.shape), rtol=1e-10):
                    fail("cell_volumes", grid=repr(grid), decomposition=deco)
            # split / combine
            for rank in (0, 1):
                for ghost in (False, True):
                    shape = (grid.dim,) * rank + (grid._shape_full if ghost else grid.shape)
                    data = rng.uniform(-1, 1, shape)
                    parts = [mesh.extract_field_data(data, i, with_ghost_cells=ghost).copy() for i in range(len(mesh))]
                    out = mesh.combine_field_data(parts, with_ghost_cells=ghost)
                    if not np.array_equal(out, data):
                        fail("split_combine", grid=repr(grid), decomposition=deco, rank=rank, ghost=ghost)
            # neighbours
            for i in range(len(mesh)):
                for a in range(grid.num_axes):
                    for up in (False, True):
                        nb = mesh.get_neighbor(a, up, node_id=i)
                        if nb is not None and mesh.get_neighbor(a, not up, node_id=nb) != i:
                            fail("neighbour_symmetry", grid=repr(grid), decomposition=deco, node=i, axis=a, upper=up)
                        idx = list(np.unravel_index(i, mesh.shape))
                        at_edge = idx[a] == (mesh.shape[a] - 1 if up else 0)
                        if mesh.shape[a] > 1 and (nb is None) != (at_edge and not grid.periodic[a]):
                            fail("neighbour_periodicity", grid=repr(grid), decomposition=deco, node=i, axis=a, upper=up)
            # operator equivalence: ghost cells from the full field (neighbours / global BC), operator per sub-grid
            f = ScalarField(grid, rng.uniform(-1, 1, grid.shape))
            bc = {ax: ("periodic" if grid.periodic[k] else {"type": "mixed", "value": 0.7, "const": 0.4}) for k, ax in enumerate(grid.axes)}
            if not isinstance(grid, CartesianGrid):
                bc = "auto_periodic_neumann"
            f.set_ghost_cells(bc)
            want = f.laplace(bc).data
            parts = []
            for i, s in enumerate(subs):
                sub = ScalarField(s, 0)
                sub._data_full = mesh.extract_field_data(f._data_full, i, with_ghost_cells=True).copy()
                parts.append(sub.apply_operator("laplace", bc=None).data)
            got = mesh.combine_field_data(parts)
            if not np.allclose(got, want, rtol=1e-9, atol=1e-11):
                fail("operator_equivalence", grid=repr(grid), decomposition=deco, max_dev=float(np.max(np.abs(got - want))))
            # boundary conditions transferred to sub-grids at outer faces (serial mesh: only single-chunk axes can be checked through the public path)
            if isinstance(grid, CartesianGrid) and all(d == 1 for d in deco) and not any(grid.periodic):
                bcs = grid.get_boundary_conditions(bc)
                try:
                    sub = ScalarField(subs[0], f.data)
                    for a in range(grid.num_axes):
                        for up in (False, True):
                            bcs[a][up].to_subgrid(subs[0]).set_ghost_cells(sub._data_full)
                    got = sub.apply_operator("laplace", bc=None).data
                    if not np.allclose(got, want, rtol=1e-9, atol=1e-11):
                        fail("boundary_conditions_on_subgrid", grid=repr(grid), max_dev=float(np.max(np.abs(got - want))))
                except Exception as e:
                    fail("to_subgrid_error", grid=repr(grid), error=f"{type(e).__name__}: {e}")
    sweep = subdivide_sweep(payload.get("subdivide_limit", 120))
    cases += payload.get("subdivide_limit", 120) * (payload.get("subdivide_limit", 120) + 1) // 2
    fails = list(fails) + sweep
    return {"ok": True, "cases": cases, "failures": fails}


if __name__ == "__main__":
    print(json.dumps(run(json.loads(sys.stdin.read()))))
