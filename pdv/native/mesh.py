"""Native bounded stand-in for C17: every decomposition of small grids (serial use of GridMesh)."""

import itertools
import json
import sys

import numpy as np

import pde
from pde import CartesianGrid, CylindricalSymGrid, PolarSymGrid, ScalarField, SphericalSymGrid, UnitGrid, VectorField
from pde.grids._mesh import GridMesh


def subdivide_sweep(limit):
    """pure integer function with float intermediates: every (num, chunks) pair below the limit (exhaustive, bounded)"""
    from pde.grids._mesh import _subdivide

    fails = []
    for num in range(1, limit + 1):
        for chunks in range(1, num + 1):
            sizes = [int(x) for x in _subdivide(num, chunks)]
            if len(sizes) != chunks or sum(sizes) != num or min(sizes) < 1 or max(sizes) - min(sizes) > 1:
                fails.append({"id": "subdivide_does_not_tile_the_axis", "num": num, "chunks": chunks, "sizes": sizes})
                if len(fails) >= 3:
                    return fails
    return fails


def run(payload):
    rng = np.random.default_rng(payload.get("seed", 0))
    thorough = payload.get("thorough", False)
    fails, cases = [], 0

    def fail(kind, **kw):
        if len(fails) < 8:
            fails.append({"id": kind, **kw})

    grids = [UnitGrid([7]), CartesianGrid([(-1, 2.5)], [5], periodic=True), CartesianGrid([(0, 1.4), (-2, 1)], [6, 5], periodic=[True, False]),
             PolarSymGrid((0.5, 3), 6), SphericalSymGrid((0, 2), 5), CylindricalSymGrid(2, (0, 3), (3, 6), periodic_z=True)]
    if thorough:
        grids.append(CartesianGrid([(0, 1), (0, 2), (0, 3)], [7, 6, 3], periodic=[False, True, False]))
    for grid in grids:
        options = []
        for a in range(grid.num_axes):
            if isinstance(grid, CylindricalSymGrid) and a == 0:
                options.append([1])
            else:
                options.append(list(range(1, min(grid.shape[a], 4) + 1)))
        for deco in itertools.product(*options):
            cases += 1
            try:
                mesh = GridMesh.from_grid(grid, list(deco))
            except Exception as e:
                fail("from_grid_error", grid=repr(grid), decomposition=deco, error=f"{type(e).__name__}: {e}")
                continue
            subs = [mesh[i] for i in range(len(mesh))]
            # tiling: volumes, coordinates
            if not np.isclose(sum(s.volume for s in subs), grid.volume, rtol=1e-10):
                fail("volume", grid=repr(grid), decomposition=deco)
            for s in subs:
                if not np.allclose(s.discretization, grid.discretization, rtol=1e-10):
                    fail("discretization", grid=repr(grid), decomposition=deco, sub=repr(s))
            coords = ScalarField(grid, 0)
            for a in range(grid.num_axes):
                base = np.broadcast_to(grid.axes_coords[a].reshape([-1 if b == a else 1 for b in range(grid.num_axes)]), grid.shape)
                parts = [np.broadcast_to(s.axes_coords[a].reshape([-1 if b == a else 1 for b in range(grid.num_axes)]), s.shape) for s in subs]
                comb = mesh.combine_field_data(parts)
                if not np.allclose(comb, base, rtol=1e-10, atol=1e-12):
                    fail("cell_coordinates", grid=repr(grid), decomposition=deco, axis=a)
                vols = mesh.combine_field_data([np.broadcast_to(s.cell_volumes, s.shape) for s in subs])
                if not np.allclose(vols, np.broadcast_to(grid.cell_volumes, grid.shape), rtol=1e-10):
                    fail("cell_volumes", grid=repr(grid), decomposition=deco)
            # split / combine
            for rank in (0, 1):
                for ghost in (False, True):
                    shape = (grid.dim,) * rank + (grid._shape_full if ghost else grid.shape)
                    data = rng.uniform(-1, 1, shape)
                    parts = [mesh.extract_field_data(data, i, with_ghost_cells=ghost).copy() for i in range(len(mesh))]
                    out = mesh.combine_field_data(parts, with_ghost_cells=ghost)
                    if not np.array_equal(out, data):
                        fail("split_combine", grid=repr(grid), decomposition=deco, rank=rank, ghost=ghost)
            # neighbours
            for i in range(len(mesh)):
                for a in range(grid.num_axes):
                    for up in (False, True):
                        nb = mesh.get_neighbor(a, up, node_id=i)
                        if nb is not None and mesh.get_neighbor(a, not up, node_id=nb) != i:
                            fail("neighbour_symmetry", grid=repr(grid), decomposition=deco, node=i, axis=a, upper=up)
                        idx = list(np.unravel_index(i, mesh.shape))
                        at_edge = idx[a] == (mesh.shape[a] - 1 if up else 0)
                        if mesh.shape[a] > 1 and (nb is None) != (at_edge and not grid.periodic[a]):
                            fail("neighbour_periodicity", grid=repr(grid), decomposition=deco, node=i, axis=a, upper=up)
            # operator equivalence: ghost cells from the full field (neighbours / global BC), operator per sub-grid
            f = ScalarField(grid, rng.uniform(-1, 1, grid.shape))
            bc = {ax: ("periodic" if grid.periodic[k] else {"type": "mixed", "value": 0.7, "const": 0.4}) for k, ax in enumerate(grid.axes)}
            if not isinstance(grid, CartesianGrid):
                bc = "auto_periodic_neumann"
            f.set_ghost_cells(bc)
            want = f.laplace(bc).data
            parts = []
            for i, s in enumerate(subs):
                sub = ScalarField(s, 0)
                sub._data_full = mesh.extract_field_data(f._data_full, i, with_ghost_cells=True).copy()
                parts.append(sub.apply_operator("laplace", bc=None).data)
            got = mesh.combine_field_data(parts)
            if not np.allclose(got, want, rtol=1e-9, atol=1e-11):
                fail("operator_equivalence", grid=repr(grid), decomposition=deco, max_dev=float(np.max(np.abs(got - want))))
            # ghost cells from the neighbouring sub-fields (copied face by face) and, at outer faces, from the global condition
            # transferred with to_subgrid; a refused transfer (NotImplementedError) is not a wrong result
            if isinstance(grid, CartesianGrid):
                first = grid.axes[0]
                variants = [bc]
                if not grid.periodic[0]:
                    rest = {ax: ("periodic" if grid.periodic[k] else {"value": 1.0}) for k, ax in enumerate(grid.axes) if k > 0}
                    variants += [{**rest, first + "-": {"type": "virtual_point", "value": "2 - value"}, first + "+": {"type": "virtual_point", "value": "value + 0.5 * dx"}},
                                 {**rest, first + "-": {"type": "virtual_point", "value": "value", "value_cell": -1}, first + "+": {"type": "virtual_point", "value": "value", "value_cell": 0}},
                                 {**rest, first + "-": {"type": "virtual_point", "value": "value", "value_cell": -2}, first + "+": {"derivative": 0}}]
                for bcv in variants:
                    cases += 1
                    try:
                        want_v = f.laplace(bcv, backend="numba").data
                        bcs_base = grid.get_boundary_conditions(bcv, rank=0)
                        sfs = [mesh.extract_subfield(f, k) for k in range(len(mesh))]
                        refused = False
                        for a in range(grid.num_axes):
                            for k, sub in enumerate(sfs):
                                for up in (True, False):
                                    nb = mesh.get_neighbor(a, up, node_id=k)
                                    if nb is None:
                                        try:
                                            bcs_base[a][up].to_subgrid(mesh[k]).set_ghost_cells(sub._data_full)
                                        except NotImplementedError:
                                            refused = True
                                    else:
                                        iw, ir = [slice(1, -1)] * grid.num_axes, [slice(1, -1)] * grid.num_axes
                                        iw[a], ir[a] = (-1 if up else 0), (1 if up else -2)
                                        sub._data_full[tuple(iw)] = sfs[nb]._data_full[tuple(ir)]
                        if refused:
                            continue
                        outs = []
                        for sub in sfs:
                            o = np.empty(sub.grid.shape)
                            sub.grid.make_operator_no_bc("laplace", backend="numba")(sub._data_full, o)
                            outs.append(o)
                        got_v = mesh.combine_field_data(outs)
                        if not np.allclose(got_v, want_v, rtol=1e-9, atol=1e-11):
                            fail("operator_with_neighbour_ghost_cells_and_transferred_conditions", grid=repr(grid), decomposition=deco, bc=repr(bcv), max_dev=float(np.max(np.abs(got_v - want_v))))
                    except Exception as e:
                        fail("to_subgrid_error", grid=repr(grid), decomposition=deco, bc=repr(bcv), error=f"{type(e).__name__}: {e}")
            # boundary conditions transferred to sub-grids at outer faces (serial mesh: only single-chunk axes can be checked through the public path)
            if isinstance(grid, CartesianGrid) and all(d == 1 for d in deco) and not any(grid.periodic):
                bcs = grid.get_boundary_conditions(bc)
                try:
                    sub = ScalarField(subs[0], f.data)
                    for a in range(grid.num_axes):
                        for up in (False, True):
                            bcs[a][up].to_subgrid(subs[0]).set_ghost_cells(sub._data_full)
                    got = sub.apply_operator("laplace", bc=None).data
                    if not np.allclose(got, want, rtol=1e-9, atol=1e-11):
                        fail("boundary_conditions_on_subgrid", grid=repr(grid), max_dev=float(np.max(np.abs(got - want))))
                except Exception as e:
                    fail("to_subgrid_error", grid=repr(grid), error=f"{type(e).__name__}: {e}")
    # ---- field objects of every class and dtype: extracting the sub-fields and combining their data is the identity
    #      (values and dtype), with and without ghost cells
    from pde import FieldCollection, Tensor2Field, VectorField
    g2 = UnitGrid([4, 6])
    for deco in ([2, 2], [1, 3], [4, 1]):
        mesh = GridMesh.from_grid(g2, deco)
        for dtype in (np.float64, np.float32, np.int64, np.complex128, np.complex64):
            def filled(cls):
                f = cls(g2, dtype=dtype)
                vals = rng.integers(-1000, 1000, f.data.shape)
                f.data[...] = (vals + 2**53 + 1) if dtype is np.int64 else vals.astype(dtype) / 7
                return f
            fields = {"ScalarField": filled(ScalarField), "VectorField": filled(VectorField), "Tensor2Field": filled(Tensor2Field)}
            fields["FieldCollection"] = FieldCollection([filled(ScalarField), filled(VectorField)], dtype=dtype)
            for name, f in fields.items():
                for ghost in (False, True):
                    cases += 1
                    try:
                        subs = [mesh.extract_subfield(f, k, with_ghost_cells=ghost) for k in range(len(mesh))]
                        comb = mesh.combine_field_data([s._data_full if ghost else s.data for s in subs], with_ghost_cells=ghost)
                    except Exception as e:
                        fail("subfield_error", field=name, dtype=np.dtype(dtype).name, decomposition=deco, error=f"{type(e).__name__}: {e}")
                        continue
                    want = f._data_full if ghost else f.data
                    same = comb.shape == want.shape and bool(np.all(comb[..., 1:-1, 1:-1] == want[..., 1:-1, 1:-1] if ghost else comb == want))
                    if any(s.dtype != f.dtype for s in subs) or comb.dtype != f.dtype or not same:
                        fail("split_and_combine_of_field_objects_is_not_the_identity", field=name, dtype=np.dtype(dtype).name, decomposition=deco, with_ghost_cells=ghost,
                             subfield_dtype=str(subs[0].dtype), combined_dtype=str(comb.dtype), values_identical=same)
                if deco == [2, 2]:
                    cases += 1
                    try:
                        part = GridMesh.from_grid(g2, [1, 1]).split_field_mpi(f)
                        if part.dtype != f.dtype or not np.array_equal(part.data, f.data):
                            fail("split_field_mpi_changes_the_field", field=name, dtype=np.dtype(dtype).name, got_dtype=str(part.dtype))
                    except Exception as e:
                        fail("subfield_error", field=name, dtype=np.dtype(dtype).name, where="split_field_mpi", error=f"{type(e).__name__}: {e}")
    sweep = subdivide_sweep(payload.get("subdivide_limit", 120))
    cases += payload.get("subdivide_limit", 120) * (payload.get("subdivide_limit", 120) + 1) // 2
    fails = list(fails) + sweep
    return {"ok": True, "cases": cases, "failures": fails}


if __name__ == "__main__":
    print(json.dumps(run(json.loads(sys.stdin.read()))))
