"""Native bounded stand-in for C14."""

import copy
import json
import pickle
import sys

import numpy as np

import pde
from pde import CartesianGrid, CylindricalSymGrid, FieldCollection, PolarSymGrid, ScalarField, SphericalSymGrid, Tensor2Field, UnitGrid, VectorField
from pde.fields.base import FieldBase
from pde.grids.base import GridBase


def grids(rng):
    out = [UnitGrid([int(rng.integers(1, 5)) for _ in range(int(rng.integers(1, 4)))], periodic=bool(rng.integers(0, 2)))]
    d = int(rng.integers(1, 4))
    out.append(CartesianGrid([(float(a), float(a + rng.uniform(0.1, 3))) for a in rng.uniform(-3, 1, d)], [int(rng.integers(1, 5)) for _ in range(d)], periodic=[bool(rng.integers(0, 2)) for _ in range(d)]))
    for cls in (PolarSymGrid, SphericalSymGrid):
        r0 = float(rng.choice([0.0, 1e-8, 5e-9, 0.7]))
        out.append(cls((r0, r0 + float(rng.choice([2e-8, 1.0, 3.0]))) if r0 else float(rng.uniform(0.5, 3)), int(rng.integers(1, 6))))
    r0 = float(rng.choice([0.0, 1e-8, 0.7]))
    out.append(CylindricalSymGrid((r0, r0 + 1.5) if r0 else 1.5, (float(rng.uniform(-2, 0)), float(rng.uniform(0.5, 2))), (int(rng.integers(1, 5)), int(rng.integers(1, 5))), periodic_z=bool(rng.integers(0, 2))))
    # axial cell sizes that are not dyadic rationals (bounds must come back bit for bit, not only to round-off)
    zb, nz = [((-2, 1), 9), ((-1, 2), 17), ((-1, 4), 18), ((-1.5, 0), 5), ((0.1, 0.7), 7)][int(rng.integers(0, 5))]
    out.append(CylindricalSymGrid(2, zb, (2, nz)))
    lo = float(rng.uniform(-3, 0))
    out.append(CylindricalSymGrid(1.5, (lo, lo + float(rng.uniform(0.5, 4))), (2, int(rng.integers(5, 33)))))
    out.append(CartesianGrid([(lo, lo + float(rng.uniform(0.5, 4)))], [int(rng.integers(5, 33))]))
    return out


def same_grid(a, b):
    return (type(a) is type(b) and a == b and np.allclose(np.array(a.axes_bounds, dtype=float), np.array(b.axes_bounds, dtype=float), rtol=0, atol=0)
            and tuple(a.shape) == tuple(b.shape) and list(a.periodic) == list(b.periodic) and list(a.axes) == list(b.axes)
            and np.array_equal(a.cell_volumes, b.cell_volumes))


def run(payload):
    rng = np.random.default_rng(payload.get("seed", 0))
    fails, cases = [], 0

    def fail(kind, **kw):
        if sum(1 for f in fails if f["id"] == kind) < 3:  # a few witnesses per kind; one kind never crowds out another
            fails.append({"id": kind, **kw})

    for _ in range(payload.get("n", 3)):
        for g in grids(rng):
            cases += 1
            routes = {"json": lambda: GridBase.from_state(g.state_serialized),
                      "class_from_state": lambda: type(g).from_state(g.state), "copy": lambda: g.copy(), "copy.copy": lambda: copy.copy(g),
                      "deepcopy": lambda: copy.deepcopy(g), "pickle": lambda: pickle.loads(pickle.dumps(g))}
            for name, fn in routes.items():
                try:
                    g2 = fn()
                except Exception as e:
                    fail("grid_error", grid=repr(g), route=name, error=f"{type(e).__name__}: {e}")
                    continue
                if not same_grid(g, g2):
                    fail("grid_roundtrip", grid=repr(g), route=name, restored=repr(g2))
            # fields
            for cls, rank in ((ScalarField, 0), (VectorField, 1), (Tensor2Field, 2)):
                for dtype in (float, np.float32, complex, int):
                    data = (rng.uniform(-5, 5, (g.dim,) * rank + g.shape)).astype(dtype)
                    f = cls(g, data, label=[None, "", "a", "field 1"][int(rng.integers(0, 4))], dtype=dtype)
                    try:
                        f2 = FieldBase.from_state(FieldBase.unserialize_attributes(f.attributes_serialized), data=f.data)
                    except Exception as e:
                        fail("field_error", grid=repr(g), cls=cls.__name__, dtype=str(dtype), error=f"{type(e).__name__}: {e}")
                        continue
                    if not (type(f2) is cls and f2.grid == g and f2.label == f.label and f2.dtype == f.dtype and np.array_equal(f2.data, f.data)):
                        fail("field_roundtrip", grid=repr(g), cls=cls.__name__, dtype=str(dtype))
            # collections
            for dtype in (float, np.float32, complex):
                fc = FieldCollection([ScalarField(g, 1, label="s", dtype=dtype), VectorField(g, 2, label="", dtype=dtype), Tensor2Field(g, 3, dtype=dtype)],
                                     label=["coll", "", None][int(rng.integers(0, 3))], dtype=dtype)
                fc.data[...] = rng.uniform(-1, 1, fc.data.shape)
                try:
                    fc2 = FieldBase.from_state(FieldBase.unserialize_attributes(fc.attributes_serialized), data=fc.data)
                    ok = (isinstance(fc2, FieldCollection) and fc2.grid == g and fc2.labels == fc.labels and fc2.label == fc.label and fc2.dtype == fc.dtype
                          and all(type(a) is type(b) and a.dtype == b.dtype for a, b in zip(fc, fc2)) and np.array_equal(fc2.data, fc.data))
                    if not ok:
                        fail("collection_roundtrip", grid=repr(g), dtype=str(dtype), dtype_restored=str(fc2.dtype))
                except Exception as e:
                    fail("collection_error", grid=repr(g), error=f"{type(e).__name__}: {e}")
                try:
                    fc3 = FieldCollection.from_data([ScalarField, VectorField, Tensor2Field], g, fc._data_full.copy(), with_ghost_cells=True)
                    if not all(np.array_equal(a.data, b.data) for a, b in zip(fc, fc3)):
                        fail("from_data", grid=repr(g))
                    # flat data without ghost cells; complex data with non-zero imaginary parts (the documented rule maps
                    # real dtypes to double, so only the values are compared)
                    flat = fc.data * (1 + 0.5j) if np.iscomplexobj(fc.data) else fc.data.copy()
                    fc4 = FieldCollection.from_data([ScalarField, VectorField, Tensor2Field], g, flat, with_ghost_cells=False)
                    if not np.array_equal(fc4.data, flat):
                        fail("from_data_without_ghost_cells", grid=repr(g), dtype=str(dtype), dtype_restored=str(fc4.dtype), max_dev=float(np.max(np.abs(fc4.data - flat))))
                except Exception as e:
                    fail("from_data_error", grid=repr(g), error=f"{type(e).__name__}: {e}")
                # sliced grids (grids with their own axis names): copies keep the axes
                try:
                    if g.num_axes >= 2:
                        sub = g.slice([g.num_axes - 1])
                        for how, c in (("copy", sub.copy()), ("from_state", type(sub).from_state(sub.state))):
                            if list(c.axes) != list(sub.axes):
                                fail("sliced_grid_axes_lost", how=how, grid=repr(g), axes=list(sub.axes), axes_restored=list(c.axes))
                except Exception as e:
                    fail("slice_error", grid=repr(g), error=f"{type(e).__name__}: {e}")
    return {"ok": True, "cases": cases, "failures": fails}


if __name__ == "__main__":
    print(json.dumps(run(json.loads(sys.stdin.read()))))
