"""Native bounded stand-in for C12 on random grids."""

import json
import sys

import numpy as np

import pde
from pde import CartesianGrid, CylindricalSymGrid, PolarSymGrid, ScalarField, SphericalSymGrid, UnitGrid


def grids(rng):
    out = []
    for d in (1, 2, 3):
        shape = [int(rng.integers(1, 6)) for _ in range(d)]
        per = [bool(rng.integers(0, 2)) for _ in range(d)]
        lo = rng.choice([-3.0, 0.0, 1e-3, 2.5], d)
        out.append(CartesianGrid([(float(a), float(a + rng.choice([1e-3, 0.7, 40.0]))) for a in lo], shape, periodic=per))
    for hole in (False, True):
        r0 = float(rng.choice([0.2, 1.0, 5.0])) if hole else 0.0
        rad = (r0, r0 + float(rng.choice([0.5, 2.0, 30.0])))
        out.append(PolarSymGrid(rad, int(rng.integers(1, 7))))
        out.append(SphericalSymGrid(rad, int(rng.integers(1, 7))))
        out.append(CylindricalSymGrid(rad, (float(rng.choice([-2.0, 0.0])), float(rng.choice([0.5, 3.0]))), (int(rng.integers(1, 6)), int(rng.integers(1, 5))), periodic_z=bool(rng.integers(0, 2))))
    return out


def exact_volume(grid):
    if isinstance(grid, CartesianGrid):
        return float(np.prod([b[1] - b[0] for b in grid.axes_bounds]))
    r0, r1 = grid.axes_bounds[0]
    if isinstance(grid, PolarSymGrid):
        return np.pi * (r1**2 - r0**2)
    if isinstance(grid, SphericalSymGrid):
        return 4 / 3 * np.pi * (r1**3 - r0**3)
    z0, z1 = grid.axes_bounds[1]
    return np.pi * (r1**2 - r0**2) * (z1 - z0)


def run(payload):
    rng = np.random.default_rng(payload.get("seed", 0))
    fails, cases = [], 0

    def fail(kind, grid, **kw):
        fails.append({"id": kind, "grid": repr(grid), **kw})

    for _ in range(payload.get("n", 6)):
        for grid in grids(rng):
            cases += 1
            for a in range(grid.num_axes):
                lo, hi = grid.axes_bounds[a]
                dx = (hi - lo) / grid.shape[a]
                if not np.allclose(grid.axes_coords[a], lo + (np.arange(grid.shape[a]) + 0.5) * dx, rtol=1e-12, atol=1e-15):
                    fail("centres", grid, axis=a)
            vol = exact_volume(grid)
            if not np.isclose(grid.volume, vol, rtol=1e-10) or not np.isclose(np.sum(grid.cell_volumes), vol, rtol=1e-10):
                fail("volume", grid, volume=float(grid.volume), cells=float(np.sum(grid.cell_volumes)), exact=float(vol))
            if not np.isclose(grid.integrate(1), vol, rtol=1e-10):
                fail("integrate_one", grid)
            # integrating 1 over selected axes (given as non-negative or negative int, or tuple) gives the measure of
            # those axes: the result times the measure of the remaining axes is the volume
            if isinstance(grid, CartesianGrid) and grid.num_axes > 1:
                ones = np.ones(grid.shape)
                for a in range(grid.num_axes):
                    length = grid.axes_bounds[a][1] - grid.axes_bounds[a][0]
                    for spec in (a, a - grid.num_axes, (a,), [a - grid.num_axes]):
                        try:
                            part = grid.integrate(ones, axes=spec)
                        except Exception as e:
                            fail("integrate_axes_error", grid, axes=repr(spec), error=f"{type(e).__name__}: {e}")
                            continue
                        if not np.allclose(part, length, rtol=1e-10):
                            fail("integrate_one_over_selected_axes", grid, axes=repr(spec), got=float(np.ravel(part)[0]), measure_of_axis=float(length))
            f = ScalarField(grid, rng.uniform(0, 1, grid.shape))
            if grid.num_axes > 1:
                for ax in grid.axes:
                    try:
                        pr = f.project(ax)
                    except Exception as e:
                        fail("project_error", grid, axis=ax, error=f"{type(e).__name__}: {e}")
                        continue
                    if not np.isclose(pr.integral, f.integral, rtol=1e-10):
                        fail("project_integral", grid, axis=ax, projected=float(pr.integral), original=float(f.integral))
            # transforms
            cells = rng.uniform(0, 1, (8, grid.num_axes)) * np.array(grid.shape)
            gc = grid.transform(cells, "cell", "grid")
            if not np.allclose(grid.transform(gc, "grid", "cell"), cells, atol=1e-9):
                fail("cell_grid_roundtrip", grid)
            cart = grid.transform(gc, "grid", "cartesian")
            back = grid.transform(cart, "cartesian", "grid")
            if not np.allclose(back, gc, atol=1e-8 * (1 + np.abs(gc).max())):
                fail("cartesian_roundtrip", grid)
            if not np.all(grid.contains_point(cart)):
                fail("contains_generated_points", grid)
            for _k in range(4):
                p = grid.get_random_point(coords="cartesian")
                if not grid.contains_point(p):
                    fail("random_point_contained", grid, point=np.asarray(p).tolist())
            # non-default options: distance from the boundaries, also from the inner one
            bd = 0.2 * min(float(b[1] - b[0]) for b in grid.axes_bounds)
            for kw in ({"boundary_distance": bd}, {"boundary_distance": bd, "avoid_center": True}):
                for coords in ("cartesian", "grid", "cell"):
                    try:
                        p = grid.get_random_point(coords=coords, rng=rng, **kw)
                    except (TypeError, RuntimeError, NotImplementedError):
                        continue  # option not offered by this grid class / no admissible point
                    if not np.all(grid.contains_point(p, coords=coords)):
                        fail("random_point_contained", grid, point=np.asarray(p).tolist(), coords=coords, options=repr(kw))
            # normalize_point
            pts = rng.uniform(-3, 3, (6, grid.num_axes)) * np.array([b[1] - b[0] for b in grid.axes_bounds]) + np.array([b[0] for b in grid.axes_bounds])
            norm = grid.normalize_point(pts.copy())
            again = grid.normalize_point(norm.copy())
            if not np.allclose(norm, again, atol=1e-9 * (1 + np.abs(norm).max())):
                fail("normalize_idempotent", grid)
            for a in range(grid.num_axes):
                lo, hi = grid.axes_bounds[a]
                if grid.periodic[a]:
                    k = (norm[:, a] - pts[:, a]) / (hi - lo)
                    if np.any(norm[:, a] < lo - 1e-9) or np.any(norm[:, a] > hi + 1e-9) or not np.allclose(k, np.round(k), atol=1e-6):
                        fail("normalize_periodic", grid, axis=a)
            # distances (cartesian coordinates, points inside and shifted by periods)
            c1 = grid.transform(rng.uniform(0, 1, grid.num_axes) * np.array(grid.shape), "cell", "cartesian")
            c2 = grid.transform(rng.uniform(0, 1, grid.num_axes) * np.array(grid.shape), "cell", "cartesian")
            d12 = grid.distance(c1, c2, coords="cartesian")
            d21 = grid.distance(c2, c1, coords="cartesian")
            if not np.isclose(d12, d21, rtol=1e-9, atol=1e-12):
                fail("distance_symmetric", grid, d12=float(d12), d21=float(d21))
            # points given as integers (lists of ints, integer arrays) are positions like any other
            if isinstance(grid, CartesianGrid):
                p_int = np.array([int(np.floor(x)) for x in c1]); q_int = np.array([int(np.ceil(x)) + 1 for x in c2])
                d_int = grid.distance(p_int, q_int, coords="cartesian")
                d_flt = grid.distance(p_int.astype(float), q_int.astype(float), coords="cartesian")
                if not np.isclose(d_int, d_flt, rtol=1e-9, atol=1e-12):
                    fail("distance_of_integer_typed_points", grid, p1=p_int.tolist(), p2=q_int.tolist(), got=float(d_int), want=float(d_flt))
            # periodic directions in Cartesian space
            shifts = []
            if isinstance(grid, CartesianGrid):
                for a in range(grid.num_axes):
                    if grid.periodic[a]:
                        e = np.zeros(grid.dim); e[a] = grid.axes_bounds[a][1] - grid.axes_bounds[a][0]
                        shifts.append((e, a))
            elif isinstance(grid, CylindricalSymGrid) and grid.periodic[1]:
                e = np.zeros(3); e[2] = grid.axes_bounds[1][1] - grid.axes_bounds[1][0]
                shifts.append((e, 2))
            for e, comp in shifts:
                for m in (-2, 1, 3):
                    d = grid.distance(c1, c2 + m * e, coords="cartesian")
                    if not np.isclose(d, d12, rtol=1e-8, atol=1e-10):
                        fail("distance_period_shift", grid, shift=m, d=float(d), d0=float(d12), p1=c1.tolist(), p2=c2.tolist())
                dv = grid.difference_vector(c1, c2 + 0.4 * e, coords="cartesian")
                if abs(dv[comp]) > 0.5 * np.linalg.norm(e) + 1e-9:
                    fail("half_period", grid, component=comp, value=float(dv[comp]))
    return {"ok": True, "cases": cases, "failures": fails[:8]}


if __name__ == "__main__":
    print(json.dumps(run(json.loads(sys.stdin.read()))))
