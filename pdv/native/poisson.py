"""Native driver for C18: solve_poisson_equation on concrete grids / boundary conditions and feed the
result back into the discrete Laplacian (replay of matrix obligations and bounded stand-in)."""

import json
import sys

import numpy as np

import pde
from pde import CartesianGrid, CylindricalSymGrid, PolarSymGrid, ScalarField, SphericalSymGrid, solve_poisson_equation


def side_bc(kind, rng):
    if kind == "second":
        return {"curvature": float(rng.uniform(-1, 1))}
    if kind == "adjacent":
        c = rng.integers(0, 3)
        if c == 0:
            return {"value": float(rng.uniform(-1, 1))}
        if c == 1:
            return {"derivative": float(rng.uniform(-1, 1))}
        return {"type": "mixed", "value": float(rng.uniform(0.5, 2)), "const": float(rng.uniform(-1, 1))}
    raise ValueError(kind)


def build(cfg, rng):
    kind, dim, orders, hole = cfg["kind"], cfg.get("dim"), cfg["orders"], cfg.get("hole")
    periodic = [o[0] == "periodic" for o in orders]
    if kind == "cartesian":
        shape = [int(rng.integers(2, 6)) for _ in range(dim)]
        bounds = [(0.0, float(rng.uniform(0.5, 3))) for _ in range(dim)]
        grid = CartesianGrid(bounds, shape, periodic=periodic)
    else:
        r0 = float(rng.uniform(0.3, 2)) if hole else 0.0
        rad = (r0, r0 + float(rng.uniform(0.8, 3)))
        n = int(rng.integers(2, 7))
        if kind == "polar":
            grid = PolarSymGrid(rad, n)
        elif kind == "spherical":
            grid = SphericalSymGrid(rad, n)
        else:
            grid = CylindricalSymGrid(rad, (0.0, float(rng.uniform(0.5, 2))), (n, int(rng.integers(2, 6))), periodic_z=periodic[1])
    bc = {}
    for a, ax in enumerate(grid.axes):
        if periodic[a]:
            bc[ax] = "anti-periodic" if rng.integers(0, 3) == 0 else "periodic"
            continue
        lo, hi = orders[a]
        if kind != "cartesian" and a == 0 and not hole:
            bc[ax + "+"] = side_bc(hi, rng)
            bc[ax + "-"] = {"derivative": 0}
        else:
            bc[ax + "-"] = side_bc(lo, rng)
            bc[ax + "+"] = side_bc(hi, rng)
    return grid, bc


def run(payload):
    rng = np.random.default_rng(payload.get("seed", 0))
    fails, cases, errors_ok, ill = [], 0, 0, 0
    skipped_unsafe = 0
    for cfg in payload["configs"]:
        if cfg["kind"] == "cartesian" and (cfg.get("dim") or 1) >= 2 and all(o == "second" for pair in cfg["orders"] for o in pair):
            # curvature conditions on every side of a 2-d / 3-d Cartesian grid: structurally singular systems on which SuperLU of the
            # installed scipy prints BLAS parameter errors and intermittently crashes the interpreter (segmentation fault inside
            # spsolve, seen in 2 of 3 thorough runs); not fed to the real solver here -- the matrix assembly for them is under proof
            skipped_unsafe += 1
            continue
        for _ in range(payload.get("per_config", 3)):
            grid, bc = build(cfg, rng)
            rhs = ScalarField(grid, rng.uniform(-1, 1, grid.shape))
            cases += 1
            try:
                sol = solve_poisson_equation(rhs, bc)
            except RuntimeError:
                errors_ok += 1  # "problems without a solution are reported as errors"
                continue
            except Exception as e:
                fails.append({"id": cfg_id(cfg), "config": cfg, "grid": repr(grid), "bc": bc, "error": f"{type(e).__name__}: {e}"})
                break
            if not np.all(np.isfinite(sol.data)) or float(np.max(np.abs(sol.data))) > 1e6 * (1 + float(np.max(np.abs(rhs.data)))):
                ill += 1  # numerically singular system (round-off decides); outside the exact-arithmetic statement
                continue
            back = sol.laplace(bc)
            dev = float(np.max(np.abs(back.data - rhs.data)))
            if not dev <= 1e-3 * (1 + float(np.max(np.abs(rhs.data)))):
                fails.append({"id": cfg_id(cfg), "config": cfg, "grid": repr(grid), "bc": bc, "residual": dev,
                              "rhs": rhs.data.tolist() if rhs.data.size < 200 else "large"})
                break
    # problems that are solvable by construction (rhs = laplace of a known field) although the matrix may be rank deficient
    # (curvature / extrapolation on one side): whatever comes back must solve the discrete problem
    from pde import CartesianGrid as _CG, UnitGrid as _UG
    combos = [{"x-": {"value": -1.0}, "x+": "extrapolate"}, {"x-": {"curvature": 0.5}, "x+": {"value": 2.0}}, {"x-": {"type": "mixed", "value": 0.7, "const": 0.4}, "x+": {"curvature": -1.0}},
              {"x-": "extrapolate", "x+": {"derivative": 0.3}}]
    for bcx in combos:
        for g in (_UG([4]), _CG([(0, 2)], 7), _CG([(0, 1), (0, 2)], [4, 5], periodic=[False, True])):
            bc = dict(bcx) if g.num_axes == 1 else {**bcx, "y": "periodic"}
            u = ScalarField(g, rng.uniform(-1, 1, g.shape))
            rhs = u.laplace(bc)
            cases += 1
            try:
                sol = solve_poisson_equation(rhs, bc)
            except RuntimeError:
                errors_ok += 1
                continue
            except Exception as e:
                fails.append({"id": "solvable_by_construction_other_error", "grid": repr(g), "bc": bc, "error": f"{type(e).__name__}: {e}"})
                continue
            dev = float(np.max(np.abs(sol.laplace(bc).data - rhs.data)))
            if not dev <= 1e-4 * (1 + float(np.max(np.abs(rhs.data)))):
                fails.append({"id": "returned_field_does_not_solve_a_problem_that_is_solvable_by_construction", "grid": repr(g), "bc": bc, "residual": dev})
    # problems without a solution: whatever comes back (if anything) must solve the discrete problem
    from pde import CartesianGrid, solve_laplace_equation
    unsolvable = [("laplace_1d_inconsistent_fluxes", lambda: solve_laplace_equation(CartesianGrid([(0, 1)], 8), {"x-": {"derivative": 1.0}, "x+": {"derivative": 0.5}}),
                   CartesianGrid([(0, 1)], 8), {"x-": {"derivative": 1.0}, "x+": {"derivative": 0.5}}, None)]
    g2 = CartesianGrid([(0, 1), (0, 1)], [4, 4], periodic=[True, False])
    bc2 = {"x": "periodic", "y-": {"derivative": 1.0}, "y+": {"derivative": 0.25}}
    r2 = ScalarField(g2, rng.uniform(-1, 1, g2.shape)); r2 -= r2.average
    unsolvable.append(("poisson_2d_mean_free_rhs_inconsistent_fluxes", lambda: solve_poisson_equation(r2, bc2), g2, bc2, r2))
    for name, call, g, bc, rhs_f in unsolvable:
        cases += 1
        try:
            sol = call()
        except RuntimeError:
            errors_ok += 1
            continue
        except Exception as e:
            fails.append({"id": "unsolvable_problem_other_error", "case": name, "error": f"{type(e).__name__}: {e}"})
            continue
        target = np.zeros(g.shape) if rhs_f is None else rhs_f.data
        dev = float(np.max(np.abs(sol.laplace(bc).data - target)))
        if not dev <= 1e-6:
            fails.append({"id": "non_solution_returned_for_an_unsolvable_problem", "case": name, "residual": dev, "max_abs_solution": float(np.max(np.abs(sol.data)))})
    return {"ok": True, "cases": cases, "failures": fails, "reported_as_errors": errors_ok, "ill_conditioned_skipped": ill, "configurations_skipped_superlu_crash": skipped_unsafe}


def cfg_id(cfg):
    return f"{cfg['kind']}{cfg.get('dim') or ''}[hole={cfg.get('hole')},{cfg['orders']}]"


if __name__ == "__main__":
    print(json.dumps(run(json.loads(sys.stdin.read()))))
