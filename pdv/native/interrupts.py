"""Native bounded stand-in for C09: random schedules and non-decreasing query sequences (including
queries exactly on, just before and far beyond scheduled times) against the contract clauses."""

import json
import math
import sys

import numpy as np

from pde.trackers.interrupts import ConstantInterrupts, FixedInterrupts, GeometricInterrupts, LogarithmicInterrupts


def queries(rng, t0, scale, hits):
    """non-decreasing query times starting at t0"""
    t = t0
    out = []
    for _ in range(int(rng.integers(3, 9))):
        c = rng.integers(0, 4)
        if c == 0 and hits:
            cand = [h for h in hits if h >= t]
            if cand:
                t = float(cand[int(rng.integers(0, min(3, len(cand))))])
        elif c == 1:
            t = t + float(rng.uniform(0, 0.3)) * scale
        elif c == 2:
            t = t + float(rng.uniform(0, 5)) * scale
        out.append(t)
    return out


def run(payload):
    rng = np.random.default_rng(payload.get("seed", 0))
    n = payload.get("n", 200)
    fails = []
    cases = 0
    eps = 1e-9

    def fail(kind, **kw):
        if sum(1 for f_ in fails if f_["id"] == kind) < 3:  # a few witnesses per kind; one kind never crowds out another
            fails.append({"id": kind, **kw})

    for _ in range(n):
        # ---- constant
        dt = float(rng.choice([0.1, 0.25, 1.0, 3.0, float(rng.uniform(0.01, 2))]))
        t_init = float(rng.choice([0.0, -1.0, 2.0, float(rng.uniform(-3, 3))]))
        t_start = rng.choice([None, 0.0, 1.0, -2.0, float(rng.uniform(-3, 3))])
        t_start = None if t_start is None else float(t_start)
        ir = ConstantInterrupts(dt, t_start=t_start)
        first = ir.initialize(t_init)
        origin = t_init if t_start is None else max(t_init, t_start)
        cases += 1
        if abs(first - origin) > eps:
            fail("constant.initialize", dt=dt, t_init=t_init, t_start=t_start, got=first, want=origin)
        prev = first
        hits = [origin + k * dt for k in range(40)]
        for t in queries(rng, t_init, dt, hits):
            a = ir.next(t)
            k = (a - origin) / dt
            ok = a >= t - eps and a > prev and abs(k - round(k)) < 1e-6 and (abs(a - (prev + dt)) < 1e-9 or a - dt < t + 1e-9)
            if not ok:
                fail("constant.next", dt=dt, t_init=t_init, t_start=t_start, t=t, prev=prev, got=a)
            prev = a
        # ---- fixed
        L = int(rng.integers(0, 7))
        lst = np.cumsum(rng.choice([0.5, 1.0, 2.0], size=L)).tolist()
        ir = FixedInterrupts(lst)
        t_init = float(rng.choice([0.0, 0.5, 1.0, 2.0, 10.0]))
        idx = -1
        cases += 1

        def ref(t, idx):
            j = idx + 1
            while j < len(lst) and lst[j] < t:
                j += 1
            return (lst[j], j) if j < len(lst) else (math.inf, len(lst))

        a = ir.initialize(t_init)
        want, idx = ref(t_init, idx)
        if a != want:
            fail("fixed.initialize", interrupts=lst, t=t_init, got=a, want=want)
        for t in queries(rng, t_init, 1.0, lst):
            a = ir.next(t)
            want, idx = ref(t, idx)
            if a != want:
                fail("fixed.next", interrupts=lst, t_init=t_init, t=t, got=a, want=want)
        # ---- geometric
        scale, factor = float(rng.choice([0.01, 0.5, 1.0, 3.0])), float(rng.choice([1.5, 2.0, 10.0]))
        ir = GeometricInterrupts(scale, factor)
        t_init = float(rng.choice([scale, scale * factor**2, 0.37, 5.0]))
        hits = [scale * factor**k for k in range(-3, 12)]
        prev = None
        cases += 1
        a = ir.initialize(t_init)
        for t in [None] + queries(rng, t_init, t_init, hits):
            if t is not None:
                a = ir.next(t)
            tt = t_init if t is None else t
            k = math.log(a / scale) / math.log(factor)
            ok = a >= tt * (1 - 1e-9) and (prev is None or a > prev) and abs(k - round(k)) < 1e-6
            if not ok:
                fail("geometric", scale=scale, factor=factor, t_init=t_init, t=tt, prev=prev, got=a)
            prev = a
        # ---- geometric: whatever the constructor accepts must give an increasing schedule that is never behind the query
        scale2, factor2 = float(rng.choice([-1.0, 0.0, 0.5, 2.0])), float(rng.choice([0.25, 0.5, 1.0, 1.5]))
        cases += 1
        try:
            ir = GeometricInterrupts(scale2, factor2)
        except ValueError:
            ir = None
        if ir is not None:
            import warnings
            with warnings.catch_warnings():
                warnings.simplefilter("ignore")
                t0 = float(rng.choice([0.3, 1.0, 2.5]))
                try:
                    prev = ir.initialize(t0)
                    bad = not (prev >= t0 * (1 - 1e-9))
                    for t in (t0 * 1.5, t0 * 3.1, t0 * 7.3):
                        a = ir.next(t)
                        bad = bad or not (a >= t * (1 - 1e-9)) or not (a > prev)
                        prev = a
                except ArithmeticError:
                    bad, prev = True, float("nan")
            if bad:
                fail("geometric.accepted_parameters", scale=scale2, factor=factor2, t_init=t0, last=float(prev))
        # ---- constant: whatever period the constructor accepts must give an increasing schedule never behind the query
        dt2 = float(rng.choice([-1.0, -0.25, 0.0, 0.5]))
        cases += 1
        try:
            ir = ConstantInterrupts(dt2)
        except ValueError:
            ir = None
        if ir is not None:
            t0 = float(rng.choice([0.0, 1.0]))
            try:
                prev = ir.initialize(t0)
                bad = not (prev >= t0)
                for t in (t0 + 0.3, t0 + 1.7, t0 + 1.7, t0 + 4.2):
                    a = ir.next(t)
                    bad = bad or not (a >= t - 1e-9) or not (a > prev)
                    prev = a
            except ArithmeticError:
                bad, prev = True, float("nan")
            if bad:
                fail("constant.accepted_period", dt=dt2, t_init=t0, last=float(prev))
        # ---- logarithmic (no catch-up queries: gaps must grow exactly by the factor)
        d0, factor = float(rng.choice([0.1, 1.0])), float(rng.choice([1.0, 1.5, 2.0]))
        ir = LogarithmicInterrupts(d0, factor)
        t_init = float(rng.choice([0.0, 1.0, -2.0]))
        a = ir.initialize(t_init)
        cases += 1
        if abs(a - t_init) > eps:
            fail("logarithmic.initialize", dt_initial=d0, factor=factor, t_init=t_init, got=a)
        prev, gap = a, d0
        for i in range(6):
            a = ir.next(prev)  # query exactly at the last answer
            if abs((a - prev) - gap) > 1e-9 * max(1, gap):
                fail("logarithmic.gap", dt_initial=d0, factor=factor, i=i, gap=a - prev, want=gap)
            prev, gap = a, gap * factor
        # catch-up queries: answers >= t, strictly increasing
        ir = LogarithmicInterrupts(d0, factor)
        prev = ir.initialize(t_init)
        for t in queries(rng, t_init, d0, []):
            a = ir.next(t)
            if not (a >= t - eps and a > prev):
                fail("logarithmic.next", dt_initial=d0, factor=factor, t=t, prev=prev, got=a)
            prev = a
    # ---- the two clauses of the statement that the code does not meet (recorded as known findings)
    ci = ConstantInterrupts(dt=2.0, t_start=1.0)
    answers = [ci.initialize(4.0)]
    for _k in range(3):
        answers.append(ci.next(answers[-1]))
    cases += 1
    if any(abs(((a - 1.0) / 2.0) - round((a - 1.0) / 2.0)) > 1e-9 for a in answers):
        extra = {"id": "constant_run_starting_after_t_start_leaves_the_lattice", "schedule": "ConstantInterrupts(dt=2, t_start=1)", "first_query": 4.0, "answers": answers, "lattice": "1 + 2k"}
        fails.append(extra)
    li = LogarithmicInterrupts(dt_initial=1.0, factor=2.0)
    answers = [li.initialize(0.0)]
    for t in (10.0, 10.0, 10.0, 10.0):
        answers.append(li.next(t))
    gaps = [b - a for a, b in zip(answers, answers[1:])]
    cases += 1
    if any(g2 < g1 - 1e-12 for g1, g2 in zip(gaps, gaps[1:])):
        fails.append({"id": "logarithmic_gaps_shrink_after_skipped_interrupts", "schedule": "LogarithmicInterrupts(dt_initial=1, factor=2)", "queries": [0, 10, 10, 10, 10], "answers": answers, "gaps": gaps})
    return {"ok": True, "cases": cases, "failures": fails}


if __name__ == "__main__":
    print(json.dumps(run(json.loads(sys.stdin.read()))))
