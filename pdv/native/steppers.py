"""Native bounded stand-in for C06/C07: the real solvers on du/dt = a*u (+ explicit time dependence
for the stage-time clause) on both backends, fixed step; comparison with the scheme's amplification
factor / recursion, with and without trackers interrupting the run."""

import json
import sys

import numpy as np

import pde
from pde import PDEBase, ScalarField, UnitGrid
from pde.backends.numba.utils import jit


class Lin(PDEBase):
    """du/dt = a*u + b*t"""

    def __init__(self, a, b=0.0):
        super().__init__()
        self.a, self.b = a, b

    def evolution_rate(self, state, t=0):
        return self.a * state + self.b * t

    def make_evolution_rate(self, state, backend):
        a, b = self.a, self.b

        def rhs(arr, t):
            return a * arr + b * t

        return rhs


def ref(solver, a, b, dt, n, u0, t0):
    u = np.array(u0, dtype=complex if isinstance(a, complex) else float)
    F = lambda x, t: a * x + b * t
    if solver == "adams-bashforth":
        prev = u - dt * F(u, t0)
    for i in range(n):
        t = t0 + i * dt
        if solver == "euler":
            u = u + dt * F(u, t)
        elif solver == "runge-kutta":
            k1 = F(u, t); k2 = F(u + dt * k1 / 2, t + dt / 2); k3 = F(u + dt * k2 / 2, t + dt / 2); k4 = F(u + dt * k3, t + dt)
            u = u + dt * (k1 + 2 * k2 + 2 * k3 + k4) / 6
        elif solver == "implicit":
            u = (u + dt * b * (t + dt)) / (1 - a * dt)
        elif solver == "crank-nicolson":
            u = (u + dt / 2 * (a * u + b * t + b * (t + dt))) / (1 - a * dt / 2)
        elif solver == "adams-bashforth":
            u, prev = u + dt * (1.5 * F(u, t) - 0.5 * F(prev, t - dt)), u
    return u


def run(payload):
    rng = np.random.default_rng(payload.get("seed", 0))
    fails, cases = [], 0
    grid = UnitGrid([3])
    for solver in ["euler", "runge-kutta", "implicit", "crank-nicolson", "adams-bashforth"]:
        for backend in ["numpy", "numba"]:
            for rep in range(payload.get("reps", 2)):
                a = float(rng.uniform(-1.5, 0.5))
                if rep % 2 == 1 and backend == "numpy":
                    a = complex(a, float(rng.uniform(-1, 1)))
                b = float(rng.choice([0.0, 0.7]))
                dt = float(rng.choice([0.1, 0.05, 0.13]))
                n = int(rng.integers(1, 9))
                t0 = float(rng.choice([0.0, 1.5]))
                u0 = rng.uniform(0.5, 2, 3)
                kw = {}
                if solver == "crank-nicolson":
                    kw["explicit_fraction"] = float(rng.choice([0.0, 0.25, 0.5]))
                if solver in ("implicit", "crank-nicolson"):
                    kw["maxerror"] = 1e-12
                    kw["maxiter"] = 1000
                trackers = [None, [pde.trackers.DataTracker(lambda s, t: 0.0, interrupts=float(rng.choice([dt, 2 * dt, 0.37])))]][rep % 2]
                state = ScalarField(grid, u0, dtype=complex if isinstance(a, complex) else float)
                cases += 1
                try:
                    res, info = Lin(a, b).solve(state, t_range=(t0, t0 + n * dt), dt=dt, solver=solver, backend=backend,
                                               tracker=trackers, ret_info=True, **kw)
                except Exception as e:
                    fails.append({"id": f"{solver}.{backend}", "error": f"{type(e).__name__}: {e}", "a": str(a), "dt": dt, "n": n})
                    continue
                want = ref(solver, a, b, dt, n, u0, t0)
                dev = float(np.max(np.abs(res.data - want)))
                steps = info["solver"]["steps"]
                tf = info["controller"]["t_final"]
                if dev > 1e-8 * (1 + float(np.max(np.abs(want)))) or steps != n or abs(tf - (t0 + n * dt)) > 1e-9:
                    fails.append({"id": f"{solver}.{backend}", "a": str(a), "b": b, "dt": dt, "n": n, "t0": t0, "kwargs": kw, "with_tracker": trackers is not None,
                                  "deviation": dev, "steps": steps, "t_final": tf, "u0": u0.tolist()})
    # ---- adaptive stepping: ends exactly at t_end, global error <= accepted steps x tolerance (autonomous dissipative linear problem)
    for solver in ["euler", "runge-kutta"]:
        results = {}
        for backend in ["numpy", "numba"]:
            for rep in range(max(1, payload.get("reps", 2) // 2)):
                a = float(rng.uniform(-2.0, -0.2))
                tol = float(rng.choice([1e-3, 1e-5]))
                T = float(rng.choice([0.5, 1.37, 3.0]))
                t0 = float(rng.choice([0.0, 2.0]))
                u0 = rng.uniform(0.5, 2, 3)
                cases += 1
                try:
                    res, info = Lin(a).solve(ScalarField(grid, u0), t_range=(t0, t0 + T), dt=1e-3, solver=solver, backend=backend, tracker=None,
                                             ret_info=True, adaptive=True, tolerance=tol)
                except Exception as e:
                    fails.append({"id": f"adaptive.{solver}.{backend}", "error": f"{type(e).__name__}: {e}"})
                    continue
                exact = u0 * np.exp(a * T)
                steps = info["solver"]["steps"]
                err = float(np.max(np.abs(res.data - exact)))
                tf = info["controller"]["t_final"]
                if abs(tf - (t0 + T)) > 1e-12 * max(1, abs(t0 + T)) or err > steps * tol * 1.0001 + 1e-12:
                    fails.append({"id": f"adaptive.{solver}.{backend}", "a": a, "tolerance": tol, "T": T, "t0": t0, "t_final": tf, "steps": steps, "global_error": err, "bound": steps * tol})
                results[(backend, rep)] = (res.data, a, tol, T, steps)
    # ---- adaptive stepping on a non-autonomous problem du/dt = a u + b t (stage times matter) and the times at
    #      which the embedded Runge-Kutta-Fehlberg pair evaluates the right-hand side
    class Recording(PDEBase):
        def __init__(self):
            super().__init__()
            self.times = []

        def evolution_rate(self, state, t=0):
            self.times.append(float(t))
            return ScalarField(state.grid, 4 * t**3 - 3 * t**2 + 2)

    from pde.solvers import RungeKuttaSolver
    nodes = np.array([0, 1 / 4, 3 / 8, 12 / 13, 1, 1 / 2])
    for t0, h in ((0.0, 0.5), (1.5, 0.25)):
        eq = Recording()
        state = ScalarField(grid, [1.0, -3.0, 0.5])
        u_start = state.data.copy()
        stepper = RungeKuttaSolver(eq, backend="numpy", adaptive=True, tolerance=1e-6).make_stepper(state, dt=h)
        eq.times.clear()
        cases += 1
        try:
            t_end = stepper(state, t0, t0 + h)
        except Exception as e:
            fails.append({"id": "adaptive.rkf45_stage_times", "error": f"{type(e).__name__}: {e}"})
            continue
        prim = lambda t: t**4 - t**3 + 2 * t
        if len(eq.times) < 6 or not np.allclose(eq.times[:6], t0 + nodes * h, rtol=0, atol=1e-12):
            fails.append({"id": "adaptive.rkf45_stage_times", "t0": t0, "dt": h, "got": eq.times[:6], "want": (t0 + nodes * h).tolist()})
        elif not np.allclose(state.data - u_start, prim(t_end) - prim(t0), rtol=0, atol=1e-10):
            fails.append({"id": "adaptive.rkf45_cubic_quadrature_not_exact", "t0": t0, "dt": h, "got": (state.data - u_start).tolist(), "want": float(prim(t_end) - prim(t0))})
    # ---- the remaining gap to t_end is below dt_min (here: one ulp left after a step that spans the interval)
    from pde.solvers import EulerSolver as _Euler, RungeKuttaSolver as _RK
    for backend in ["numpy", "numba"]:
        for cls_ in (_Euler, _RK):
            t0_, t1_ = 0.6383767776920011, 7.205207168846219  # t0 + (t1 - t0) < t1 in floating point
            st = ScalarField(grid, [1.0, 2.0, 3.0])
            cases += 1
            try:
                sol = cls_(Lin(-1e-6), backend=backend, adaptive=True, tolerance=1e-3)
                t_ret = sol.make_stepper(st, 100.0)(st, t0_, t1_)
            except Exception as e:
                fails.append({"id": f"adaptive.gap_below_dt_min.{backend}", "error": f"{type(e).__name__}: {e}"})
                continue
            if t_ret != t1_:
                if 0 < t_ret - t1_ <= 1.0000001e-10:
                    fails.append({"id": "adaptive.overshoots_t_end_by_dt_min_when_the_remaining_gap_is_smaller", "solver": cls_.__name__, "backend": backend, "t_start": t0_, "t_end": t1_, "returned": t_ret, "excess": t_ret - t1_})
                else:
                    fails.append({"id": f"adaptive.gap_below_dt_min.{backend}", "solver": cls_.__name__, "t_start": t0_, "t_end": t1_, "returned": t_ret, "excess": t_ret - t1_})
    # ---- iterative solvers on states with several axes whose leading entries vanish (the convergence measure is the
    #      mean square over ALL entries): converged iterations realise the scheme's factor on every entry
    from pde import FieldCollection, VectorField
    g2 = UnitGrid([3, 4])
    blob = np.zeros((3, 4)); blob[1:, 1:] = rng.uniform(0.5, 2, (2, 3))
    states = {"scalar2d": ScalarField(g2, blob), "collection": FieldCollection([ScalarField(grid, 0.0), ScalarField(grid, rng.uniform(0.5, 2, 3))]),
              "vector2d": VectorField(g2, np.stack([np.zeros((3, 4)), blob]))}
    for solver, factor in (("crank-nicolson", lambda z: (1 + z / 2) / (1 - z / 2)), ("implicit", lambda z: 1 / (1 - z))):
        for backend in ["numpy", "numba"]:
            for name, st in states.items():
                a, dt, n = -0.8, 0.25, 3
                cases += 1
                try:
                    res = Lin(a).solve(st, t_range=n * dt, dt=dt, solver=solver, backend=backend, tracker=None, maxerror=1e-13, maxiter=1000)
                except Exception as e:
                    fails.append({"id": f"{solver}.{backend}.multi_axis_state", "state": name, "error": f"{type(e).__name__}: {e}"})
                    continue
                dev = float(np.max(np.abs(res.data - st.data * factor(a * dt) ** n)))
                if dev > 1e-9:
                    fails.append({"id": f"{solver}.{backend}.multi_axis_state", "state": name, "a": a, "dt": dt, "n": n, "deviation": dev})
    # ---- adaptive Euler (step doubling, the rate of the accepted state is reused by the next step): two accepted steps
    #      of size h on the quadrature du/dt = b t; stage times t, t + h/2 and t + h for the reused rate
    from pde.solvers import EulerSolver
    for backend in ["numpy", "numba"]:
        for t0, h in ((0.0, 0.5), (2.0, 0.125)):
            b = float(rng.uniform(0.5, 2.0))
            state = ScalarField(grid, [1.0, -3.0, 0.5])
            u_start = state.data.copy()
            cases += 1
            try:
                solver_obj = EulerSolver(Lin(0.0, b), backend=backend, adaptive=True, tolerance=1e3)
                t_end = solver_obj.make_stepper(state, dt=h)(state, t0, t0 + 2 * h)
            except Exception as e:
                fails.append({"id": f"adaptive.euler_stage_times.{backend}", "error": f"{type(e).__name__}: {e}"})
                continue
            want = sum(h / 2 * b * t + h / 2 * b * (t + h / 2) for t in (t0, t0 + h))
            if solver_obj.info["steps"] == 2 and not np.allclose(state.data - u_start, want, rtol=0, atol=1e-12):
                fails.append({"id": f"adaptive.euler_reused_rate_evaluated_at_a_stale_time.{backend}", "t0": t0, "dt": h, "b": b, "got": (state.data - u_start).tolist(), "want": want})
            elif solver_obj.info["steps"] != 2:
                fails.append({"id": f"adaptive.euler_stage_times.{backend}", "error": f"expected 2 accepted steps, got {solver_obj.info['steps']}"})
    for solver in ["euler", "runge-kutta"]:
        for backend in ["numpy", "numba"]:
            a = float(rng.uniform(-2.0, -0.5))
            b = float(rng.uniform(0.5, 2.0))
            tol = 1e-4
            T = float(rng.choice([0.8, 2.0]))
            t0 = float(rng.choice([0.0, 1.0]))
            u0 = rng.uniform(0.5, 2, 3)
            cases += 1
            try:
                res, info = Lin(a, b).solve(ScalarField(grid, u0), t_range=(t0, t0 + T), dt=1e-3, solver=solver, backend=backend, tracker=None,
                                            ret_info=True, adaptive=True, tolerance=tol)
            except Exception as e:
                fails.append({"id": f"adaptive_nonautonomous.{solver}.{backend}", "error": f"{type(e).__name__}: {e}"})
                continue
            part = lambda t: -b * t / a - b / a**2
            exact = (u0 - part(t0)) * np.exp(a * T) + part(t0 + T)
            steps = info["solver"]["steps"]
            err = float(np.max(np.abs(res.data - exact)))
            # the estimators are asymptotically exact only: factor 2 of slack on the bound (accepted steps x tolerance)
            if err > 2 * steps * tol + 1e-12:
                fails.append({"id": f"adaptive_nonautonomous.{solver}.{backend}", "a": a, "b": b, "tolerance": tol, "T": T, "t0": t0, "steps": steps, "global_error": err, "bound": 2 * steps * tol})
    return {"ok": True, "cases": cases, "failures": fails}


if __name__ == "__main__":
    print(json.dumps(run(json.loads(sys.stdin.read()))))
