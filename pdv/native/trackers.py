"""Native bounded stand-in for C08."""

import json
import math
import sys

import numpy as np

import pde
from pde import DiffusionPDE, MemoryStorage, ScalarField, UnitGrid
from pde.trackers.base import FinishedSimulation, TrackerBase


class Rec(TrackerBase):
    def __init__(self, interrupts, stop_at=None, exc=StopIteration):
        super().__init__(interrupts=interrupts)
        self.times, self.finalized, self.stop_at, self.exc = [], 0, stop_at, exc
        self.states = []

    def handle(self, field, t):
        self.times.append(t)
        self.states.append(field.data.copy())
        if self.stop_at is not None and t >= self.stop_at - 1e-12:
            raise self.exc("stop requested")

    def finalize(self, info=None):
        self.finalized += 1


def run(payload):
    rng = np.random.default_rng(payload.get("seed", 0))
    fails, cases = [], 0
    grid = UnitGrid([5], periodic=True)
    eq = DiffusionPDE(0.3)

    def fail(kind, **kw):
        if sum(1 for f_ in fails if f_["id"] == kind) < 3:  # a few witnesses per kind; one kind never crowds out another
            fails.append({"id": kind, **kw})

    for k in range(payload.get("n", 12)):
        dt = float(rng.choice([0.1, 0.05, 0.25, 0.01]))
        N = int(rng.integers(2, 40))
        t0 = float(rng.choice([0.0, 1.0]))
        T = N * dt
        D = float(rng.choice([1, 2, 3, 1.5, 2.7, 4.2])) * dt
        backend = "numpy" if k % 2 else "numba"
        rec = Rec(D)
        other = Rec(float(rng.uniform(0.4, 3)) * dt)
        storage = MemoryStorage()
        init = ScalarField(grid, rng.uniform(0, 1, 5))
        cases += 1
        solver_name = ["euler", "runge-kutta", "adams-bashforth", "implicit", "crank-nicolson"][k % 5]
        res, info = eq.solve(init, t_range=(t0, t0 + T), dt=dt, tracker=[other, rec, storage.tracker(D)], backend=backend, solver=solver_name, ret_info=True)
        sched = [t0 + j * D for j in range(int(math.floor(T / D + 1e-9)) + 1)]
        # the time a tracker is told is a genuine simulation time: the state it sees is the state of a run that ends there
        if len(rec.times) >= 2:
            t_seen, s_seen = rec.times[-2], rec.states[-2]
            n_seen = round((t_seen - t0) / dt)
            if n_seen >= 1:
                alone = eq.solve(init, t_range=(t0, t0 + n_seen * dt), dt=dt, tracker=None, backend=backend, solver=solver_name)
                if not np.allclose(alone.data, s_seen, rtol=1e-9, atol=1e-12):
                    fail("tracker_time_is_not_the_time_of_the_state_it_sees", solver=solver_name, backend=backend, dt=dt, t0=t0, D=D, time_told=t_seen, steps=n_seen,
                         max_dev=float(np.max(np.abs(alone.data - s_seen))))
        ok = len(rec.times) in (len(sched), len(sched) + 1) and all(abs(a - b) <= dt / 2 + 1e-9 for a, b in zip(rec.times, sched))
        ok = ok and all(b > a for a, b in zip(rec.times, rec.times[1:])) and all(abs((t - t0) / dt - round((t - t0) / dt)) < 1e-6 for t in rec.times + other.times)
        ok = ok and list(storage.times) == rec.times and rec.finalized == 1 and other.finalized == 1
        if len(rec.times) == len(sched) + 1:
            ok = ok and abs(rec.times[-1] - (t0 + T)) < 1e-9
        if not ok:
            fail("schedule", solver=solver_name, dt=dt, N=N, t0=t0, D=D, backend=backend, times=rec.times, scheduled=sched, storage=list(storage.times))
        # stopping: the stopper sits before / after a recorder due at the same times
        stop_at = t0 + float(rng.integers(0, N + 1)) * dt
        for exc in (StopIteration, FinishedSimulation):
            for first in (True, False):
                stopper = Rec(dt, stop_at=stop_at, exc=exc)
                recorder = Rec(dt)
                storage = MemoryStorage()
                trackers = [stopper, recorder, storage.tracker(dt)] if first else [recorder, storage.tracker(dt), stopper]
                cases += 1
                res, info = eq.solve(init, t_range=(t0, t0 + T), dt=dt, tracker=trackers, backend=backend, solver="euler", ret_info=True)
                c = info["controller"]
                ok = (abs(c["t_final"] - stop_at) < 1e-9 and abs(recorder.times[-1] - stop_at) < 1e-9 and abs(storage.times[-1] - stop_at) < 1e-9
                      and np.array_equal(res.data, recorder.states[-1]) and recorder.finalized == 1 and stopper.finalized == 1
                      and "final time" not in str(c.get("stop_reason", "")).lower())
                if exc is StopIteration:
                    ok = ok and c.get("successful") is False
                if not ok:
                    fail("stop", dt=dt, N=N, t0=t0, stop_at=stop_at, exception=exc.__name__, stopper_first=first, backend=backend, t_final=c["t_final"],
                         recorder_last=recorder.times[-1] if recorder.times else None, storage_last=storage.times[-1] if storage.times else None,
                         stop_reason=c.get("stop_reason"), successful=c.get("successful"))
    # ---- adaptive steppers: trackers are served exactly at their scheduled times and the run ends exactly at t_end
    for k in range(max(2, payload.get("n", 12) // 3)):
        backend = "numpy" if k % 2 else "numba"
        solver = ["runge-kutta", "euler"][(k // 2) % 2]
        t0 = float(rng.choice([0.0, 1.0]))
        T = float(rng.choice([1.0, 2.0, 2.6]))
        D = float(rng.choice([0.5, 0.4, 0.7]))
        rec = Rec(D)
        storage = MemoryStorage()
        init = ScalarField(grid, rng.uniform(0, 1, 5))
        cases += 1
        try:
            res, info = eq.solve(init, t_range=(t0, t0 + T), dt=1e-3, tracker=[rec, storage.tracker(D)], backend=backend, solver=solver, adaptive=True, tolerance=1e-5, ret_info=True)
        except Exception as e:
            fail("adaptive_error", backend=backend, solver=solver, error=f"{type(e).__name__}: {e}")
            continue
        sched = [t0 + j * D for j in range(int(math.floor(T / D + 1e-9)) + 1)]
        tf = info["controller"]["t_final"]
        ok = (len(rec.times) in (len(sched), len(sched) + 1) and all(abs(a - b) <= 1e-9 * max(1, abs(b)) for a, b in zip(rec.times, sched))
              and abs(tf - (t0 + T)) <= 1e-9 * max(1, abs(t0 + T)) and list(storage.times) == rec.times)
        if len(rec.times) == len(sched) + 1:
            ok = ok and abs(rec.times[-1] - (t0 + T)) < 1e-9
        if not ok:
            fail("adaptive_schedule", backend=backend, solver=solver, t0=t0, T=T, D=D, times=rec.times, scheduled=sched, t_final=tf)
    # ---- a constant interval whose own activation time lies BEFORE the start of the run
    from pde.trackers.interrupts import ConstantInterrupts as _CI
    for backend in ("numpy", "numba"):
        t0, dt, D = 2.0, 0.125, 1.0
        rec = Rec(_CI(D, t_start=t0 - 1.5))
        cases += 1
        eq.solve(ScalarField(grid, rng.uniform(0, 1, 5)), t_range=(t0, t0 + 4), dt=dt, tracker=[rec], backend=backend, solver="euler")
        # (which of the two lattices -- run start + k*D or activation time + k*D -- is meant is the C09 known finding; both
        # have calls exactly one interval apart)
        gaps = [b - a for a, b in zip(rec.times, rec.times[1:])]
        if len(rec.times) not in (4, 5) or any(abs(gp - D) > 1e-9 for gp in gaps):
            fail("constant_interval_calls_are_not_one_interval_apart", backend=backend, t_range=[t0, t0 + 4], interval=D, activation=t0 - 1.5, times=rec.times, gaps=gaps)
    # ---- adaptive steppers with trackers of DIFFERENT intervals (the adaptive step grows far beyond the gaps between
    #      their scheduled times): every tracker is still served at each of its own scheduled times
    for solver in ("euler", "runge-kutta"):
        for backend in ("numpy", "numba"):
            Da, Db = [(1.0, 0.7), (0.5, 0.8), (1.0, 0.45)][int(rng.integers(0, 3))]
            T = 10.0
            ra, rb = Rec(Da), Rec(Db)
            init = ScalarField(grid, 1 + 1e-3 * rng.uniform(0, 1, 5))
            cases += 1
            try:
                eq.solve(init, t_range=T, dt=1e-3, tracker=[ra, rb], backend=backend, solver=solver, adaptive=True, tolerance=1e-3)
            except Exception as e:
                fail("adaptive_error", backend=backend, solver=solver, error=f"{type(e).__name__}: {e}")
                continue
            for r, D in ((ra, Da), (rb, Db)):
                sched = [i * D for i in range(int(np.floor(T / D + 1e-9)) + 1)]
                got = r.times[:len(sched)]
                if len(r.times) not in (len(sched), len(sched) + 1) or any(abs(a - b) > 1e-6 for a, b in zip(got, sched)):
                    fail("adaptive_tracker_not_served_at_its_scheduled_times", backend=backend, solver=solver, interval=D, other_interval=Da if D == Db else Db, times=r.times, scheduled=sched)
    return {"ok": True, "cases": cases, "failures": fails}


if __name__ == "__main__":
    print(json.dumps(run(json.loads(sys.stdin.read()))))
