"""Native bounded stand-in for C02: every BC type / alias / accepted format, ranks 0-2, interpreted and
compiled ghost-cell setters, expression BCs, copies -- the condition must hold exactly at every face."""

import json
import sys

import numpy as np

import pde
from pde import CartesianGrid, CylindricalSymGrid, PolarSymGrid, ScalarField, Tensor2Field, UnitGrid, VectorField
from pde.backends import get_backend

FIELD = {0: ScalarField, 1: VectorField, 2: Tensor2Field}


def ghost_and_cells(full, grid, axis, upper, comp):
    """ghost layer and the two adjacent valid layers of component comp on face (axis, upper), valid other axes"""
    arr = full[comp] if comp is not None else full
    sl = [slice(1, -1)] * grid.num_axes
    def layer(k):
        s = list(sl); s[axis] = k
        return arr[tuple(s)]
    if upper:
        return layer(-1), layer(-2), layer(-3) if grid.shape[axis] >= 2 else None, layer(1)
    return layer(0), layer(1), layer(2) if grid.shape[axis] >= 2 else None, layer(-2)


def check(kind, g, c1, c2, opp, dx, par):
    if kind == "value":
        return (g + c1) / 2 - par["value"]
    if kind == "derivative":
        return (g - c1) / dx - par["value"]
    if kind == "mixed":
        return (g - c1) / dx + par["value"] * (g + c1) / 2 - par["const"]
    if kind == "curvature":
        return (g - 2 * c1 + c2) / dx**2 - par["value"]
    if kind == "periodic":
        return g - opp
    if kind == "anti-periodic":
        return g + opp


TYPES = {
    "value": ["value", "dirichlet"], "derivative": ["derivative", "neumann"], "mixed": ["mixed", "robin"],
    "curvature": ["curvature", "second_derivative"],
}


def crosscheck(cases):
    """native side of the engine cross-check: the real setters on concrete instances (numba JIT disabled by the caller)"""
    from pde.grids.boundaries import local as L

    out = []
    for c in cases:
        try:
            grid = CartesianGrid([(0.0, n * h) for n, h in zip(c["shape"], c["h"])], c["shape"], periodic=[c["cls"] == "_PeriodicBC" and a == c["axis"] for a in range(c["num_axes"])])
            cls = getattr(L, c["cls"])
            if c["cls"] == "_PeriodicBC":
                bc = cls(grid, c["axis"], c["upper"], flip_sign=c["flip"])
            elif c["cls"] == "MixedBC":
                bc = cls(grid, c["axis"], c["upper"], value=c["value"], const=c["const"])
            else:
                bc = cls(grid, c["axis"], c["upper"], value=c["value"])
            data = np.array(c["data"], dtype=float)
            if c["route"] == "interpreted":
                bc.set_ghost_cells(data)
            else:
                get_backend("numba")._make_local_ghost_cell_setter(bc)(data)
            out.append({"id": c["id"], "out": data.tolist()})
        except Exception as e:
            out.append({"id": c["id"], "error": f"{type(e).__name__}: {e}"})
    return {"ok": True, "results": out}


def run(payload):
    if "crosscheck" in payload:
        return crosscheck(payload["crosscheck"])
    rng = np.random.default_rng(payload.get("seed", 0))
    fails, cases = [], 0

    def fail(kind, **kw):
        if len(fails) < 8:
            fails.append({"id": kind, **kw})

    def apply(field, bc, route):
        f = field.copy()
        if route == "numpy":
            f.set_ghost_cells(bc)
        else:
            bcs = f.grid.get_boundary_conditions(bc, rank=f.rank)
            setter = get_backend("numba").make_ghost_cell_setter(bcs)
            setter(f._data_full)
        return f._data_full

    sections = payload.get("sections")
    # ---- parameters changed between two uses of the same condition objects
    if sections is None or "value_update" in sections:
        for kind, alias in (("value", "value"), ("derivative", "derivative"), ("mixed", "mixed"), ("curvature", "curvature")):
            for route in ("numpy", "numba"):
                grid = CartesianGrid([(0, float(rng.uniform(0.5, 2)))], [int(rng.integers(3, 7))])
                f = ScalarField(grid, rng.uniform(-1, 1, grid.shape))
                par = {"value": float(rng.uniform(0.2, 2)), "const": float(rng.uniform(-1, 1))}
                spec = {"type": alias, "value": par["value"]}
                if kind == "mixed":
                    spec["const"] = par["const"]
                bcs = grid.get_boundary_conditions({"x-": spec, "x+": {"derivative": 0}}, rank=0)
                cases += 1
                try:
                    for new_value in (None, float(rng.uniform(0.2, 2)), float(rng.uniform(0.2, 2))):
                        if new_value is not None:
                            bcs[0].low.value = new_value
                            par["value"] = new_value
                        f.data = rng.uniform(-1, 1, grid.shape)
                        if route == "numpy":
                            f.set_ghost_cells(bcs)
                        else:
                            get_backend("numba").make_ghost_cell_setter(bcs)(f._data_full)
                        g, c1, c2, opp = ghost_and_cells(f._data_full, grid, 0, False, None)
                        r = check(kind, g, c1, c2, opp, grid.discretization[0], par)
                        if np.max(np.abs(r)) > 1e-10:
                            fail("condition_after_value_update", bc_kind=kind, route=route, changed=new_value is not None, residual=float(np.max(np.abs(r))))
                            break
                except Exception as e:
                    fail("error", bc_kind=kind, route=route, error=f"{type(e).__name__}: {e}", where="value_update")
    # ---- values linked to external arrays (integer and float arrays), updated in place between two uses
    if sections is None or "linked_values" in sections:
        grid = UnitGrid([3, 2])
        for kind in ("value", "derivative", "mixed"):
            for dtype in (int, float):
                for route in ("numpy", "numba"):
                    f = ScalarField(grid, rng.uniform(-1, 1, grid.shape))
                    linked = np.array([4, 3], dtype=dtype)
                    par = {"value": linked, "const": 1.5}
                    spec = {"type": kind, "value": linked.astype(float)}
                    if kind == "mixed":
                        spec["const"] = par["const"]
                    cases += 1
                    try:
                        bcs = grid.get_boundary_conditions({"x": spec, "y": "neumann"})
                        for bc in bcs[0]:
                            bc.link_value(linked)
                        setter = (lambda: bcs.set_ghost_cells(f._data_full)) if route == "numpy" else (lambda s_=get_backend("numba").make_ghost_cell_setter(bcs): s_(f._data_full))
                        for new in (None, [2, 5]):
                            if new is not None:
                                linked[:] = new
                            setter()
                            for up in (False, True):
                                g, c1, c2, opp = ghost_and_cells(f._data_full, grid, 0, up, None)
                                r = check(kind, g, c1, c2, opp, 1.0, par)
                                if np.max(np.abs(r)) > 1e-10:
                                    fail("condition_with_linked_value", bc_kind=kind, dtype=dtype.__name__, route=route, upper=up, updated=new is not None, residual=float(np.max(np.abs(r))))
                    except Exception as e:
                        fail("error", bc_kind=kind, route=route, error=f"{type(e).__name__}: {e}", where="linked_values")
    # ---- condition objects for the two sides of an axis, linked to two arrays that hold equal numbers when the
    #      conditions are collected and are updated afterwards
    if sections is None or "linked_values" in sections:
        from pde.grids.boundaries.local import DirichletBC, NeumannBC
        grid = UnitGrid([3, 2])
        for cls, kind in ((DirichletBC, "value"), (NeumannBC, "derivative")):
            for route in ("numpy", "numba"):
                cases += 1
                try:
                    f = ScalarField(grid, rng.uniform(-1, 1, grid.shape))
                    v_lo, v_hi = np.zeros(2), np.zeros(2)
                    b_lo = cls(grid, 0, upper=False, value=v_lo); b_lo.link_value(v_lo)
                    b_hi = cls(grid, 0, upper=True, value=v_hi); b_hi.link_value(v_hi)
                    bcs = grid.get_boundary_conditions({"x-": b_lo, "x+": b_hi, "y": "neumann"})
                    v_lo[:] = [1.0, 2.0]; v_hi[:] = [10.0, 20.0]
                    if route == "numpy":
                        bcs.set_ghost_cells(f._data_full)
                    else:
                        get_backend("numba").make_ghost_cell_setter(bcs)(f._data_full)
                    for up, v in ((False, v_lo), (True, v_hi)):
                        g, c1, c2, opp = ghost_and_cells(f._data_full, grid, 0, up, None)
                        r = check(kind, g, c1, c2, opp, 1.0, {"value": v})
                        if np.max(np.abs(r)) > 1e-10:
                            fail("side_uses_the_array_linked_to_the_other_side", bc_kind=kind, route=route, upper=up, residual=float(np.max(np.abs(r))))
                except Exception as e:
                    fail("error", bc_kind=kind, route=route, error=f"{type(e).__name__}: {e}", where="linked objects")
    # ---- a one-sided condition overrides the condition given for the whole axis (documented precedence)
    if sections is None or "precedence" in sections:
        grid = UnitGrid([3, 4])
        f = ScalarField(grid, rng.uniform(-1, 1, grid.shape))
        for route in ("numpy", "numba"):
            for ax_name, ax in (("x", 0), ("y", 1)):
                for up in (False, True):
                    side = ax_name + ("+" if up else "-")
                    bc = {"*": {"derivative": 0}, ax_name: {"derivative": 0.5}, side: {"value": 2.0}}
                    cases += 1
                    try:
                        full = apply(f, bc, route)
                    except Exception as e:
                        fail("error", bc=repr(bc), route=route, error=f"{type(e).__name__}: {e}", where="precedence")
                        continue
                    for up2 in (False, True):
                        g, c1, c2, opp = ghost_and_cells(full, grid, ax, up2, None)
                        kind2, par2 = ("value", {"value": 2.0}) if up2 == up else ("derivative", {"value": 0.5})
                        if np.max(np.abs(check(kind2, g, c1, c2, opp, 1.0, par2))) > 1e-10:
                            fail("one_sided_condition_does_not_override_the_axis_condition", bc=repr(bc), route=route, axis=ax, upper=up2)
    # ---- conditions given as expressions of the coordinates, on every face of a 3-d grid
    if sections is None or "coordinate_expressions" in sections:
        grid = CartesianGrid([(0, 1), (0, 2), (0, 3)], [2, 3, 4])
        f = ScalarField(grid, rng.uniform(-1, 1, grid.shape))
        names = grid.axes
        for route in ("numpy", "numba"):
            for ax in range(3):
                for up in (False, True):
                    others = [a for a in range(3) if a != ax]
                    expr = f"1 + {names[others[0]]} + 10 * {names[others[1]]}"
                    bc = {"*": {"derivative": 0}, names[ax] + ("+" if up else "-"): {"value_expression": expr}}
                    cases += 1
                    try:
                        full = apply(f, bc, route)
                    except Exception as e:
                        fail("error", bc=repr(bc), route=route, error=f"{type(e).__name__}: {e}", where="coordinate_expressions")
                        continue
                    g, c1, c2, opp = ghost_and_cells(full, grid, ax, up, None)
                    c0, c1_ = np.meshgrid(grid.axes_coords[others[0]], grid.axes_coords[others[1]], indexing="ij")
                    want = 1 + c0 + 10 * c1_
                    if np.max(np.abs((g + c1) / 2 - want)) > 1e-10:
                        fail("expression_condition_evaluated_at_the_wrong_boundary_points", bc=repr(bc), route=route, axis=ax, upper=up, residual=float(np.max(np.abs((g + c1) / 2 - want))))
    # ---- Dirichlet values given with a narrow integer dtype (e.g. image data): the face value is the value given
    if sections is None or "narrow_integers" in sections:
        from pde import CartesianGrid as _CGn
        gn = _CGn([[0, 2]], 4)
        fn = ScalarField(gn, [1.5, 2.0, 3.0, 4.0])
        for v in (np.uint8(3), np.int8(100), np.int16(20000)):
            cases += 1
            try:
                full = fn._data_full.copy()
                gn.get_boundary_conditions({"x": {"value": v}}).set_ghost_cells(full)
                face = [(full[0] + full[1]) / 2, (full[-1] + full[-2]) / 2]
                if not np.allclose(face, float(v)):
                    fail("dirichlet_value_of_a_narrow_integer_dtype_overflows", value=repr(v), face_values=[float(x) for x in face], want=float(v))
            except Exception as e:
                fail("error", where="narrow_integers", value=repr(v), error=f"{type(e).__name__}: {e}")
    # ---- every way of writing a periodic / anti-periodic axis
    if sections is None or "periodic_specs" in sections:
        grid = UnitGrid([4, 3], periodic=[True, False])
        f = ScalarField(grid, rng.uniform(-1, 1, grid.shape))
        for per_kind in ("periodic", "anti-periodic"):
            for form, spec in (("str", per_kind), ("dict", {"type": per_kind}), ("pair", (per_kind, per_kind)), ("list_of_dicts", [{"type": per_kind}, {"type": per_kind}])):
                for route in ("numpy", "numba"):
                    cases += 1
                    try:
                        # named axes accept the string and dictionary forms; pairs are a per-axis format
                        full = apply(f, {"x": spec, "y": {"value": 0.5}} if form in ("str", "dict") else [spec, {"value": 0.5}], route)
                    except Exception as e:
                        fail("error", spec=repr(spec), route=route, error=f"{type(e).__name__}: {e}", where="periodic_specs")
                        continue
                    for up in (False, True):
                        g, c1, c2, opp = ghost_and_cells(full, grid, 0, up, None)
                        if np.max(np.abs(check(per_kind, g, c1, c2, opp, 1.0, {}))) > 1e-12:
                            fail("periodic_spec_form", bc_kind=per_kind, form=form, route=route, upper=up)
    if sections is not None:
        return {"ok": True, "cases": cases, "failures": fails}

    for rep in range(payload.get("n", 2)):
        grids = [CartesianGrid([(0, float(rng.uniform(0.5, 2)))], [int(rng.integers(2, 5))]),
                 CartesianGrid([(0, float(rng.uniform(0.5, 2))), (-1, float(rng.uniform(0.5, 2)))], [int(rng.integers(2, 5)), int(rng.integers(2, 5))]),
                 CartesianGrid([(0, 1), (0, 2), (0, 0.5)], [2, 3, 2]) if rep % 2 == 0 else PolarSymGrid((0.5, 2), 4)]
        for grid in grids:
            for rank in (0, 1, 2):
                if rank > 0 and not isinstance(grid, CartesianGrid):
                    continue
                field = FIELD[rank](grid, rng.uniform(-1, 1, (grid.dim,) * rank + grid.shape))
                for kind, aliases in TYPES.items():
                    for alias in aliases:
                        for route in ("numpy", "numba"):
                            for normal in ((False, True) if rank >= 1 else (False,)):
                                v = float(rng.uniform(-1, 1))
                                par = {"value": v}
                                name = ("normal_" + alias) if normal else alias
                                if normal and alias in ("second_derivative",):
                                    continue
                                if kind == "mixed":
                                    par = {"value": float(rng.uniform(0.2, 2)), "const": float(rng.uniform(-1, 1))}
                                    spec = {"type": name, "value": par["value"], "const": par["const"]}
                                else:
                                    spec = {name: v} if rep % 2 == 0 else {"type": name, "value": v}
                                ax = int(rng.integers(0, grid.num_axes))
                                upper = bool(rng.integers(0, 2))
                                side = grid.axes[ax] + ("+" if upper else "-")
                                fmt = int(rng.integers(0, 3))
                                other = {"derivative": 0} if rank == 0 or not normal else {"normal_derivative": 0}
                                if fmt == 0:
                                    bc = {"*": other, side: spec}
                                elif fmt == 1:
                                    bc = {a: other for a in grid.axes if a != grid.axes[ax]}
                                    bc[grid.axes[ax] + "-"] = spec if not upper else other
                                    bc[grid.axes[ax] + "+"] = spec if upper else other
                                else:
                                    bc = {"*": other, grid.axes[ax]: spec}
                                cases += 1
                                try:
                                    full = apply(field, bc, route)
                                    bcs = grid.get_boundary_conditions(bc, rank=rank)
                                    full_copy = None
                                    if route == "numpy":
                                        fc = field.copy()
                                        bcs.copy().set_ghost_cells(fc._data_full)
                                        full_copy = fc._data_full
                                except Exception as e:
                                    fail("error", grid=repr(grid), bc=repr(bc), rank=rank, route=route, error=f"{type(e).__name__}: {e}")
                                    continue
                                sides = [upper] if fmt != 2 else [False, True]
                                import itertools
                                comps = [None] if rank == 0 else list(itertools.product(range(grid.dim), repeat=rank))
                                for up in sides:
                                    for comp in comps:
                                        affected = (not normal) or comp[-1] == ax
                                        for arr, tag in ((full, route), (full_copy, "copy")):
                                            if arr is None:
                                                continue
                                            g, c1, c2, opp = ghost_and_cells(arr, grid, ax, up, comp)
                                            if affected:
                                                if kind == "curvature" and c2 is None:
                                                    continue
                                                r = check(kind, g, c1, c2, opp, grid.discretization[ax], par)
                                                if np.max(np.abs(r)) > 1e-10:
                                                    fail("condition", grid=repr(grid), bc=repr(bc), rank=rank, route=tag, axis=ax, upper=up, comp=comp, residual=float(np.max(np.abs(r))))
                                            elif normal:
                                                # non-normal components: the other condition (normal_derivative 0 applies only to the normal one) -> untouched
                                                g0, _, _, _ = ghost_and_cells(field._data_full, grid, ax, up, comp)
                                                if not np.array_equal(g, g0, equal_nan=True):
                                                    fail("normal_touches_other_component", grid=repr(grid), bc=repr(bc), rank=rank, route=tag, comp=comp)
                # expression BCs (rank 0)
                if rank == 0:
                    for route in ("numpy", "numba"):
                        ax = int(rng.integers(0, grid.num_axes)); upper = bool(rng.integers(0, 2))
                        side = grid.axes[ax] + ("+" if upper else "-")
                        dx = grid.discretization[ax]
                        for name, kind, expr in (("value_expression", "value", "1.5 + 0.5"), ("derivative_expr", "derivative", "2 - 0.5"),
                                                 ("mixed_expression", "mixed", ("1 + 0.5", "0.7 - 0.2")), ("robin_expr", "mixed", ("2", "1 + 1"))):
                            if kind == "mixed":
                                spec = {"type": name, "value": expr[0], "const": expr[1]}
                                par = {"value": eval(expr[0]), "const": eval(expr[1])}
                            else:
                                spec = {name: expr}
                                par = {"value": eval(expr)}
                            bc = {"*": {"derivative": 0}, side: spec}
                            cases += 1
                            try:
                                full = apply(field, bc, route)
                            except Exception as e:
                                fail("error", grid=repr(grid), bc=repr(bc), route=route, error=f"{type(e).__name__}: {e}")
                                continue
                            g, c1, c2, opp = ghost_and_cells(full, grid, ax, upper, None)
                            r = check(kind, g, c1, c2, opp, dx, par)
                            if np.max(np.abs(r)) > 1e-10:
                                fail("expression_condition", grid=repr(grid), bc=repr(bc), route=route, residual=float(np.max(np.abs(r))))
        # periodic / anti-periodic / auto
        for per_kind in ("periodic", "anti-periodic"):
            grid = UnitGrid([4, 3], periodic=[True, False])
            f = ScalarField(grid, rng.uniform(-1, 1, grid.shape))
            for route in ("numpy", "numba"):
                bc = {"x": per_kind, "y": {"value": 0.5}}
                cases += 1
                full = apply(f, bc, route)
                for up in (False, True):
                    g, c1, c2, opp = ghost_and_cells(full, grid, 0, up, None)
                    if np.max(np.abs(check(per_kind, g, c1, c2, opp, 1.0, {}))) > 1e-12:
                        fail("periodic", kind=per_kind, route=route, upper=up)
                full = apply(f, "auto_periodic_neumann", route)
                g, c1, c2, opp = ghost_and_cells(full, grid, 0, True, None)
                g2, d1, _, _ = ghost_and_cells(full, grid, 1, True, None)
                if np.max(np.abs(g - opp)) > 1e-12 or np.max(np.abs(g2 - d1)) > 1e-12:
                    fail("auto_periodic_neumann", route=route)
    return {"ok": True, "cases": cases, "failures": fails}


if __name__ == "__main__":
    print(json.dumps(run(json.loads(sys.stdin.read()))))
