"""Native bounded stand-in for C19."""

import json
import sys

import numpy as np

import pde
from pde import CartesianGrid, CylindricalSymGrid, PolarSymGrid, ScalarField, SphericalSymGrid, Tensor2Field, VectorField
from pde.backends import get_backend


def run(payload):
    rng = np.random.default_rng(payload.get("seed", 0))
    fails, cases = [], 0

    def fail(kind, **kw):
        if sum(1 for f_ in fails if f_["id"] == kind) < 3:  # a few witnesses per kind; one kind never crowds out another
            fails.append({"id": kind, **kw})

    for _ in range(payload.get("n", 3)):
        hole = bool(rng.integers(0, 2))
        r0 = 0.5 if hole else 0.0
        grids = [PolarSymGrid((r0, 3.0), 8), SphericalSymGrid((r0, 3.0), 8), CylindricalSymGrid((r0, 3.0), (-1, 2), (8, 6))]
        for g in grids:
            names = g.axes + g.axes_symmetric
            cases += 1
            # construction from per-component expressions vs access by name vs operators
            exprs = {"r": "r**2", "z": "3*z", "φ": "0", "θ": "0"}
            v = VectorField.from_expression(g, [exprs[n] for n in names])
            for k, n in enumerate(names):
                if not np.array_equal(v[n].data, v.data[k]) or g.get_axis_index(n) != k:
                    fail("access_by_name", grid=repr(g), name=n)
            w = VectorField(g, 0.0)
            for n in names:
                w[n] = ScalarField.from_expression(g, exprs[n])
            if not np.array_equal(w.data, v.data):
                fail("setitem_by_name", grid=repr(g))
            # divergence of r^2 e_r (+ 3z e_z): analytic value, checks that the operators use the same order
            div = v.divergence("auto_periodic_neumann").data
            r = g.cell_coords[..., 0]
            want = {PolarSymGrid: 3 * r, SphericalSymGrid: 4 * r, CylindricalSymGrid: 3 * r + 3}[type(g)]
            inner = (slice(1, -1),) * g.num_axes
            if not np.allclose(div[inner], want[inner], rtol=0.1, atol=0.15):
                fail("operators_vs_names", grid=repr(g), max_dev=float(np.max(np.abs(div[inner] - want[inner]))))
            # dot / outer on both backends with distinct operands
            a = VectorField(g, rng.uniform(-1, 1, (g.dim,) + g.shape))
            b = VectorField(g, rng.uniform(-1, 1, (g.dim,) + g.shape))
            want_outer = np.einsum("i...,j...->ij...", a.data, b.data)
            if not np.allclose(a.outer_product(b).data, want_outer):
                fail("outer_numpy", grid=repr(g))
            op = a.make_outer_prod_operator("numba")
            if not np.allclose(op(a.data, b.data), want_outer):
                fail("outer_numba", grid=repr(g))
            if not np.allclose((a @ b).data, np.einsum("i...,i...->...", a.data, b.data)):
                fail("dot", grid=repr(g))
            t = Tensor2Field(g, rng.uniform(-1, 1, (g.dim, g.dim) + g.shape))
            if not np.allclose((t @ a).data, np.einsum("ij...,j...->i...", t.data, a.data)):
                fail("tensor_dot", grid=repr(g))
            # bases at random points
            pts = np.c_[rng.uniform(0.3, 3, 5), rng.uniform(0.2, 2.8, 5), rng.uniform(-3, 3, 5)][:, : g.dim]
            R = g.c.basis_rotation(pts)
            J = g.c.mapping_jacobian(pts)
            h = g.c.scale_factors(pts)
            for m in range(5):
                Rm = R[..., m]
                if not np.allclose(Rm @ Rm.T, np.eye(g.dim), atol=1e-12) or not np.isclose(np.linalg.det(Rm), 1):
                    fail("basis_orthonormal_right_handed", grid=repr(g))
                if not np.allclose(Rm.T * h[:, m], J[..., m], atol=1e-12):
                    fail("basis_vs_jacobian", grid=repr(g))
            # the coordinate systems without a grid class of their own (both half spaces tau < 0 and tau > 0)
            from pde.grids.coordinates import BipolarCoordinates, BisphericalCoordinates
            for cs in (BipolarCoordinates(float(rng.uniform(0.5, 2))), BisphericalCoordinates(float(rng.uniform(0.5, 2)))):
                pts2 = np.c_[rng.uniform(0.3, 2.8, 6), np.r_[rng.uniform(-2, -0.2, 3), rng.uniform(0.2, 2, 3)], rng.uniform(-3, 3, 6)][:, : cs.dim]
                R2, J2, h2 = cs.basis_rotation(pts2), cs.mapping_jacobian(pts2), cs.scale_factors(pts2)
                for m in range(6):
                    Rm = R2[..., m]
                    if not np.allclose(Rm @ Rm.T, np.eye(cs.dim), atol=1e-10) or not np.isclose(np.linalg.det(Rm), 1):
                        fail("basis_orthonormal_right_handed", grid=repr(cs), point=pts2[m].tolist())
                    if not np.allclose(Rm.T * h2[:, m], J2[..., m], atol=1e-10):
                        fail("basis_vs_jacobian", grid=repr(cs), point=pts2[m].tolist())
            # conversion to Cartesian grids: radial field r e_r -> (x, y[, z]); axial field -> e_z
            rad = VectorField.from_expression(g, ["r" if n == "r" else "0" for n in names])
            if isinstance(g, PolarSymGrid):
                cart = CartesianGrid([(-1.5, 1.5)] * 2, 6)
            elif isinstance(g, SphericalSymGrid):
                cart = CartesianGrid([(-1.2, 1.2)] * 3, 4)
            else:
                cart = CartesianGrid([(-1.2, 1.2), (-1.2, 1.2), (-0.5, 1.5)], 4)
            try:
                rc = rad.interpolate_to_grid(cart, fill=np.nan)
                xyz = np.moveaxis(cart.cell_coords, -1, 0)
                want = xyz.copy()
                if isinstance(g, CylindricalSymGrid):
                    want[2] = 0
                mask = ~np.isnan(rc.data[0])
                rr = np.sqrt(sum(x**2 for x in xyz[: (2 if not isinstance(g, SphericalSymGrid) else 3)]))
                mask &= (rr > r0 + 0.4) & (rr < 2.6)
                if mask.any() and not np.allclose(rc.data[:, mask], want[:, mask], atol=0.05):
                    fail("radial_field_to_cartesian" if not isinstance(g, CylindricalSymGrid) else "cylindrical_to_cartesian", grid=repr(g), max_dev=float(np.nanmax(np.abs(rc.data[:, mask] - want[:, mask]))))
                if isinstance(g, CylindricalSymGrid):
                    ax = VectorField.from_expression(g, ["1" if n == "z" else "0" for n in names]).interpolate_to_grid(cart, fill=np.nan)
                    wanted = np.zeros_like(ax.data); wanted[2] = 1
                    if mask.any() and not np.allclose(ax.data[:, mask], wanted[:, mask], atol=1e-6):
                        fail("cylindrical_to_cartesian", grid=repr(g), what="uniform axial field does not become a uniform z-field",
                             got_at_one_point=ax.data[:, mask][:, 0].tolist())
            except Exception as e:
                fail("to_cartesian_error", grid=repr(g), error=f"{type(e).__name__}: {e}")
    # ---- coordinate systems: the position vector r*e_r (+ z*e_z) has the Cartesian components of the point itself, for one
    #      point and for arrays of points (components are combined with the normalised Jacobian columns)
    from pde.grids.coordinates import CylindricalCoordinates, PolarCoordinates, SphericalCoordinates
    for c in (PolarCoordinates(), SphericalCoordinates(), CylindricalCoordinates()):
        for shape in ((), (5,), (3, 4)):
            cases += 1
            pts = rng.uniform(0.3, 2.5, (*shape, c.dim))
            comps = np.zeros((c.dim, *shape))
            comps[0] = pts[..., 0]
            if isinstance(c, CylindricalCoordinates):
                comps[2] = pts[..., 2]
            try:
                got = c.vec_to_cart(pts, comps)
                want = np.moveaxis(c.pos_to_cart(pts), -1, 0)
                if got.shape != want.shape or not np.allclose(got, want, atol=1e-12):
                    fail("position_vector_components_not_the_cartesian_point", coordinates=type(c).__name__, batch_shape=list(shape), max_dev=float(np.max(np.abs(got - want))) if got.shape == want.shape else "shape")
            except Exception as e:
                fail("vec_to_cart_error", coordinates=type(c).__name__, batch_shape=list(shape), error=f"{type(e).__name__}: {e}")
    # ---- image data of a vector field on a polar grid: r*e_r is drawn as (x, y)
    for r0 in (0.0, 0.5):
        g = PolarSymGrid((r0, 3.0), 8)
        cases += 1
        try:
            v = VectorField.from_expression(g, ["r", "0"])
            img = v.get_vector_data()
            xs, ys = np.meshgrid(img["x"], img["y"], indexing="ij")
            rr = np.hypot(xs, ys)
            mask = (rr > r0 + 0.4) & (rr < 2.6) & np.isfinite(img["data_x"]) & np.isfinite(img["data_y"])
            if mask.any() and not (np.allclose(img["data_x"][mask], xs[mask], atol=0.05) and np.allclose(img["data_y"][mask], ys[mask], atol=0.05)):
                fail("vector_image_of_a_radial_field_is_not_radial", grid=repr(g), max_dev=float(max(np.max(np.abs(img["data_x"][mask] - xs[mask])), np.max(np.abs(img["data_y"][mask] - ys[mask])))))
        except Exception as e:
            fail("vector_image_error", grid=repr(g), error=f"{type(e).__name__}: {e}")
    return {"ok": True, "cases": cases, "failures": fails}


if __name__ == "__main__":
    print(json.dumps(run(json.loads(sys.stdin.read()))))
