"""Native bounded stand-in for C10."""

import json
import sys

import numpy as np

import pde
from pde import (PDE, AllenCahnPDE, CahnHilliardPDE, CartesianGrid, DiffusionPDE, FieldCollection, KPZInterfacePDE, KuramotoSivashinskyPDE,
                 ScalarField, SwiftHohenbergPDE, UnitGrid, WavePDE)
from pde.pdes import KleinGordonPDE


def run(payload):
    rng = np.random.default_rng(payload.get("seed", 0))
    fails, cases = [], 0

    def fail(kind, **kw):
        if len(fails) < 8:
            fails.append({"id": kind, **kw})

    def close(a, b, tol=1e-9):
        return np.allclose(a, b, rtol=tol, atol=tol)

    for rep in range(payload.get("n", 1)):
        for grid in (UnitGrid([6]), CartesianGrid([(0, 2.0), (0, 1.0)], [4, 3], periodic=[False, True])):
            per = {ax: "periodic" for i, ax in enumerate(grid.axes) if grid.periodic[i]}

            def bc(kind, val):
                d = {ax: {kind: val} for i, ax in enumerate(grid.axes) if not grid.periodic[i]}
                d.update(per)
                return d

            r = lambda: float(np.round(rng.uniform(0.2, 2), 3))
            b1, b2 = bc("value", r()), bc("derivative", r())
            eqs = [DiffusionPDE(r(), bc=b1), AllenCahnPDE(r(), mobility=r(), bc=b2), CahnHilliardPDE(r(), bc_c=b1, bc_mu=b2), KPZInterfacePDE(r(), r(), bc=b1),
                   KuramotoSivashinskyPDE(r(), bc=b2, bc_lap=b1), SwiftHohenbergPDE(r(), r(), r(), bc=b2, bc_lap=b1)]
            s = ScalarField(grid, rng.uniform(-1, 1, grid.shape))
            for eq in eqs:
                cases += 1
                name = type(eq).__name__
                try:
                    a = eq.evolution_rate(s, 0.3).data
                    for backend in ("numpy", "numba"):
                        b = eq.make_pde_rhs(s, backend=backend)(s.data, 0.3)
                        if not close(a, b):
                            fail(f"interpreted_vs_{backend}", eq=name, grid=repr(grid), max_dev=float(np.max(np.abs(a - b))))
                    # generic PDE from the advertised expression: one homogeneous condition for all operators (the text has no BC annotations)
                    hom = bc("derivative", 0.0)
                    kw = {k: hom for k in ("bc", "bc_c", "bc_mu", "bc_lap") if hasattr(eq, k)}
                    params = {k: getattr(eq, k) for k in ("diffusivity", "interface_width", "mobility", "nu", "lmbda", "rate", "kc2", "delta") if hasattr(eq, k)}
                    eq_h = type(eq)(**params, **kw)
                    gen = PDE({"c": eq_h.expression}, bc=hom)
                    a = eq_h.evolution_rate(s, 0.3).data
                    b = gen.evolution_rate(s, 0.3).data
                    if not np.allclose(a, b, rtol=1e-4, atol=1e-5):
                        fail("class_vs_expression", eq=name, grid=repr(grid), expression=eq_h.expression, max_dev=float(np.max(np.abs(a - b))))
                    # the same with ONE inhomogeneous condition for all operators (nothing operator specific, so the text can express it)
                    for inh in (bc("value", 0.8), bc("derivative", -0.6)):
                        kw = {k: inh for k in ("bc", "bc_c", "bc_mu", "bc_lap") if hasattr(eq, k)}
                        eq_i = type(eq)(**params, **kw)
                        a = eq_i.evolution_rate(s, 0.3).data
                        b = PDE({"c": eq_i.expression}, bc=inh).evolution_rate(s, 0.3).data
                        if not np.allclose(a, b, rtol=1e-4, atol=1e-5):
                            fail("class_vs_expression_with_one_inhomogeneous_condition", eq=name, grid=repr(grid), expression=eq_i.expression, bc=repr(inh), max_dev=float(np.max(np.abs(a - b))))
                except Exception as e:
                    fail("rate_error", eq=name, grid=repr(grid), error=f"{type(e).__name__}: {str(e)[:300]}")
            for eq in (WavePDE(r(), bc=b1), KleinGordonPDE(r(), r(), bc=b2)):
                cases += 1
                st = FieldCollection([s, ScalarField(grid, rng.uniform(-1, 1, grid.shape))])
                try:
                    a = eq.evolution_rate(st, 0.2).data
                    for backend in ("numpy", "numba"):
                        b = eq.make_pde_rhs(st, backend=backend)(st.data, 0.2)
                        if not close(a, b):
                            fail(f"interpreted_vs_{backend}", eq=type(eq).__name__, grid=repr(grid), max_dev=float(np.max(np.abs(a - b))))
                except Exception as e:
                    fail("rate_error", eq=type(eq).__name__, error=f"{type(e).__name__}: {str(e)[:300]}")
            # expression PDEs: constants (non-alphabetical insertion order), time, coordinates, several fields, per-variable operator BCs
            consts = {"rate": -0.75, "diff": 2.5, "amp": 0.3}
            ax0 = grid.axes[0]
            eq = PDE({"u": f"diff * laplace(u) + rate * v + amp * sin(t) + 0.1 * {ax0}", "v": "laplace(v) - u * rate + diff"},
                     bc_ops={"u:laplace": b1, "v:laplace": b2}, consts=consts)
            st = FieldCollection([ScalarField(grid, rng.uniform(-1, 1, grid.shape)), ScalarField(grid, rng.uniform(-1, 1, grid.shape))])
            cases += 1
            try:
                t = 0.4
                x = grid.cell_coords[..., 0]
                want_u = 2.5 * st[0].laplace(b1).data + (-0.75) * st[1].data + 0.3 * np.sin(t) + 0.1 * x
                want_v = st[1].laplace(b2).data - st[0].data * (-0.75) + 2.5
                a = eq.evolution_rate(st, t).data
                if not close(a[0], want_u) or not close(a[1], want_v):
                    fail("expression_pde_vs_formula", grid=repr(grid), dev_u=float(np.max(np.abs(a[0] - want_u))), dev_v=float(np.max(np.abs(a[1] - want_v))))
                for backend in ("numpy", "numba"):
                    b = eq.make_pde_rhs(st, backend=backend)(st.data, t)
                    if not close(a, b):
                        fail(f"expression_pde_interpreted_vs_{backend}", grid=repr(grid), max_dev=float(np.max(np.abs(a - b))))
            except Exception as e:
                fail("expression_pde_error", error=f"{type(e).__name__}: {str(e)[:300]}")
    # ---- complex right-hand side on a real state (single field and collection): the interpreted rate keeps the imaginary part
    from pde import PDE as _PDE
    g = UnitGrid([6], periodic=True)
    for kind in ("field", "collection"):
        for backend in ("numpy", "numba"):
            cases += 1
            try:
                if kind == "field":
                    eq, st = _PDE({"c": "I * laplace(c)"}), ScalarField(g, np.cos(np.arange(6.0)))
                else:
                    eq, st = _PDE({"u": "I * laplace(v)", "v": "laplace(u)"}), FieldCollection([ScalarField(g, np.cos(np.arange(6.0))), ScalarField(g, np.sin(np.arange(6.0)))])
                lap = lambda f: f.laplace("periodic").data
                want = 1j * lap(st) if kind == "field" else np.array([1j * lap(st[1]), lap(st[0]) + 0j])
                if backend == "numpy":
                    a = eq.evolution_rate(st, 0.0).data
                else:
                    try:
                        a = eq.make_pde_rhs(st, backend=backend)(st.data.astype(complex), 0.0)
                    except Exception:
                        continue  # the compiled collection route refuses complex data with a typing error (an exception, not a wrong result)
                if not np.allclose(a, want, rtol=1e-10, atol=1e-12):
                    fail("complex_rate_of_a_real_state_loses_its_imaginary_part", state=kind, backend=backend, max_dev=float(np.max(np.abs(a - want))), dtype=str(a.dtype))
            except Exception as e:
                fail("rate_error", eq="complex rhs on real state", state=kind, backend=backend, error=f"{type(e).__name__}: {str(e)[:200]}")
    return {"ok": True, "cases": cases, "failures": fails}


if __name__ == "__main__":
    print(json.dumps(run(json.loads(sys.stdin.read()))))
