"""Native side of the engine cross-check: the real kernel factories of pde/backends/numba/operators are run
under CPython (numba JIT disabled, i.e. with exactly the Python semantics the pdv interpreter models) on
concrete grids and arrays; the verifier compares every output cell with the value of ITS symbolic result for
the same inputs."""

import importlib
import json
import sys

import numpy as np

import pde
from pde import CartesianGrid, CylindricalSymGrid, PolarSymGrid, SphericalSymGrid, get_backend

MOD = {"cartesian": "cartesian", "polar": "polar_sym", "spherical": "spherical_sym", "cylindrical": "cylindrical_sym"}


def run(payload):
    backend = get_backend("numba")
    res = []
    for case in payload["cases"]:
        kind, shape, lo, h = case["kind"], case["shape"], case["lo"], case["h"]
        bounds = [(l, l + n * d) for l, n, d in zip(lo, shape, h)]
        if kind == "cartesian":
            grid = CartesianGrid(bounds, shape)
        elif kind == "polar":
            grid = PolarSymGrid(bounds[0], shape[0])
        elif kind == "spherical":
            grid = SphericalSymGrid(bounds[0], shape[0])
        else:
            grid = CylindricalSymGrid(bounds[0], bounds[1], shape)
        mod = importlib.import_module(f"pde.backends.numba.operators.{MOD[kind]}")
        try:
            kernel = getattr(mod, f"make_{case['op']}")(grid, backend=backend, **case["opts"])
            arr = np.array(case["arr"], dtype=float)
            out = np.full(case["out_shape"], np.nan)
            kernel(arr, out)
            res.append({"id": case["id"], "out": out.tolist()})
        except Exception as e:
            res.append({"id": case["id"], "error": f"{type(e).__name__}: {e}"})
    return {"ok": True, "results": res}


if __name__ == "__main__":
    print(json.dumps(run(json.loads(sys.stdin.read()))))
