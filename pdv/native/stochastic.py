"""Native bounded stand-in for C13: seeded single- and multi-step runs on the numpy backend against the
documented increment, with field-dependent variance on grids with non-uniform cell volumes."""

import json
import sys

import numpy as np

import pde
from pde import CartesianGrid, CylindricalSymGrid, ScalarField, SphericalSymGrid, UnitGrid
from pde.pdes.base import SDEBase

ALPHA = {"ito": 0.0, "stratonovich": 0.5, "anti-ito": 1.0}


class Mult(SDEBase):
    """du = a u dt + sqrt(c0 + c1 u^2) dW"""

    def __init__(self, a, c0, c1, interpretation, rng):
        super().__init__(noise=1.0, noise_interpretation=interpretation, rng=rng)
        self.a, self.c0, self.c1 = a, c0, c1

    def evolution_rate(self, state, t=0):
        return self.a * state

    def make_evolution_rate(self, state, backend):
        a = self.a
        return lambda arr, t: a * arr

    def make_noise_variance(self, state, *, backend, ret_diff=False):
        c0, c1 = self.c0, self.c1

        def var(arr, t):
            if ret_diff:
                return c0 + c1 * arr**2, 2 * c1 * arr
            return c0 + c1 * arr**2

        return var


def run(payload):
    rng0 = np.random.default_rng(payload.get("seed", 0))
    fails, cases = [], 0
    grids = [UnitGrid([4]), CartesianGrid([(0, 1), (0, 0.5)], [2, 4]), SphericalSymGrid((0.5, 2), 4), CylindricalSymGrid((0, 2), (0, 1), (3, 2))]
    for k in range(payload.get("n", 6)):
        grid = grids[k % len(grids)]
        vol = grid.cell_volumes
        for solver in ("euler", "milstein"):
            for interp, alpha in ALPHA.items():
                a, c0, c1 = float(rng0.uniform(-1, 1)), float(rng0.choice([0.0, 0.3])), float(rng0.uniform(0.1, 1))
                dt = float(rng0.choice([0.01, 0.05]))
                n = int(rng0.integers(1, 5))
                seed = int(rng0.integers(0, 10**6))
                u0 = rng0.uniform(0.5, 2, grid.shape)
                eq = Mult(a, c0, c1, interp, np.random.default_rng(seed))
                cases += 1
                try:
                    res = eq.solve(ScalarField(grid, u0), t_range=n * dt, dt=dt, solver=solver, backend="numpy", tracker=None)
                except Exception as e:
                    fails.append({"id": f"{solver}.{interp}", "error": f"{type(e).__name__}: {e}"})
                    continue
                ref_rng = np.random.default_rng(seed)
                u = u0.copy()
                for _ in range(n):
                    xi = ref_rng.standard_normal(grid.shape)
                    var, vard = c0 + c1 * u**2, 2 * c1 * u
                    inc = dt * a * u + np.sqrt(var * dt / vol) * xi + 0.5 * alpha * dt * vard / vol
                    if solver == "milstein":
                        dW = np.sqrt(dt) * xi
                        inc = inc + 0.25 * vard / vol * (dW**2 - dt)
                    u = u + inc
                dev = float(np.max(np.abs(res.data - u)))
                if dev > 1e-10 * (1 + float(np.max(np.abs(u)))):
                    fails.append({"id": f"{solver}.{interp}", "grid": repr(grid), "a": a, "c0": c0, "c1": c1, "dt": dt, "steps": n, "seed": seed, "deviation": dev})
                # vanishing variance gives the deterministic result
        eq = Mult(0.3, 0.0, 0.0, "ito", np.random.default_rng(1))
        eq.noise = 0
    # ---- per-field variances of the PDE class, for every way of writing the equations and the variances
    from pde import PDE, FieldCollection
    grid = CartesianGrid([(0, 1)], 4)
    vol = grid.cell_volumes
    variances = {"a": 1.0, "b": 2.0}
    for rhs_kind in ("dict", "pairs"):
        for noise_kind in ("dict", "list", "partial_dict"):
            rhs = {"a": "0.5", "b": "-a"} if rhs_kind == "dict" else [("a", "0.5"), ("b", "-a")]
            noise = {"dict": variances, "list": [1.0, 2.0], "partial_dict": {"b": 2.0}}[noise_kind]
            var = np.array([[0.0 if noise_kind == "partial_dict" else 1.0], [2.0]])
            seed = int(rng0.integers(0, 10**6))
            dt = 0.25
            u0 = rng0.uniform(0.5, 2, (2, 4))
            cases += 1
            try:
                eq = PDE(rhs, noise=noise, rng=np.random.default_rng(seed))
                state = FieldCollection([ScalarField(grid, u0[0]), ScalarField(grid, u0[1])])
                res = eq.solve(state, t_range=dt, dt=dt, solver="euler", backend="numpy", tracker=None)
            except Exception as e:
                fails.append({"id": "pde_class_per_field_variances", "rhs": rhs_kind, "noise": noise_kind, "error": f"{type(e).__name__}: {e}"})
                continue
            xi = np.random.default_rng(seed).standard_normal((2, 4))
            want = u0 + dt * np.array([0.5 + 0 * u0[0], -u0[0]]) + np.sqrt(var * dt / vol) * xi
            dev = float(np.max(np.abs(res.data - want)))
            if dev > 1e-10:
                fails.append({"id": "pde_class_per_field_variances", "rhs": rhs_kind, "noise": noise_kind, "seed": seed, "deviation": dev, "is_sde": bool(eq.is_sde)})
    return {"ok": True, "cases": cases, "failures": fails[:6]}


if __name__ == "__main__":
    print(json.dumps(run(json.loads(sys.stdin.read()))))
