"""Native bounded stand-in for C07 (float rounding of the step count is outside the real-arithmetic
model): eq.solve with read-only trackers of non-commensurate intervals; steps, t_final, final state and
the caller's initial state are checked."""

import json
import sys

import numpy as np

import pde
from pde.trackers.interrupts import GeometricInterrupts
from pde import DiffusionPDE, ScalarField, UnitGrid


class TimeDependent(pde.PDEBase):
    """du/dt = a*u + b*cos(3 t): the rate depends explicitly on time, so stale or shifted times show up in the state"""

    def __init__(self, a=-0.4, b=1.3):
        super().__init__()
        self.a, self.b = a, b

    def evolution_rate(self, state, t=0):
        return self.a * state + self.b * np.cos(3 * t)

    def make_evolution_rate(self, state, backend):
        a, b = self.a, self.b

        def rhs(arr, t):
            return a * arr + b * np.cos(3 * t)

        return rhs


def run(payload):
    rng = np.random.default_rng(payload.get("seed", 0))
    fails, cases = [], 0
    grid = UnitGrid([6], periodic=True)
    for k in range(payload.get("n", 40)):
        eq = DiffusionPDE(0.5) if (k // 6) % 2 == 0 else TimeDependent()
        dt = float(rng.choice([0.1, 0.01, 0.25, 0.3, 0.07, 1e-3, 0.125]))
        N = int(rng.integers(1, 60))
        t0 = float(rng.choice([0.0, 0.0, 1.0, 0.3, -2.0]))
        backend = "numpy" if k % 2 else "numba"
        solver = ["euler", "runge-kutta", "adams-bashforth"][k % 3]
        init = ScalarField(grid, rng.uniform(0, 1, 6))
        keep = init.data.copy()
        t1 = t0 + N * dt
        base, info0 = eq.solve(init, t_range=(t0, t1), dt=dt, tracker=None, backend=backend, solver=solver, ret_info=True)
        calls = []
        trackers = [pde.trackers.CallbackTracker(lambda s, t: calls.append(t), interrupts=float(rng.uniform(0.3, 3)) * dt),
                    pde.trackers.CallbackTracker(lambda s, t: None, interrupts=GeometricInterrupts(dt * 0.7, 1.7)),
                    pde.trackers.CallbackTracker(lambda s, t: None, interrupts=[t0 + 0.33 * dt, t0 + 2.5 * dt, t0 + 7.77 * dt])]
        res, info = eq.solve(init, t_range=(t0, t1), dt=dt, tracker=trackers, backend=backend, solver=solver, ret_info=True)
        cases += 1
        ok = (info["solver"]["steps"] == N and info0["solver"]["steps"] == N
              and abs(info["controller"]["t_final"] - t1) <= 1e-9 * max(1, abs(t1))
              and np.array_equal(init.data, keep)
              and np.allclose(res.data, base.data, rtol=1e-10, atol=1e-12)
              # bit identity is claimed for autonomous equations only (times differ by round-off between the two runs)
              and (solver == "adams-bashforth" or not isinstance(eq, DiffusionPDE) or np.array_equal(res.data, base.data)))
        if not ok:
            fails.append({"id": f"{solver}.{backend}", "equation": type(eq).__name__, "dt": dt, "N": N, "t_start": t0, "steps_with_trackers": info["solver"]["steps"],
                          "steps_without": info0["solver"]["steps"], "t_final": info["controller"]["t_final"], "t_end": t1,
                          "max_state_diff": float(np.max(np.abs(res.data - base.data))), "initial_modified": not np.array_equal(init.data, keep)})
    # ---- a stepper keeps the time step it was made for, also after the same solver object made another stepper
    from pde import DiffusionPDE as _Diff
    from pde.solvers import AdamsBashforthSolver, CrankNicolsonSolver, ExplicitSolver, ImplicitSolver
    for name, mk in (("euler", lambda b: ExplicitSolver(_Diff(), scheme="euler", backend=b)), ("runge-kutta", lambda b: ExplicitSolver(_Diff(), scheme="rk", backend=b)),
                     ("adams-bashforth", lambda b: AdamsBashforthSolver(_Diff(), backend=b)), ("implicit", lambda b: ImplicitSolver(_Diff(), backend=b)),
                     ("crank-nicolson", lambda b: CrankNicolsonSolver(_Diff(), backend=b))):
        for backend in ("numpy", "numba"):
            cases += 1
            try:
                st = ScalarField(UnitGrid([6], periodic=True), np.cos(np.arange(6.0)))
                solver = mk(backend)
                first = solver.make_stepper(st, dt=0.01)
                solver.make_stepper(st, dt=0.005)
                data = st.data.copy()
                t_ret = first(st, 0.0, 0.1) if backend == "numpy" else first(st, 0.0, 0.1)
                if abs(t_ret - 0.1) > 1e-9:
                    fails.append({"id": "stepper_steps_with_one_dt_and_counts_with_another", "solver": name, "backend": backend, "dt_of_this_stepper": 0.01, "dt_of_the_later_stepper": 0.005,
                                  "t_end": 0.1, "returned": float(t_ret)})
            except Exception as e:
                fails.append({"id": "two_steppers_error", "solver": name, "backend": backend, "error": f"{type(e).__name__}: {str(e)[:200]}"})
    # ---- complex-valued equation, initial state already complex: the run still works on a copy
    from pde import PDE
    for backend in ("numpy", "numba"):
        for dtype in (complex, float):
            cases += 1
            init = ScalarField(UnitGrid([6], periodic=True), np.cos(np.arange(6.0)), dtype=dtype)
            keep = init.data.copy()
            try:
                res = PDE({"c": "I * laplace(c)"}).solve(init, t_range=0.05, dt=0.01, backend=backend, solver="euler", tracker=None)
                if res is init or not np.array_equal(init.data, keep) or np.shares_memory(res.data, init.data):
                    fails.append({"id": "initial_state_of_a_complex_equation_modified", "backend": backend, "dtype": dtype.__name__, "result_is_the_initial_object": res is init,
                                  "initial_modified": not np.array_equal(init.data, keep)})
            except Exception as e:
                fails.append({"id": "complex_run_error", "backend": backend, "error": f"{type(e).__name__}: {e}"})
    return {"ok": True, "cases": cases, "failures": fails[:6]}


if __name__ == "__main__":
    print(json.dumps(run(json.loads(sys.stdin.read()))))
