"""Native driver (runs under /venv/bin/python with the real package): compares the real operators with
the specification of pdv/specs/operators.py on concrete grids.  Used for replaying counter-models of
C01 obligations and as the bounded stand-in (random grids / contents)."""

import itertools
import json
import sys

import numpy as np

sys.path.insert(0, "/verif")
from pdv.specs import operators as S  # noqa: E402

import pde  # noqa: E402
from pde import CartesianGrid, CylindricalSymGrid, PolarSymGrid, SphericalSymGrid  # noqa: E402


class Geom:
    pass


def make_grid(kind, dim, rng, hole=None):
    if kind == "cartesian":
        shape = [int(rng.integers(1, 5)) for _ in range(dim)]
        bounds = [(float(a), float(a + rng.uniform(0.3, 3))) for a in rng.uniform(-2, 2, dim)]
        return CartesianGrid(bounds, shape)
    r0 = float(rng.uniform(0.2, 2)) if (hole if hole is not None else rng.random() < 0.5) else 0.0
    r1 = r0 + float(rng.uniform(0.5, 3))
    n = int(rng.integers(1, 6))
    if kind == "polar":
        return PolarSymGrid((r0, r1), n)
    if kind == "spherical":
        return SphericalSymGrid((r0, r1), n)
    z0 = float(rng.uniform(-1, 1))
    return CylindricalSymGrid((r0, r1), (z0, z0 + float(rng.uniform(0.5, 2))), (n, int(rng.integers(1, 5))))


def check_operator(kind, dim, op, opts, grid, arr, backend="numba"):
    """returns max abs deviation between the real operator and the specification over all cells"""
    num_axes = grid.num_axes
    ncomp = grid.dim
    rank_in = {"laplace": 0, "gradient": 0, "gradient_squared": 0, "divergence": 1, "vector_gradient": 1,
               "vector_laplace": 1, "tensor_divergence": 2, "tensor_double_divergence": 2}[op]
    rank_out = {"laplace": 0, "gradient": 1, "gradient_squared": 0, "divergence": 0, "vector_gradient": 2,
                "vector_laplace": 1, "tensor_divergence": 1, "tensor_double_divergence": 0}[op]
    kw = dict(opts)
    kw.pop("safe", None)
    if "safe" in opts:
        kw["safe"] = False  # inputs are generic; the symmetry asserts are preconditions, not behaviour
    func = grid.make_operator_no_bc(op, backend=backend, **kw)
    out = np.full((ncomp,) * rank_out + grid.shape, np.nan)
    func(arr, out)
    g = Geom()
    g.num_axes = num_axes
    g.h = [float(d) for d in grid.discretization]
    if kind != "cartesian":
        r = grid.axes_coords[0]
        g.r = r.reshape((-1,) + (1,) * (num_axes - 1))
    valid = tuple(slice(1, -1) for _ in range(num_axes))

    def u(comp, off):
        sl = tuple(slice(1 + o, arr.shape[len(comp) + a] - 1 + o) for a, o in enumerate(off))
        return arr[tuple(comp) + sl]

    spec = S.operator_spec(kind, op, u, g, dim=dim, method=opts.get("method", "central"),
                           central=opts.get("central", True), conservative=opts.get("conservative", False))
    worst = 0.0
    where = None
    for c, val in spec.items():
        val = np.broadcast_to(val, grid.shape)
        dev = np.abs(out[tuple(c)] - val)
        scale = 1 + np.abs(val)
        rel = np.nanmax(np.where(np.isnan(dev), np.inf, dev / scale))
        if rel > worst:
            worst = float(rel)
            where = (list(c), [int(i) for i in np.unravel_index(np.argmax(np.where(np.isnan(dev), np.inf, dev / scale)), grid.shape)])
    return worst, where


def grid_from_instance(kind, inst):
    bounds = [(l, l + n * h) for l, n, h in zip(inst["lo"], inst["shape"], inst["h"])]
    if kind == "cartesian":
        return CartesianGrid(bounds, inst["shape"])
    if kind == "polar":
        return PolarSymGrid(bounds[0], inst["shape"][0])
    if kind == "spherical":
        return SphericalSymGrid(bounds[0], inst["shape"][0])
    return CylindricalSymGrid(bounds[0], bounds[1], inst["shape"])


def run(payload):
    rng = np.random.default_rng(payload.get("seed", 0))
    fails = []
    cases = 0
    if "instance" in payload:
        # replay of a solver counter-model: exactly this grid and padded array
        cfg, inst = payload["configs"][0], payload["instance"]
        kind, dim, op, opts = cfg["kind"], cfg.get("dim"), cfg["op"], cfg.get("opts", {})
        grid = grid_from_instance(kind, inst)
        arr = np.array(inst["arr"], dtype=float)
        try:
            worst, where = check_operator(kind, dim, op, opts, grid, arr)
        except Exception as e:
            return {"ok": True, "cases": 1, "failures": [], "instance_error": f"{type(e).__name__}: {e}"}
        if worst > 1e-9:
            fails.append({"id": f"{kind}{dim or ''}.{op}{opts}", "config": cfg, "grid": repr(grid), "rel_deviation": worst, "component_and_cell": where,
                          "arr": arr.tolist(), "from": "solver counter-model (small instance)"})
        return {"ok": True, "cases": 1, "failures": fails}
    for cfg in payload["configs"]:
        kind, dim, op, opts = cfg["kind"], cfg.get("dim"), cfg["op"], cfg.get("opts", {})
        for k in range(payload.get("grids_per_config", 3)):
            grid = make_grid(kind, dim, rng, hole=(k % 2 == 1) if kind != "cartesian" else None)
            rank_in = {"laplace": 0, "gradient": 0, "gradient_squared": 0, "divergence": 1, "vector_gradient": 1,
                       "vector_laplace": 1, "tensor_divergence": 2, "tensor_double_divergence": 2}[op]
            arr = rng.uniform(-2, 2, (grid.dim,) * rank_in + tuple(n + 2 for n in grid.shape))
            cases += 1
            try:
                worst, where = check_operator(kind, dim, op, opts, grid, arr)
            except Exception as e:
                fails.append({"id": f"{kind}{dim or ''}.{op}{opts}", "config": cfg, "grid": repr(grid), "error": f"{type(e).__name__}: {e}"})
                break
            if worst > 1e-9:
                fails.append({"id": f"{kind}{dim or ''}.{op}{opts}", "config": cfg, "grid": repr(grid), "rel_deviation": worst,
                              "component_and_cell": where, "arr": arr.tolist() if arr.size < 400 else "large"})
                break
    if payload.get("shifted_grids"):
        # the operator with boundary conditions as users get it (grid.make_operator) on two grids of one class that differ
        # only by a shift of their bounds: the 1/r terms must be those of the grid at hand
        from pde import ScalarField
        for ga, gb in ((SphericalSymGrid((1, 2), 8), SphericalSymGrid((2, 3), 8)), (PolarSymGrid((0.5, 2.5), 6), PolarSymGrid((1.5, 3.5), 6)),
                       (CylindricalSymGrid((1, 3), (0, 2), (4, 3)), CylindricalSymGrid((2, 4), (0, 2), (4, 3)))):
            kind = {SphericalSymGrid: "spherical", PolarSymGrid: "polar", CylindricalSymGrid: "cylindrical"}[type(ga)]
            for g in (ga, gb):
                cases += 1
                f = ScalarField(g, rng.uniform(-1, 1, g.shape))
                got = g.make_operator("laplace", "auto_periodic_neumann", backend="numba")(f.data)
                f.set_ghost_cells("auto_periodic_neumann")
                geom = Geom()
                geom.num_axes, geom.h = g.num_axes, [float(d) for d in g.discretization]
                geom.r = g.axes_coords[0].reshape((-1,) + (1,) * (g.num_axes - 1))
                valid = tuple(slice(1, -1) for _ in range(g.num_axes))

                def u(comp, off, full=f._data_full, g=g):
                    return full[tuple(slice(1 + o, 1 + o + n) for o, n in zip(off, g.shape))]

                want = S.operator_spec(kind, "laplace", u, geom, dim=None, conservative=(kind == "spherical"))[()]
                dev = float(np.max(np.abs(got - want)) / (1 + np.max(np.abs(want))))
                if dev > 1e-9:
                    fails.append({"id": f"{kind}.laplace_with_bc_on_shifted_grid", "grid": repr(g), "first_grid": repr(ga), "rel_deviation": dev})
    if payload.get("shifted_grids"):
        # integer-valued input: the operator acts as its stencil on ALL inputs (the result is not truncated to integers)
        from pde import CartesianGrid as _CG, ScalarField as _SF
        gi = _CG([[0, 16]], 8, periodic=True)
        vals = np.round(10 * np.sin(2 * np.pi * gi.axes_coords[0] / 16)).astype(int)
        cases += 1
        try:
            got = np.asarray(_SF(gi, vals, dtype=int).gradient("periodic").data[0], dtype=float)
            want = (np.roll(vals, -1) - np.roll(vals, 1)) / (2 * gi.discretization[0])
            if not np.allclose(got, want, atol=1e-12):
                fails.append({"id": "operator_result_of_an_integer_field_truncated", "grid": repr(gi), "data": vals.tolist(), "got": got.tolist(), "want": want.tolist()})
        except Exception as e:
            fails.append({"id": "integer_field_error", "error": f"{type(e).__name__}: {e}"})
    return {"ok": True, "cases": cases, "failures": fails}


if __name__ == "__main__":
    payload = json.loads(sys.stdin.read())
    print(json.dumps(run(payload)))
