"""Native bounded stand-in for C15."""

import json
import sys

import numpy as np

import pde
from pde import CartesianGrid, CylindricalSymGrid, FieldCollection, MemoryStorage, PolarSymGrid, ScalarField, Tensor2Field, UnitGrid, VectorField


def run(payload):
    rng = np.random.default_rng(payload.get("seed", 0))
    fails, cases = [], 0

    def fail(kind, **kw):
        if len(fails) < 40 and not any(f["id"] == kind and f.get("how") == kw.get("how") and f.get("cls") == kw.get("cls") for f in fails):
            fails.append({"id": kind, **kw})

    sm = np.shares_memory
    for rep in range(payload.get("n", 2)):
        for grid in (UnitGrid([3, 2]), CartesianGrid([(0, 1)], [4], periodic=True), PolarSymGrid(2, 3), CylindricalSymGrid(1, (0, 2), (2, 3))):
            for dtype in (float, complex):
                cases += 1
                s = ScalarField(grid, rng.uniform(-1, 1, grid.shape), dtype=dtype)
                v = VectorField(grid, rng.uniform(-1, 1, (grid.dim,) + grid.shape), dtype=dtype)
                t = Tensor2Field(grid, rng.uniform(-1, 1, (grid.dim, grid.dim) + grid.shape), dtype=dtype)
                tag = dict(grid=repr(grid), dtype=str(dtype))
                for f in (s, v, t):
                    if not sm(f.data, f._data_full):
                        fail("data_is_view_of_padded", cls=type(f).__name__, **tag)
                    f.data[...] = 2; 
                    valid = (...,) + tuple(slice(1, -1) for _ in range(grid.num_axes))
                    if not np.all(f._data_full[valid] == 2):
                        fail("data_write_through", cls=type(f).__name__, **tag)
                    f.data[...] = rng.uniform(-1, 1, f.data.shape)
                # collection aliasing and layout
                fc = FieldCollection([s, v, t])
                offs = 0
                for k, f in enumerate(fc):
                    n = grid.dim ** f.rank
                    if not sm(f.data, fc.data) or not np.array_equal(fc.data[offs:offs + n].reshape(f.data.shape), f.data):
                        fail("collection_member_alias_layout", member=k, **tag)
                    offs += n
                fc[1].data[0, ...] = 7.0
                if not np.all(fc.data[1] == 7.0):
                    fail("write_through_member_not_seen_in_collection", **tag)
                if grid.dim >= 2:
                    fc.data[1 + grid.dim + 1] = 5.0  # tensor component (0, 1): row-major
                    if not np.all(fc[2].data[0, 1] == 5.0) or not np.all(fc[2][0, 1].data == 5.0):
                        fail("collection_write_not_seen_in_tensor_component_row_major", **tag)
                # component views
                c = v[0]
                c.data[...] = 3.0
                if not np.all(v.data[0] == 3.0) or not sm(c.data, v.data):
                    fail("vector_component_view", **tag)
                c2 = t[grid.dim - 1, 0]
                c2.data[...] = 4.0
                if not np.all(t.data[grid.dim - 1, 0] == 4.0):
                    fail("tensor_component_view", **tag)
                # copies never alias
                for name, make in {"copy": lambda f: f.copy(), "neg": lambda f: -f, "add": lambda f: f + 1, "add_field": lambda f: f + f, "mul": lambda f: 2 * f,
                                   "real": lambda f: f.real, "imag": lambda f: f.imag, "conjugate": lambda f: f.conjugate(), "pow": lambda f: f ** 2}.items():
                    for f in (s, v, t):
                        before = f._data_full.copy()
                        g = make(f)
                        if sm(g._data_full, f._data_full):
                            fail("result_aliases_source", op=name, cls=type(f).__name__, **tag)
                        if not np.array_equal(before, f._data_full, equal_nan=True):
                            fail("operation_changed_operand", op=name, cls=type(f).__name__, **tag)
                for name, g in {"laplace": s.laplace("auto_periodic_neumann"), "gradient": s.gradient("auto_periodic_neumann"), "to_scalar": v.to_scalar(),
                                "dot": v @ v, "transpose": t.transpose(), "symmetrize": t.symmetrize(), "slice_collection": fc[0:2], "collection_copy": fc.copy()}.items():
                    for f in (s, v, t, fc):
                        if sm(g._data_full, f._data_full):
                            fail("result_aliases_source", op=name, cls=type(f).__name__, **tag)
                fc2 = fc.copy(); fc3 = fc2.append(s.copy()) if hasattr(fc2, "append") else None
                # every way of obtaining a collection: its members are views of its data (write through a member is
                # seen in the collection and vice versa); the sources are left alone
                import copy as _copy, pickle as _pickle
                makers = {"copy_fields=True": lambda: FieldCollection([s, v, t], copy_fields=True), "slice": lambda: fc[0:3], "copy()": lambda: fc.copy(),
                          "append": lambda: fc[0:2].append(t.copy()), "append_collection": lambda: fc[0:2].append(fc), "duplicate_members": lambda: FieldCollection([s, v, t, s]),
                          "deepcopy": lambda: _copy.deepcopy(fc), "pickle": lambda: _pickle.loads(_pickle.dumps(fc))}
                for how, make in makers.items():
                    src_before = fc.data.copy()
                    try:
                        c = make()
                    except Exception as e:
                        fail("error", where=f"collection via {how}", error=f"{type(e).__name__}: {e}", **tag)
                        continue
                    if not sm(c.data, c._data_full):
                        fail("data_is_view_of_padded", cls=f"FieldCollection via {how}", **tag)
                    c[1].data[0, ...] = 21.0
                    c[0] = 22.0
                    if not np.all(c.data[1] == 21.0) or not np.all(c.data[0] == 22.0):
                        fail("write_through_member_not_seen_in_collection", how=how, **tag)
                    c.data[1] = 23.0
                    if not np.all(c[1].data[0] == 23.0):
                        fail("write_to_collection_not_seen_in_member", how=how, **tag)
                    if sm(c.data, fc.data) or not np.array_equal(fc.data, src_before) or any(sm(m.data, c.data) for m in fc):
                        fail("result_aliases_source", op=f"collection via {how}", cls="FieldCollection", **tag)
                    if not all(sm(m.data, fc.data) for m in fc):
                        fail("source_collection_lost_its_members", how=how, **tag)
                # assigning a field to a component changes the valid cells of that component only, never ghost cells
                vv = VectorField(grid, rng.uniform(-1, 1, (grid.dim,) + grid.shape), dtype=dtype)
                vv._data_full[...] = rng.uniform(-1, 1, vv._data_full.shape)
                src = ScalarField(grid, rng.uniform(-1, 1, grid.shape), dtype=dtype)
                src._data_full[...] = rng.uniform(2, 3, src._data_full.shape)
                before = vv._data_full.copy()
                vv[0] = src
                gm = np.ones(vv._data_full.shape, bool); gm[(...,) + tuple(slice(1, -1) for _ in range(grid.num_axes))] = False
                if not np.array_equal(vv._data_full[gm], before[gm]) or not np.array_equal(vv.data[0], src.data) or not np.array_equal(vv.data[1:], before[(slice(1, None),) + tuple(slice(1, -1) for _ in range(grid.num_axes))]):
                    fail("component_assignment_touches_ghost_cells_or_other_components", **tag)
                # pickled / deep-copied fields: data stays a live view of the padded array; no aliasing with the source
                for f in (s, v, t):
                    for how, make in (("deepcopy", _copy.deepcopy), ("pickle", lambda x: _pickle.loads(_pickle.dumps(x)))):
                        c = make(f)
                        c.data[...] = 31.0
                        if not sm(c.data, c._data_full) or not np.all(c._data_full[valid] == 31.0):
                            fail("data_is_view_of_padded", cls=f"{type(f).__name__} via {how}", **tag)
                        if sm(c._data_full, f._data_full) or np.any(f.data == 31.0):
                            fail("result_aliases_source", op=how, cls=type(f).__name__, **tag)
                # in-place operations: only valid cells, not ghost cells, not other fields
                for f in (s, v, t):
                    f._data_full[...] = rng.uniform(-1, 1, f._data_full.shape)
                    other = f.copy()
                    ghost_mask = np.ones(f._data_full.shape, bool); ghost_mask[valid] = False
                    before = f._data_full.copy(); ob = other._data_full.copy()
                    f += 1; f *= 2; f -= other
                    if not np.array_equal(f._data_full[ghost_mask], before[ghost_mask]) or not np.array_equal(other._data_full, ob):
                        fail("inplace_touched_ghost_cells_or_other_field", cls=type(f).__name__, **tag)
                    if not np.allclose(f.data, (before[valid] + 1) * 2 - ob[valid]):
                        fail("inplace_wrong_values", cls=type(f).__name__, **tag)
                # in-place transpose of a tensor that is a member of a collection
                t2 = Tensor2Field(grid, rng.uniform(-1, 1, (grid.dim, grid.dim) + grid.shape), dtype=dtype)
                col = FieldCollection([s.copy(), t2])
                ghosts_before = t2._data_full.copy()
                want = np.swapaxes(t2.data.copy(), 0, 1)
                t2.transpose(inplace=True) if "inplace" in t2.transpose.__code__.co_varnames else None
                if "inplace" in t2.transpose.__code__.co_varnames:
                    if not np.allclose(t2.data, want) or not sm(t2.data, col.data) or not np.allclose(col.data[1:].reshape(t2.data.shape), want):
                        fail("inplace_transpose_breaks_collection_layout", **tag)
                    t2[0, grid.dim - 1] = 9.0
                    if grid.dim > 1 and not np.all(col.data[1 + grid.dim - 1] == 9.0):
                        fail("inplace_transpose_then_component_write_lands_elsewhere", **tag)
                # storages
                st = MemoryStorage()
                st.start_writing(s); st.append(s, 0); back = st[0]
                if sm(back.data, st.data[0]) or sm(st.data[0], s.data):
                    fail("storage_aliasing", **tag)
    # ---- the list handed to the constructor stays the caller's: appending to it later does not add a member without rows
    from pde import UnitGrid as _UG0
    g0 = _UG0([3])
    lst = [ScalarField(g0, 1.0), ScalarField(g0, 2.0)]
    fc0 = FieldCollection(lst)
    lst.append(ScalarField(g0, 3.0))
    cases += 1
    if len(fc0) != 2 or len(fc0.data) != 2:
        fail("collection_grows_with_the_caller's_list", members=len(fc0), rows=int(len(fc0.data)))
    # ---- assignment through a label that several members carry (e.g. after fc.append(fc)): only the first one is written
    from pde import UnitGrid as _UG
    g = _UG([3])
    fc = FieldCollection([ScalarField(g, 1.0, label="u"), ScalarField(g, 2.0, label="v")])
    fc = fc.append(fc)
    cases += 1
    fc["u"] = 7.0
    rows = [float(r[0]) for r in fc.data]
    if rows != [7.0, 2.0, 1.0, 2.0]:
        fail("assignment_by_label_writes_other_members", rows=rows, want=[7.0, 2.0, 1.0, 2.0])
    return {"ok": True, "cases": cases, "failures": fails}


if __name__ == "__main__":
    print(json.dumps(run(json.loads(sys.stdin.read()))))
