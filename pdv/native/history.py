"""Native bounded stand-in for C04: a probe request after a random history vs the same probe in a fresh
interpreter (subprocess)."""

import json
import os
import subprocess
import sys

PROBES = [
    ("op_derivative", "g=UnitGrid([8]); x=np.arange(8.)**2; print(json.dumps(g.make_operator('laplace','derivative',backend='numba')(x).tolist()))"),
    ("op_value_2d", "g=CartesianGrid([(0,1),(0,2)],[3,4]); x=np.arange(12.).reshape(3,4)**1.5; print(json.dumps(g.make_operator('gradient',{'x':{'value':0},'y':{'derivative':0}},backend='numba')(x).tolist()))"),
    ("interp_after_relink", "f=ScalarField(UnitGrid([4]),[1,2,3,4]); f.interpolate([1.5]); FieldCollection([f]); f.data=[10,20,30,40]; print(json.dumps(float(f.interpolate([1.5]))))"),
    ("pde_rate", "eq=PDE({'u':'laplace(u)+v','v':'laplace(v)-u'},bc_ops={'u:laplace':{'value':0},'v:laplace':{'derivative':0}}); g=UnitGrid([6]); s=FieldCollection([ScalarField(g,np.arange(6.)**2),ScalarField(g,np.arange(6.))]); print(json.dumps(eq.evolution_rate(s).data.tolist()))"),
    ("pde_other_grid", "eq=PDE({'u':'laplace(u)+v','v':'laplace(v)-u'}); g=CartesianGrid([(0,3)],[6]); s=FieldCollection([ScalarField(g,np.arange(6.)**2),ScalarField(g,np.arange(6.))]); print(json.dumps(eq.make_pde_rhs(s,backend='numpy')(s.data,0).tolist()))"),
    ("cahn_hilliard", "eq=CahnHilliardPDE(bc_c={'value':0},bc_mu={'derivative':0}); g=UnitGrid([6]); s=ScalarField(g,np.sin(np.arange(6.))); print(json.dumps(eq.make_pde_rhs(s,backend='numba')(s.data,0).tolist()))"),
]
HISTORY = [
    "g=UnitGrid([8]); g.make_operator('laplace','value',backend='numba')(np.arange(8.))",
    "g=UnitGrid([8]); g.make_operator('laplace',{'curvature':0},backend='numba')(np.arange(8.))",
    "g=CartesianGrid([(0,1),(0,2)],[3,4]); g.make_operator('gradient',{'x':{'derivative':0},'y':{'value':0}},backend='numba')(np.ones((3,4)))",
    "f=ScalarField(UnitGrid([4]),[4,3,2,1]); f.interpolate([2.5]); FieldCollection([f,f.copy()])",
    "eq=PDE({'u':'laplace(u)+v','v':'laplace(v)-u'}); g=UnitGrid([6]); s=FieldCollection([ScalarField(g,1.),ScalarField(g,2.)]); eq.evolution_rate(s); eq.make_pde_rhs(s,backend='numpy')(s.data,0)",
    "eq=CahnHilliardPDE(bc_c={'derivative':0},bc_mu={'value':0}); g=UnitGrid([6]); s=ScalarField(g,1.); eq.make_pde_rhs(s,backend='numba')(s.data,0)",
    "DiffusionPDE(bc={'value':0}).solve(ScalarField(UnitGrid([8]),1.),t_range=0.01,dt=0.001,tracker=None)",
]
PRE = "import json,numpy as np\nfrom pde import *\n"


def run_script(body):
    p = subprocess.run([sys.executable, "-c", PRE + body], capture_output=True, text=True, cwd=os.getcwd(), timeout=900)
    lines = [l for l in p.stdout.strip().splitlines() if l]
    if p.returncode != 0 or not lines:
        return None, p.stderr[-600:]
    return json.loads(lines[-1]), None


def run(payload):
    import random

    rnd = random.Random(payload.get("seed", 0))
    fails, cases = [], 0
    fresh = {}
    for name, probe in PROBES:
        fresh[name], err = run_script(probe)
        if err:
            fails.append({"id": "probe_error", "probe": name, "error": err})
    for k in range(payload.get("n", 4)):
        hist = [rnd.choice(HISTORY) for _ in range(rnd.randint(2, 6))]
        probes = rnd.sample(PROBES, 3)
        body = "\n".join(hist) + "\n" + "\n".join(f"print('@@{n}'); {p}" for n, p in probes)
        p = subprocess.run([sys.executable, "-c", PRE + body], capture_output=True, text=True, cwd=os.getcwd(), timeout=1800)
        cases += 1
        if p.returncode != 0:
            fails.append({"id": "history_error", "history": hist, "error": p.stderr[-600:]})
            continue
        out = p.stdout.split("@@")[1:]
        for chunk in out:
            name, _, rest = chunk.partition("\n")
            got = json.loads(rest.strip().splitlines()[-1])
            import numpy as np
            if fresh.get(name) is not None and not np.allclose(np.array(got, dtype=float), np.array(fresh[name], dtype=float), rtol=1e-10, atol=1e-12):
                fails.append({"id": f"history_dependence.{name}", "history": hist, "after_history": got, "fresh_interpreter": fresh[name]})
    # ---- reuse of one object / one user dictionary across requests vs fresh objects (in-process)
    import numpy as np
    from pde import PDE, CartesianGrid, FieldCollection, ScalarField, UnitGrid

    def state(grid):
        return FieldCollection([ScalarField(grid, np.arange(6.0) ** 2), ScalarField(grid, np.cos(np.arange(6.0)))])

    rhs = {"u": "laplace(u) + v", "v": "laplace(v) - u"}
    grids = [UnitGrid([6]), CartesianGrid([(0, 3)], [6]), UnitGrid([6], periodic=True), CartesianGrid([(0, 0.6)], [6])]
    for backend in ("numpy", "numba"):
        shared = PDE(rhs)
        for g in [rnd.choice(grids) for _ in range(4)]:
            cases += 1
            s = state(g)
            got = shared.make_pde_rhs(s, backend=backend)(s.data, 0.0)
            want = PDE(rhs).make_pde_rhs(s, backend=backend)(s.data, 0.0)
            got2 = shared.evolution_rate(s).data
            if not np.allclose(got, want, rtol=1e-10) or not np.allclose(got2, want, rtol=1e-10):
                fails.append({"id": "reused_pde_on_other_grid", "backend": backend, "grid": repr(g), "max_dev": float(np.max(np.abs(got - want)))})
    funcs = {}
    for bc in ({"value": 0}, {"derivative": 0}, {"value": 1}):
        for backend in ("numpy", "numba"):
            cases += 1
            g = UnitGrid([6])
            s = ScalarField(g, np.arange(6.0) ** 2)
            got = PDE({"c": "laplace(c)"}, bc=bc, user_funcs=funcs).make_pde_rhs(s, backend=backend)(s.data, 0.0)
            want = s.laplace(bc).data
            if not np.allclose(got, want, rtol=1e-10):
                fails.append({"id": "shared_user_funcs", "bc": bc, "backend": backend, "max_dev": float(np.max(np.abs(got - want)))})
    # ---- the same request on two grids of one class that differ only by a shift of their bounds
    from pde import CylindricalSymGrid, PolarSymGrid, SphericalSymGrid
    pairs = [(SphericalSymGrid((1, 2), 8), SphericalSymGrid((2, 3), 8)), (PolarSymGrid((0.5, 2.5), 6), PolarSymGrid((1.5, 3.5), 6)),
             (CylindricalSymGrid((1, 3), (0, 2), (4, 3)), CylindricalSymGrid((2, 4), (0, 2), (4, 3))),
             (CartesianGrid([(0, 2)], 8), CartesianGrid([(3, 5)], 8)),
             # bounds -1 and -2: numbers the builtin hash() maps to the same value
             (CartesianGrid([(-1, 1)], 8), CartesianGrid([(-2, 1)], 8)), (CylindricalSymGrid(2, (-1, 1), (4, 4)), CylindricalSymGrid(2, (-2, 1), (4, 4)))]
    for ga, gb in pairs:
        bc = {"x-": {"value_expression": "x**2"}, "x+": {"derivative": 0}} if (isinstance(ga, CartesianGrid) and ga.axes_bounds[0][0] >= 0) else "auto_periodic_neumann"
        for backend in ("numba",):
            cases += 1
            try:
                outs = []
                for g in (ga, gb):
                    f = ScalarField(g, np.cos(np.arange(np.prod(g.shape), dtype=float)).reshape(g.shape))
                    outs.append((g.make_operator("laplace", bc, backend=backend)(f.data), f.laplace(bc, backend=backend).data))
            except Exception as e:
                fails.append({"id": "history_error", "where": "shifted grids", "error": f"{type(e).__name__}: {e}"})
                continue
            got, want = outs[1]
            if not np.allclose(got, want, rtol=1e-9, atol=1e-11):
                fails.append({"id": "operator_of_an_earlier_grid_reused", "grids": [repr(ga), repr(gb)], "backend": backend, "max_dev": float(np.max(np.abs(got - want)))})
    # ---- conditions obtained by name are customised in place; later requests by the same name are unaffected
    g = UnitGrid([6])
    f = ScalarField(g, np.arange(6.0) ** 2)
    for name in ("auto_periodic_neumann", "auto_periodic_dirichlet"):
        cases += 1
        try:
            want = f.laplace(name).data.copy()
            bcs = g.get_boundary_conditions(name)
            bcs[0] = {"value": 3.0}
            bcs2 = g.get_boundary_conditions(name)
            got = f.laplace(name).data
            if not np.allclose(got, want) or bcs2 is bcs:
                fails.append({"id": "customised_conditions_leak_into_later_requests", "name": name, "max_dev": float(np.max(np.abs(got - want)))})
        except Exception as e:
            fails.append({"id": "history_error", "where": "customised named conditions", "error": f"{type(e).__name__}: {e}"})
    # ---- dictionaries the caller passes (constants of expressions, boundary conditions) are the caller's: an earlier
    #      request must not leave anything in them that changes a later request
    import pde as _pde
    from pde import VectorField
    ga_, gb_ = CartesianGrid([[0, 4]], 4), CartesianGrid([[10, 14]], 4)
    for cls_, expr in ((ScalarField, "a * cartesian[0]"), (VectorField, ["a * cartesian[0]"])):
        cases += 1
        try:
            fresh = cls_.from_expression(gb_, expr, consts={"a": 2.0}).data
            shared = {"a": 2.0}
            cls_.from_expression(ga_, expr, consts=shared)
            after = cls_.from_expression(gb_, expr, consts=shared).data
            if not np.allclose(fresh, after) or sorted(shared) != ["a"]:
                fails.append({"id": "caller's_consts_dictionary_modified_by_an_earlier_request", "class": cls_.__name__, "keys_afterwards": sorted(shared), "max_dev": float(np.max(np.abs(fresh - after)))})
        except Exception as e:
            fails.append({"id": "history_error", "where": "shared consts", "error": f"{type(e).__name__}: {e}"})

    class _DirichletDiffusion(_pde.DiffusionPDE):
        default_bc = "value"

    g3 = UnitGrid([3, 3])
    st3 = ScalarField(g3, np.arange(1.0, 10.0).reshape(3, 3))
    cases += 1
    try:
        fresh = _DirichletDiffusion(bc={"x": {"value": 1}}).evolution_rate(st3).data
        bc_shared = {"x": {"value": 1}}
        _pde.DiffusionPDE(bc=bc_shared)
        after = _DirichletDiffusion(bc=bc_shared).evolution_rate(st3).data
        if not np.allclose(fresh, after) or sorted(bc_shared) != ["x"]:
            fails.append({"id": "caller's_bc_dictionary_modified_by_an_earlier_request", "keys_afterwards": sorted(bc_shared), "max_dev": float(np.max(np.abs(fresh - after)))})
    except Exception as e:
        fails.append({"id": "history_error", "where": "shared bc dict", "error": f"{type(e).__name__}: {e}"})
    # ---- a solver object that has been used for one simulation is used for another one: same result as a new solver
    from pde import Controller, DiffusionPDE
    from pde.solvers import AdamsBashforthSolver, CrankNicolsonSolver, ExplicitSolver, ImplicitSolver, ScipySolver
    gs = UnitGrid([8])
    first_state = ScalarField(gs, 10 * np.cos(np.arange(8.0)))
    second_state = ScalarField(gs, np.sin(np.arange(8.0)) ** 2)
    makers = [("euler", lambda eq, b: ExplicitSolver(eq, scheme="euler", backend=b)), ("rk", lambda eq, b: ExplicitSolver(eq, scheme="rk", backend=b)),
              ("euler-adaptive", lambda eq, b: ExplicitSolver(eq, scheme="euler", adaptive=True, backend=b)),
              ("rk-adaptive", lambda eq, b: ExplicitSolver(eq, scheme="rk", adaptive=True, tolerance=1e-5, backend=b)),
              ("implicit", lambda eq, b: ImplicitSolver(eq, backend=b)), ("crank-nicolson", lambda eq, b: CrankNicolsonSolver(eq, backend=b)),
              ("adams-bashforth", lambda eq, b: AdamsBashforthSolver(eq, backend=b)), ("scipy", lambda eq, b: ScipySolver(eq, backend=b))]
    for name, mk in makers:
        for backend in (("numpy", "numba") if name in ("euler-adaptive", "rk-adaptive") else ("numpy",)):
            for dt in ((None,) if name == "scipy" else (None, 1e-3)):
                cases += 1
                try:
                    kw = {} if dt is None else {"dt": dt}
                    eq = DiffusionPDE(0.7)
                    used = mk(eq, backend)
                    Controller(used, t_range=0.7, tracker=None).run(first_state, **kw)
                    got = Controller(used, t_range=0.25, tracker=None).run(second_state, **kw).data
                    want = Controller(mk(DiffusionPDE(0.7), backend), t_range=0.25, tracker=None).run(second_state, **kw).data
                    if not np.array_equal(got, want):
                        fails.append({"id": "second_run_of_a_solver_object_differs_from_a_new_solver", "solver": name, "backend": backend, "dt": dt, "max_dev": float(np.max(np.abs(got - want)))})
                except Exception as e:
                    fails.append({"id": "history_error", "where": f"reused solver {name}", "error": f"{type(e).__name__}: {e}"})
    # ---- a conditions object is changed through its public interface between two requests for the same operator
    gm = UnitGrid([6])
    xm = np.arange(6.0) ** 2
    for change in ("value_setter", "replace_side", "replace_axis"):
        cases += 1
        try:
            bcs = gm.get_boundary_conditions({"x-": {"value": 1.0}, "x+": {"value": 1.0}})
            gm.make_operator("laplace", bcs, backend="numba")(xm)
            if change == "value_setter":
                bcs[0].high.value = 2.0
            elif change == "replace_side":
                bcs["x+"] = {"value": 2.0}
            else:
                bcs["x"] = ({"value": 1.0}, {"value": 2.0})
            got = gm.make_operator("laplace", bcs, backend="numba")(xm)
            want = (np.concatenate([[2 * 1.0 - xm[0]], xm, [2 * 2.0 - xm[-1]]])[2:] - 2 * xm + np.concatenate([[2 * 1.0 - xm[0]], xm])[:-1])
            if not np.allclose(got, want, rtol=1e-12):
                fails.append({"id": "operator_compiled_for_the_earlier_conditions_reused", "change": change, "max_dev": float(np.max(np.abs(got - want)))})
        except Exception as e:
            fails.append({"id": "history_error", "where": f"mutated conditions ({change})", "error": f"{type(e).__name__}: {e}"})
    # ---- one field, requests that differ in a single numeric argument (small integers and their negatives)
    g = UnitGrid([4])
    for a, b in ((-1, -2), (-2, -1), (0, -1), (1, 2), (-1.0, -2.0), (2, -2)):
        f = ScalarField(g, [1.0, 2.0, 3.0, 4.0])
        cases += 1
        first = float(f.interpolate([10.0], fill=a))
        second = float(f.interpolate([10.0], fill=b))
        if first != a or second != b:
            fails.append({"id": "numeric_argument_ignored_after_earlier_request", "call": f"interpolate([10.], fill={a!r}) then fill={b!r}", "got": [first, second], "want": [a, b]})
    seen, first = set(), []
    for f_ in fails:
        if f_["id"] not in seen:
            seen.add(f_["id"]); first.append(f_)
    return {"ok": True, "cases": cases, "failures": (first + [f_ for f_ in fails if f_ not in first])[:8]}


if __name__ == "__main__":
    print(json.dumps(run(json.loads(sys.stdin.read()))))
