"""Native bounded stand-in for C16."""

import json
import sys

import numpy as np

import pde
from pde import CartesianGrid, CylindricalSymGrid, PolarSymGrid, ScalarField, SphericalSymGrid, UnitGrid
from pde.backends import get_backend


def grids(rng):
    d = int(rng.integers(1, 4))
    shape = [int(rng.integers(2, 6)) for _ in range(d)]
    per = [bool(rng.integers(0, 2)) for _ in range(d)]
    out = [CartesianGrid([(float(a), float(a + rng.uniform(0.5, 3))) for a in rng.uniform(-2, 2, d)], shape, periodic=per)]
    hole = bool(rng.integers(0, 2))
    r0 = float(rng.uniform(0.3, 2)) if hole else 0.0
    rad = (r0, r0 + float(rng.uniform(0.8, 3)))
    out.append([PolarSymGrid, SphericalSymGrid][int(rng.integers(0, 2))](rad, int(rng.integers(2, 7))))
    out.append(CylindricalSymGrid(rad, (0, float(rng.uniform(0.5, 2))), (int(rng.integers(2, 6)), int(rng.integers(2, 5))), periodic_z=bool(rng.integers(0, 2))))
    return out


def run(payload):
    rng = np.random.default_rng(payload.get("seed", 0))
    fails, cases = [], 0
    for _ in range(payload.get("n", 8)):
        for grid in grids(rng):
            f = ScalarField(grid, rng.uniform(-1, 1, grid.shape))
            # cell centres
            pts = grid.cell_coords.reshape(-1, grid.num_axes)
            vals = f.interpolate(pts)
            cases += 1
            if not np.allclose(vals, f.data.ravel(), atol=1e-12):
                fails.append({"id": "centre_values", "grid": repr(grid)})
            # affine field, interior points (bulk), non-periodic axes only vary
            coef = rng.uniform(-1, 1, grid.num_axes)
            coef = np.where(grid.periodic, 0, coef)
            aff = ScalarField(grid, 0.3 + np.tensordot(grid.cell_coords, coef, axes=(-1, 0)))
            lo = np.array([b[0] for b in grid.axes_bounds]) + grid.discretization / 2
            hi = np.array([b[1] for b in grid.axes_bounds]) - grid.discretization / 2
            p = rng.uniform(lo, hi, (6, grid.num_axes)) if np.all(hi > lo) else None
            if p is not None:
                got = aff.interpolate(p)
                want = 0.3 + p @ coef
                cases += 1
                if not np.allclose(got, want, atol=1e-10):
                    fails.append({"id": "affine_exactness", "grid": repr(grid), "points": p.tolist(), "got": got.tolist(), "want": want.tolist()})
                got = f.interpolate(p)
                if np.any(got > f.data.max() + 1e-12) or np.any(got < f.data.min() - 1e-12):
                    fails.append({"id": "range", "grid": repr(grid)})
            # outside
            out_pt = np.array([b[1] for b in grid.axes_bounds]) + 3 * grid.discretization
            if not any(grid.periodic):
                try:
                    v = f.interpolate(out_pt, fill=7.5)
                    if v != 7.5:
                        fails.append({"id": "fill", "grid": repr(grid), "value": float(v)})
                except Exception as e:
                    fails.append({"id": "fill_error", "grid": repr(grid), "error": str(e)})
            # interpolation with boundary conditions: a constant field with the matching Dirichlet value stays constant
            # everywhere in the domain, also next to corners, whatever the ghost cells held before
            if not any(grid.periodic) and type(grid).__name__ in ("CartesianGrid", "UnitGrid"):
                cst = float(rng.uniform(1, 3))
                fc_ = ScalarField(grid, cst)
                fc_._data_full[...] = rng.uniform(-5, 5, fc_._data_full.shape)
                fc_.data = cst
                lo_ = np.array([b[0] for b in grid.axes_bounds]); hi_ = np.array([b[1] for b in grid.axes_bounds])
                for frac in (0.02, 0.3, 0.98):
                    pt_ = lo_ + frac * 0.5 * grid.discretization if frac < 0.5 else hi_ - (1 - frac) * 0.5 * grid.discretization
                    cases += 1
                    try:
                        val = float(fc_.interpolate(pt_, bc={"value": cst}))
                    except Exception as e:
                        fails.append({"id": "interpolate_bc_error", "grid": repr(grid), "error": f"{type(e).__name__}: {e}"})
                        continue
                    if abs(val - cst) > 1e-9:
                        fails.append({"id": "interpolate_with_bc_not_constant_near_corner", "grid": repr(grid), "point": pt_.tolist(), "value": val, "constant": cst})
            # points given in cell coordinates (centre of cell i at i + 1/2, GridBase.transform): centres return the cell value
            from pde.backends.numba.grids import make_single_interpolator
            try:
                interp_cell = make_single_interpolator(grid, cell_coords=True)
                for _k in range(2):
                    idx = tuple(int(rng.integers(0, n)) for n in grid.shape)
                    cases += 1
                    got = float(interp_cell(f.data, np.array(idx, dtype=float) + 0.5))
                    if abs(got - f.data[idx]) > 1e-9:
                        fails.append({"id": "cell_coordinates_centre_value", "grid": repr(grid), "cell": list(idx), "got": got, "want": float(f.data[idx])})
            except Exception as e:
                fails.append({"id": "cell_coordinates_error", "grid": repr(grid), "error": f"{type(e).__name__}: {e}"})
            # insertion
            blo = np.array([b[0] for b in grid.axes_bounds])
            bhi = np.array([b[1] for b in grid.axes_bounds])
            for _k in range(3):
                pt = rng.uniform(blo + 1e-3 * (bhi - blo), bhi - 1e-3 * (bhi - blo))
                amount = float(rng.uniform(0.5, 3))
                g1 = ScalarField(grid, 0.0)
                g1.insert(pt, amount)
                cases += 1
                if abs(g1.integral - amount) > 1e-9 * amount:
                    fails.append({"id": "insert_interpreted", "grid": repr(grid), "point": pt.tolist(), "amount": amount, "integral": float(g1.integral)})
                g2 = ScalarField(grid, 0.0)
                ins = get_backend("numba").make_inserter(grid)
                ins(g2.data, pt, amount)
                if abs(g2.integral - amount) > 1e-9 * amount or not np.allclose(g1.data, g2.data, atol=1e-10):
                    fails.append({"id": "insert_compiled", "grid": repr(grid), "point": pt.tolist(), "amount": amount, "integral": float(g2.integral),
                                  "max_diff_to_interpreted": float(np.max(np.abs(g1.data - g2.data)))})
                # points clearly outside along a non-periodic axis: interpreted and compiled inserter agree (both refuse)
                if not all(grid.periodic):
                    ax_ = [a for a in range(grid.num_axes) if not grid.periodic[a]][0]
                    pout = pt.copy(); pout[ax_] = bhi[ax_] + 0.3 * grid.discretization[ax_]
                    outcomes = []
                    for how in ("interpreted", "compiled"):
                        g5 = ScalarField(grid, 0.0)
                        try:
                            g5.insert(pout, amount) if how == "interpreted" else get_backend("numba").make_inserter(grid)(g5.data, pout, amount)
                            outcomes.append("accepted")
                        except Exception as e:
                            outcomes.append(type(e).__name__)
                    cases += 1
                    if outcomes[0] != outcomes[1]:
                        fails.append({"id": "insert_outside_the_domain_interpreted_vs_compiled", "grid": repr(grid), "point": pout.tolist(), "interpreted": outcomes[0], "compiled": outcomes[1]})
                # the same inserter on the padded array, at a point whose support cells are all valid cells
                pin = rng.uniform(blo + 0.5 * grid.discretization, bhi - 0.5 * grid.discretization) if all(n >= 2 for n in grid.shape) else None
                if pin is not None:
                    g3 = ScalarField(grid, 0.0)
                    get_backend("numba").make_inserter(grid, with_ghost_cells=True)(g3._data_full, pin, amount)
                    g4 = ScalarField(grid, 0.0)
                    g4.insert(pin, amount)
                    cases += 1
                    if abs(g3.integral - amount) > 1e-9 * amount or not np.allclose(g3.data, g4.data, atol=1e-10):
                        fails.append({"id": "insert_compiled_on_padded_array", "grid": repr(grid), "point": pin.tolist(), "amount": amount, "integral": float(g3.integral)})
    # interpolation with boundary conditions reaches the imposed value ON a wall, also within half a cell of a corner
    from pde import CartesianGrid as _CG
    gw = _CG([(0, 2), (0, 3)], [4, 6])
    fw = ScalarField(gw, rng.uniform(5, 6, gw.shape))
    for frac_y, kind in ((0.2, "bc_value_not_reached_on_the_wall_next_to_a_corner"), (1.7, "bc_value_not_reached_on_the_wall")):
        pt_ = np.array([1e-9, frac_y]) * gw.discretization
        cases += 1
        val = float(fw.interpolate(pt_, bc={"value": 1.0}))
        if abs(val - 1.0) > 1e-5:
            fails.append({"id": kind, "grid": repr(gw), "point": pt_.tolist(), "value": val, "imposed": 1.0})
    # interpolation with an anti-periodic condition approaches the (sign-flipped) seam value
    from pde import UnitGrid as _UG
    fa = ScalarField(_UG([4], periodic=True), [1.0, 2.0, 3.0, 4.0])
    cases += 1
    got_ = [float(fa.interpolate([x_], bc="anti-periodic")) for x_ in (0.375, 0.25, 0.125)]
    want_ = [1 + (x_ - 0.5) * 5 for x_ in (0.375, 0.25, 0.125)]  # straight line from the ghost value -4 at -0.5 to the cell value 1 at 0.5
    if not np.allclose(got_, want_, atol=1e-9):
        fails.append({"id": "anti_periodic_condition_ignored_by_interpolation", "grid": "UnitGrid([4], periodic=True)", "data": [1, 2, 3, 4], "points": [0.375, 0.25, 0.125], "got": got_, "want": want_})
    # integer-valued fields: the interpolant of an affine field is exact (not truncated to integers)
    fi = ScalarField(_UG([4]), np.array([0, 1, 2, 3]), dtype=int)
    cases += 1
    got_ = [float(fi.interpolate([x_])) for x_ in (1.0, 1.25, 2.9)]
    if not np.allclose(got_, [0.5, 0.75, 2.4], atol=1e-9):
        fails.append({"id": "interpolant_of_an_integer_field_truncated", "data": [0, 1, 2, 3], "points": [1.0, 1.25, 2.9], "got": got_, "want": [0.5, 0.75, 2.4]})
    seen, out = set(), []
    for f_ in fails:  # one example per kind first
        if f_["id"] not in seen:
            seen.add(f_["id"]); out.append(f_)
    return {"ok": True, "cases": cases, "failures": (out + [f_ for f_ in fails if f_ not in out])[:8]}


if __name__ == "__main__":
    print(json.dumps(run(json.loads(sys.stdin.read()))))
