"""Native bounded stand-in for C20: random operation sequences on MemoryStorage against a reference model."""

import json
import sys

import numpy as np

import pde
from pde import FieldCollection, MemoryStorage, ScalarField, UnitGrid, VectorField


def run(payload):
    rng = np.random.default_rng(payload.get("seed", 0))
    fails, cases = [], 0
    grid = UnitGrid([3])

    def fail(kind, **kw):
        if sum(1 for f_ in fails if f_["id"] == kind) < 3:  # a few witnesses per kind; one kind never crowds out another
            fails.append({"id": kind, **kw})

    for rep in range(payload.get("n", 60)):
        collection = rep % 3 == 2
        dtypes = [float, float, int, complex][rep % 4:] + [float]
        mode = ["truncate_once", "truncate", "append"][rep % 3]
        st = MemoryStorage(write_mode=mode)
        model = []  # list of (time, data copy)
        ops = []
        session = 0
        writing = False
        cur = None
        cases += 1
        try:
            for _ in range(int(rng.integers(3, 12))):
                op = rng.choice(["start", "append", "append", "append", "end", "clear", "read", "mutate_read", "range"])
                if op == "start":
                    dt = dtypes[min(session, len(dtypes) - 1)]
                    if collection:
                        cur = FieldCollection([ScalarField(grid, 1, dtype=dt), VectorField(grid, 2, dtype=dt)])
                    else:
                        cur = ScalarField(grid, rng.integers(0, 5, 3), dtype=dt)
                    st.start_writing(cur)
                    if st.write_mode == "append" and mode == "truncate_once" and session == 0:
                        model = []
                    elif mode == "truncate":
                        model = []
                    session += 1
                    writing = True
                    ops.append(("start", str(dt)))
                elif op == "append" and writing:
                    cur.data[...] = rng.integers(0, 9, cur.data.shape) + (0.5 if cur.data.dtype != int else 0) + (1j if np.iscomplexobj(cur.data) else 0)
                    t = float(len(model)) if rng.random() < 0.7 else float(model[-1][0] + 0.5 if model else 0.25)
                    st.append(cur, t)
                    model.append((t, cur.data.copy()))
                    cur.data[...] = -1  # later change of the source
                    ops.append(("append", t))
                elif op == "end" and writing:
                    st.end_writing()
                    ops.append(("end",))
                elif op == "clear":
                    st.clear()
                    model = []
                    ops.append(("clear",))
                elif op in ("read", "mutate_read") and model:
                    i = int(rng.integers(-len(model), len(model)))
                    f = st[i]
                    if not np.array_equal(f.data, model[i][1]):
                        fail("read_mismatch", ops=ops, index=i, got=f.data.tolist().__repr__(), want=model[i][1].tolist().__repr__())
                    if op == "mutate_read":
                        f.data[...] = 99
                    ops.append((op, i))
                elif op == "range" and model:
                    a = float(rng.choice([0.0, 0.25, 1.0, model[0][0]]))
                    b = float(rng.choice([0.0, 1.0, 2.5, model[-1][0]]))
                    if a <= b:
                        sub = st.extract_time_range((a, b))
                        want = [t for t, _ in model if a <= t <= b]
                        if list(sub.times) != want:
                            fail("extract_time_range", ops=ops, range=[a, b], got=list(sub.times), want=want)
                        ops.append(("range", a, b))
                # invariant: times and frames
                if list(st.times) != [t for t, _ in model] or len(st) != len(model):
                    fail("times", ops=ops, got=list(st.times), want=[t for t, _ in model])
                    break
                bad = [i for i, (t, d) in enumerate(model) if not np.array_equal(st.data[i], d)]
                if bad:
                    fail("frames", ops=ops, frames=bad, got=repr(st.data[bad[0]].tolist()), want=repr(model[bad[0]][1].tolist()))
                    break
            if model:
                items = list(st.items())
                if [t for t, _ in items] != [t for t, _ in model] or any(not np.array_equal(f.data, d) for (_, f), (_, d) in zip(items, model)):
                    fail("items", ops=ops)
                if collection:
                    ex = st.extract_field(1)
                    if any(not np.array_equal(ex.data[i], d[1:]) for i, (_, d) in enumerate(model)):
                        fail("extract_field", ops=ops)
                cp = st.copy()
                if list(cp.times) != list(st.times) or any(not np.array_equal(a, b) for a, b in zip(cp.data, st.data)):
                    fail("copy", ops=ops)
        except Exception as e:
            fail("error", ops=ops, error=f"{type(e).__name__}: {e}")
    # a storage reused for another kind of field after clear(clear_data_shape=True): frames come back as what was stored
    grid2 = UnitGrid([4, 3])
    kinds = {"scalar": lambda: ScalarField(grid2, rng.uniform(0, 1, grid2.shape)), "vector": lambda: VectorField(grid2, rng.uniform(0, 1, (2,) + grid2.shape)),
             "collection": lambda: FieldCollection([ScalarField(grid2, 1.0), VectorField(grid2, 2.0)])}
    for first, second in (("vector", "scalar"), ("collection", "scalar"), ("scalar", "vector"), ("scalar", "scalar")):
        cases += 1
        try:
            st = MemoryStorage(write_mode="append")
            f1 = kinds[first]()
            st.start_writing(f1); st.append(f1, 0.0); st.end_writing()
            st.clear(clear_data_shape=True)
            f2 = kinds[second]()
            st.start_writing(f2); st.append(f2, 1.0); st.end_writing()
            back = st[0]
            if type(back) is not type(f2) or back.data.shape != f2.data.shape or not np.array_equal(back.data, f2.data) or list(st.times) != [1.0]:
                fail("reuse_after_clearing_the_data_shape", first=first, second=second, got_class=type(back).__name__, got_shape=list(back.data.shape), want_shape=list(f2.data.shape))
        except Exception as e:
            fail("error", ops=["reuse after clear(clear_data_shape=True)", first, second], error=f"{type(e).__name__}: {e}")
    # appended sessions that restart the clock: time stamps are not sorted; extract_time_range keeps exactly the frames inside
    g1 = UnitGrid([3])
    st = MemoryStorage(write_mode="append")
    want_all = []
    for sess in range(2):
        f_ = ScalarField(g1, float(sess))
        st.start_writing(f_)
        for t_ in (0.0, 1.0, 2.0):
            f_.data[...] = 10 * sess + t_
            st.append(f_, t_)
            want_all.append((t_, 10 * sess + t_))
        st.end_writing()
    for a_, b_ in ((1.0, 2.0), (0.0, 0.5), (1.5, 5.0)):
        cases += 1
        sub = st.extract_time_range((a_, b_))
        got = [(t_, float(fr.data[0])) for t_, fr in sub.items()]
        want = [(t_, v_) for t_, v_ in want_all if a_ <= t_ <= b_]
        if got != want:
            fail("extract_time_range_with_unsorted_times", range=[a_, b_], got=got, want=want)
    # a view of one field of a collection: indexing with a slice gives the list of that field over the frames
    col = FieldCollection([ScalarField(g1, 1.0), ScalarField(g1, 2.0)], labels=["a", "b"])
    st = MemoryStorage()
    st.start_writing(col)
    for t_ in range(3):
        col[1].data[...] = 100 + t_
        st.append(col, float(t_))
    st.end_writing()
    cases += 1
    try:
        part = st.view_field("b")[0:2]
        ok_ = isinstance(part, list) and len(part) == 2 and all(isinstance(x, ScalarField) for x in part) and [float(x.data[0]) for x in part] == [100.0, 101.0]
        if not ok_:
            fail("view_slice_is_not_the_list_of_that_field", got=repr(part)[:200])
    except Exception as e:
        fail("error", ops=["view_field('b')[0:2]"], error=f"{type(e).__name__}: {e}")
    # readonly disables writing completely: append without start_writing
    ro = MemoryStorage(times=[0.0, 1.0], data=[np.zeros(3), np.ones(3)], field_obj=ScalarField(g1), write_mode="readonly")
    cases += 1
    try:
        ro.append(ScalarField(g1, 5.0), 2.0)
        fail("readonly_storage_accepted_an_append", frames=len(ro))
    except RuntimeError:
        pass
    # append mode, second session on ANOTHER grid of the same shape: the frames of the first session keep their grid
    from pde import CartesianGrid as _CG
    st = MemoryStorage(write_mode="append")
    fa = ScalarField(UnitGrid([4]), 1.0)
    st.start_writing(fa); st.append(fa, 0.0); st.end_writing()
    cases += 1
    try:
        fb = ScalarField(_CG([[0, 2]], 4), 1.0)
        st.start_writing(fb); st.append(fb, 1.0); st.end_writing()
        back = st[0]
        if back.grid != fa.grid or abs(back.integral - fa.integral) > 1e-12:
            fail("earlier_frames_read_on_the_grid_of_a_later_session", grid_of_frame_0=repr(back.grid), stored_on=repr(fa.grid), integral=float(back.integral), integral_stored=float(fa.integral))
    except (ValueError, RuntimeError):
        pass  # refusing the second session is fine
    # unsorted time stamps (a later session restarted the clock) with every way of leaving a bound of the range open
    stu = MemoryStorage(write_mode="append")
    fu = ScalarField(grid, 1.0)
    for sess in ([5.0, 6.0, 7.0], [0.0, 1.0, 2.0]):
        stu.start_writing(fu)
        for tt in sess:
            stu.append(fu, tt)
        stu.end_writing()
    for arg, want in ((None, [5, 6, 7, 0, 1, 2]), (6, [5, 6, 0, 1, 2]), ((None, 6), [5, 6, 0, 1, 2]), ((1, None), [5, 6, 7, 1, 2]), ((1, 6), [5, 6, 1, 2])):
        cases += 1
        got = [float(t) for t in (stu.extract_time_range(arg) if arg is not None else stu.extract_time_range()).times]
        if got != [float(w) for w in want]:
            fail("open_ended_time_range_on_unsorted_time_stamps", t_range=repr(arg), times_stored=[5, 6, 7, 0, 1, 2], got=got, want=want)
    # storages built from fields: later changes of the source fields (or of frames read back) do not alter the frames
    for collection in (False, True):
        cases += 1
        try:
            def mk(v):
                f = ScalarField(grid, v)
                return FieldCollection([f, f.copy()]) if collection else f
            src = [mk(1.0), mk(2.0)]
            stf = MemoryStorage.from_fields([0.0, 1.0], src)
            src[0].data[...] = 40.0
            src[1] += 5
            first = stf[0]
            first.data[...] = -7.0
            got = [float(np.mean(stf[i].data)) for i in range(2)]
            if got != [1.0, 2.0]:
                fail("from_fields_frames_follow_later_changes_of_the_source_fields", collection=collection, frames_read=got, stored=[1.0, 2.0])
        except Exception as e:
            fail("from_fields_error", collection=collection, error=f"{type(e).__name__}: {e}")
    # readonly
    st = MemoryStorage(write_mode="readonly")
    try:
        st.start_writing(ScalarField(grid))
        fail("readonly_did_not_raise")
    except RuntimeError:
        pass
    return {"ok": True, "cases": cases, "failures": fails}


if __name__ == "__main__":
    print(json.dumps(run(json.loads(sys.stdin.read()))))
