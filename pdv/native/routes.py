"""Native bounded stand-in for C03: all public routes to operator(field, bc) on random instances."""

import json
import sys

import numba as nb
import numpy as np

import pde
from pde import CartesianGrid, CylindricalSymGrid, PolarSymGrid, ScalarField, SphericalSymGrid, UnitGrid, VectorField
from pde.backends import get_backend


def run(payload):
    rng = np.random.default_rng(payload.get("seed", 0))
    fails, cases = [], 0

    def fail(kind, **kw):
        if sum(1 for f_ in fails if f_["id"] == kind) < 3:  # a few witnesses per kind; one kind never crowds out another
            fails.append({"id": kind, **kw})

    def close(a, b):
        return np.allclose(a, b, rtol=1e-9, atol=1e-11)

    # ---- vector operators on anisotropic Cartesian grids, every stencil variant: the compound kernel vs the sum of
    #      the single-axis derivative operators (another registered route to the same stencil)
    for dim in (1, 2, 3):
        shape = [int(rng.integers(3, 6)) for _ in range(dim)]
        grid = CartesianGrid([(0.0, float(rng.uniform(0.5, 2.5))) for _ in range(dim)], shape, periodic=[bool(rng.integers(0, 2)) for _ in range(dim)])
        v = VectorField(grid, rng.uniform(-1, 1, (dim,) + grid.shape))
        sc = ScalarField(grid, rng.uniform(-1, 1, grid.shape))
        bc = "auto_periodic_neumann"
        for method in ("central", "forward", "backward"):
            cases += 1
            try:
                div = v.divergence(bc, backend="numba", method=method).data
                parts = sum(v[a].apply_operator(f"d_d{grid.axes[a]}", bc, backend="numba", method=method).data for a in range(dim))
                if not close(div, parts):
                    fail("route_disagrees.divergence_vs_axis_derivatives", grid=repr(grid), method=method, max_dev=float(np.max(np.abs(div - parts))))
                grad = sc.gradient(bc, backend="numba", method=method).data
                for a in range(dim):
                    comp = sc.apply_operator(f"d_d{grid.axes[a]}", bc, backend="numba", method=method).data
                    if not close(grad[a], comp):
                        fail("route_disagrees.gradient_vs_axis_derivatives", grid=repr(grid), method=method, axis=a, max_dev=float(np.max(np.abs(grad[a] - comp))))
            except Exception as e:
                fail("route_error", grid=repr(grid), method=method, error=f"{type(e).__name__}: {str(e)[:300]}")

    for rep in range(payload.get("n", 2)):
        grids = [UnitGrid([int(rng.integers(3, 6))]), CartesianGrid([(0, 1.3), (-1, 1)], [int(rng.integers(3, 6)), int(rng.integers(3, 6))], periodic=[bool(rng.integers(0, 2)), False]),
                 PolarSymGrid((0.5, 2), 5), SphericalSymGrid(2, 5), CylindricalSymGrid(2, (0, 1), (4, 3)), CartesianGrid([(0, 1)] * 3, [3, 4, 3])]
        for grid in grids:
            bcs_list = ["auto_periodic_neumann", {"*": {"value": 0.3}} if not any(grid.periodic) else "auto_periodic_dirichlet",
                        {"*": {"type": "mixed", "value": 0.5, "const": 0.2}} if not any(grid.periodic) else "auto_periodic_curvature"]
            if isinstance(grid, (PolarSymGrid, SphericalSymGrid)) and grid.axes_bounds[0][0] == 0:
                bcs_list = ["auto_periodic_neumann", {"r+": {"value": 0.3}, "r-": {"derivative": 0}}]
            if isinstance(grid, CylindricalSymGrid):
                bcs_list = ["auto_periodic_neumann", {"r-": {"derivative": 0}, "r+": {"value": 0.3}, "z": {"curvature": 0.1}}]
            f = ScalarField(grid, rng.uniform(-1, 1, grid.shape))
            for bc in bcs_list:
                cases += 1
                ref = f.laplace(bc, backend="numba").data
                routes = {}
                try:
                    routes["field_scipy"] = f.laplace(bc, backend="scipy").data if (isinstance(grid, CartesianGrid) and np.allclose(grid.discretization, grid.discretization[0])) else ref
                    op = grid.make_operator("laplace", bc, backend="numba")
                    routes["make_operator"] = op(f.data)
                    out = np.empty(grid.shape); op(f.data, out=out); routes["make_operator_out"] = out
                    g2 = f.copy(); g2.set_ghost_cells(bc)
                    out = np.empty(grid.shape); grid.make_operator_no_bc("laplace", backend="numba")(g2._data_full, out); routes["no_bc_after_set_ghost_cells"] = out
                    bcs = grid.get_boundary_conditions(bc)
                    g3 = f.copy(); get_backend("numba").make_ghost_cell_setter(bcs)(g3._data_full)
                    valid = tuple(slice(1, -1) for _ in range(grid.num_axes))
                    mask = np.zeros(grid._shape_full, bool)
                    for a in range(grid.num_axes):
                        s = list(valid); s[a] = 0; mask[tuple(s)] = True
                        s[a] = -1; mask[tuple(s)] = True
                    if not close(g2._data_full[mask], g3._data_full[mask]):
                        fail("compiled_vs_interpreted_ghost_cells", grid=repr(grid), bc=repr(bc))
                    g4 = np.zeros(grid._shape_full); get_backend("numpy").make_full_data_setter(bcs)(g4, f.data)
                    if not close(g4[mask], g2._data_full[mask]) or not close(g4[valid], f.data):
                        fail("numpy_full_data_setter", grid=repr(grid), bc=repr(bc))
                    try:
                        from pde.backends.scipy.operators import common
                        mod = {CartesianGrid: "cartesian", UnitGrid: "cartesian", PolarSymGrid: "polar_sym", SphericalSymGrid: "spherical_sym", CylindricalSymGrid: "cylindrical_sym"}[type(grid)]
                        m = __import__(f"pde.backends.scipy.operators.{mod}", fromlist=["x"])
                        mat, vec = m._get_laplace_matrix(bcs)
                        routes["matrix"] = common.make_laplace_from_matrix(mat, vec)(f.data)
                    except NotImplementedError:
                        pass
                    # serial vs multi-threaded kernels
                    if grid.num_axes >= 2:
                        with pde.config({"backend.numba.multithreading": "always", "backend.numba.multithreading_threshold": 1}):
                            nb.set_num_threads(min(4, nb.config.NUMBA_NUM_THREADS))
                            out = np.empty(grid.shape)
                            grid.make_operator_no_bc("laplace", backend="numba")(g2._data_full, out)
                            routes["multithreaded"] = out
                            nb.set_num_threads(1)
                        with pde.config({"backend.numba.multithreading": "never"}):
                            out = np.empty(grid.shape)
                            grid.make_operator_no_bc("laplace", backend="numba")(g2._data_full, out)
                            routes["serial"] = out
                except Exception as e:
                    fail("route_error", grid=repr(grid), bc=repr(bc), error=f"{type(e).__name__}: {str(e)[:300]}")
                    continue
                for name, val in routes.items():
                    if not close(val, ref):
                        fail(f"route_disagrees.{name}", grid=repr(grid), bc=repr(bc), max_dev=float(np.max(np.abs(val - ref))))
        # per-face-cell (inhomogeneous) second-order condition through the matrix route
        grid = CartesianGrid([(0, 1.2), (0, 1.2)], [4, 4])
        f = ScalarField(grid, rng.uniform(-1, 1, grid.shape))
        bc = {"x-": {"curvature": rng.uniform(-1, 1, 4)}, "x+": {"value": rng.uniform(-1, 1, 4)}, "y-": {"derivative": rng.uniform(-1, 1, 4)}, "y+": {"curvature": rng.uniform(-1, 1, 4)}}
        cases += 1
        try:
            from pde.backends.scipy.operators import cartesian, common
            bcs = grid.get_boundary_conditions(bc)
            mat, vec = cartesian._get_laplace_matrix(bcs)
            got = common.make_laplace_from_matrix(mat, vec)(f.data)
            ref = f.laplace(bc).data
            if not close(got, ref) or not close(f.laplace(bc, backend="scipy").data, ref):
                fail("route_disagrees.matrix_inhomogeneous_bc", max_dev=float(np.max(np.abs(got - ref))))
        except Exception as e:
            fail("matrix_inhomogeneous_error", error=f"{type(e).__name__}: {str(e)[:300]}")
        # time-dependent BC given as a callable: args must reach the setter on every route
        grid = UnitGrid([5])
        f = ScalarField(grid, rng.uniform(-1, 1, 5))
        bc = {"x-": {"value_expression": lambda adjacent_value, dx, x, t: 2.0 * t}, "x+": {"derivative": 0}}
        t = 1.7
        cases += 1
        try:
            ref = f.laplace(bc, args={"t": t}).data
            op = grid.make_operator("laplace", bc, backend="numba")
            from pde.backends.numba.utils import numba_dict
            a = op(f.data, args=numba_dict(t=t))
            out = np.empty(5); op(f.data, out=out, args=numba_dict(t=t))
            out_f = f.copy(); f.laplace(bc, out=out_f, backend="numba", args={"t": t})
            if not close(out_f.data, ref):
                fail("field_method_with_out_drops_args", max_dev=float(np.max(np.abs(out_f.data - ref))))
            g2 = f.copy(); g2.set_ghost_cells(bc, args={"t": t})
            want_ghost = 2 * (2.0 * t) - f.data[0]
            if not (close(a, ref) and close(out, ref) and abs(g2._data_full[0] - want_ghost) < 1e-12):
                fail("args_dropped_on_a_route", with_out_dev=float(np.max(np.abs(out - ref))), without_out_dev=float(np.max(np.abs(a - ref))), ghost=float(g2._data_full[0]), want_ghost=float(want_ghost))
            g4 = np.zeros(7); get_backend("numpy").make_full_data_setter(grid.get_boundary_conditions(bc))(g4, f.data, {"t": t})
            if abs(g4[0] - want_ghost) > 1e-12:
                fail("numpy_setter_args", ghost=float(g4[0]), want=float(want_ghost))
        except Exception as e:
            fail("args_route_error", error=f"{type(e).__name__}: {str(e)[:300]}")
    # ---- the `out` field is the input field itself: same numbers as without `out`
    for g in (UnitGrid([8], periodic=True), CartesianGrid([(0, 1), (0, 2)], [4, 5])):
        bc = "auto_periodic_neumann"
        for backend in ("numba", "scipy"):
            f = ScalarField(g, rng.uniform(-1, 1, g.shape))
            cases += 1
            try:
                want = f.laplace(bc, backend=backend).data.copy()
                f2 = f.copy()
                got = f2.laplace(bc, out=f2, backend=backend)
                if got is not f2 or not close(f2.data, want):
                    fail("out_is_the_input_field", grid=repr(g), backend=backend, max_dev=float(np.max(np.abs(f2.data - want))))
            except RuntimeError:
                pass  # the scipy route refuses grids with different cell sizes per axis
            except Exception as e:
                fail("out_alias_error", grid=repr(g), backend=backend, error=f"{type(e).__name__}: {str(e)[:200]}")
    # ---- Robin conditions whose coefficient is linked to an external array: compiled operator vs interpreted setter + operator
    for dtype in (float, int):
        g = UnitGrid([4, 3])
        f = ScalarField(g, rng.uniform(0.5, 2, g.shape))
        linked = np.array([4, 3, 2], dtype=dtype)
        cases += 1
        try:
            bcs = g.get_boundary_conditions({"x": {"type": "mixed", "value": linked.astype(float), "const": 1.5}, "y": "neumann"})
            for bc in bcs[0]:
                bc.link_value(linked)
            op = g.make_operator("laplace", bcs, backend="numba")
            raw = g.make_operator_no_bc("laplace", backend="numba")
            for new in (None, [1, 5, 2]):
                if new is not None:
                    linked[:] = new
                got = op(f.data)
                f2 = f.copy()
                bcs.set_ghost_cells(f2._data_full)
                want = np.empty(g.shape)
                raw(f2._data_full, want)
                if not close(got, want):
                    fail("linked_robin_coefficient_compiled_vs_interpreted", dtype=dtype.__name__, updated=new is not None, max_dev=float(np.max(np.abs(got - want))))
        except Exception as e:
            fail("linked_route_error", error=f"{type(e).__name__}: {str(e)[:300]}")
    # ---- grids with tiny cells whose axes differ in cell size: the scipy route (which needs one common cell size) either
    #      refuses the grid or agrees with the numba route
    for bounds in ([[0, 8e-9], [0, 16e-9]], [[0, 8e-7], [0, 12e-7]], [[0, 8.0], [0, 16.0]]):
        g = CartesianGrid(bounds, [8, 8])
        f = ScalarField(g, rng.uniform(-1, 1, g.shape))
        cases += 1
        ref = f.laplace("neumann", backend="numba").data
        for how in ("field_method", "make_operator"):
            try:
                got = f.laplace("neumann", backend="scipy").data if how == "field_method" else g.make_operator("laplace", "neumann", backend="scipy")(f.data)
            except RuntimeError:
                continue  # refusing a non-uniform grid is the documented behaviour
            except Exception as e:
                fail("scipy_route_error", grid=repr(g), how=how, error=f"{type(e).__name__}: {str(e)[:200]}")
                continue
            if not np.allclose(got, ref, rtol=1e-9, atol=1e-9 * float(np.max(np.abs(ref)))):
                fail("scipy_route_uses_a_mean_cell_size_on_a_non-uniform_grid", grid=repr(g), how=how, cell_sizes=[float(d) for d in g.discretization],
                     relative_deviation=float(np.max(np.abs(got - ref)) / np.max(np.abs(ref))))
    return {"ok": True, "cases": cases, "failures": fails}


if __name__ == "__main__":
    print(json.dumps(run(json.loads(sys.stdin.read()))))
