"""Native bounded stand-in for C05: zero-flux Laplacian / divergence integrals and mass conservation
along simulations on random grids."""

import json
import sys

import numpy as np

import pde
from pde import CahnHilliardPDE, CartesianGrid, CylindricalSymGrid, DiffusionPDE, PolarSymGrid, ScalarField, SphericalSymGrid, VectorField


def grids(rng):
    out = []
    for d in (1, 2, 3):
        shape = [int(rng.integers(2, 6)) for _ in range(d)]
        per = [bool(rng.integers(0, 2)) for _ in range(d)]
        out.append(CartesianGrid([(0, float(rng.uniform(0.5, 3))) for _ in range(d)], shape, periodic=per))
    for hole in (False, True):
        r0 = float(rng.uniform(0.3, 2)) if hole else 0.0
        rad = (r0, r0 + float(rng.uniform(0.8, 3)))
        out.append(PolarSymGrid(rad, int(rng.integers(2, 8))))
        out.append(SphericalSymGrid(rad, int(rng.integers(2, 8))))
        out.append(CylindricalSymGrid(rad, (0, float(rng.uniform(0.5, 2))), (int(rng.integers(2, 6)), int(rng.integers(2, 5))), periodic_z=bool(rng.integers(0, 2))))
    return out


def run(payload):
    rng = np.random.default_rng(payload.get("seed", 0))
    fails, cases = [], 0
    for _ in range(payload.get("n", 3)):
        for grid in grids(rng):
            f = ScalarField(grid, rng.uniform(-1, 1, grid.shape))
            scale = float(np.sum(np.abs(f.laplace("auto_periodic_neumann").data) * grid.cell_volumes)) + 1e-9
            val = f.laplace("auto_periodic_neumann").integral
            cases += 1
            if abs(val) > 1e-10 * scale:
                fails.append({"id": "laplace_integral", "grid": repr(grid), "integral": float(val), "scale": scale})
            if isinstance(grid, (CartesianGrid, SphericalSymGrid)):
                data = rng.uniform(-1, 1, (grid.dim,) + grid.shape)
                if isinstance(grid, SphericalSymGrid):
                    data[1:] = 0
                v = VectorField(grid, data)
                bc = {ax + s: ("periodic" if grid.periodic[i] else {"value": 0}) for i, ax in enumerate(grid.axes) for s in "-+"}
                bc = {k: v_ for k, v_ in bc.items()}
                for i, ax in enumerate(grid.axes):
                    if grid.periodic[i]:
                        bc.pop(ax + "-"); bc.pop(ax + "+"); bc[ax] = "periodic"
                try:
                    dv = v.divergence(bc)
                except Exception as e:
                    fails.append({"id": "divergence_error", "grid": repr(grid), "error": f"{type(e).__name__}: {e}"})
                    continue
                scale = float(np.sum(np.abs(dv.data) * grid.cell_volumes)) + 1e-9
                cases += 1
                if abs(dv.integral) > 1e-10 * scale:
                    fails.append({"id": "divergence_integral", "grid": repr(grid), "integral": float(dv.integral), "scale": scale})
        # simulations
        for grid in [g for g in grids(rng) if g.num_axes <= 2][: payload.get('sim_grids', 5)]:
            f = ScalarField(grid, rng.uniform(0, 1, grid.shape))
            for eq, dt in ((DiffusionPDE(0.3), 1e-3), (CahnHilliardPDE(), 1e-5)):
                for solver in payload.get("solvers", ["euler", "runge-kutta", "adams-bashforth"]):
                    cases += 1
                    try:
                        res = eq.solve(f, t_range=8 * dt, dt=dt, solver=solver, tracker=None)
                    except Exception as e:
                        fails.append({"id": "simulation_error", "grid": repr(grid), "eq": type(eq).__name__, "solver": solver, "error": f"{type(e).__name__}: {e}"})
                        continue
                    if abs(res.integral - f.integral) > 1e-9 * (abs(f.integral) + 1):
                        fails.append({"id": "mass_drift", "grid": repr(grid), "eq": type(eq).__name__, "solver": solver, "drift": float(res.integral - f.integral)})
    return {"ok": True, "cases": cases, "failures": fails[:6]}


if __name__ == "__main__":
    print(json.dumps(run(json.loads(sys.stdin.read()))))
