"""Native bounded stand-in for C05: zero-flux Laplacian / divergence integrals and mass conservation
along simulations on random grids."""

import json
import sys

import numpy as np

import pde
from pde import CahnHilliardPDE, CartesianGrid, CylindricalSymGrid, DiffusionPDE, PolarSymGrid, ScalarField, SphericalSymGrid, VectorField


def grids(rng):
    out = []
    for d in (1, 2, 3):
        shape = [int(rng.integers(2, 6)) for _ in range(d)]
        per = [bool(rng.integers(0, 2)) for _ in range(d)]
        out.append(CartesianGrid([(0, float(rng.uniform(0.5, 3))) for _ in range(d)], shape, periodic=per))
    for hole in (False, True):
        r0 = float(rng.uniform(0.3, 2)) if hole else 0.0
        rad = (r0, r0 + float(rng.uniform(0.8, 3)))
        out.append(PolarSymGrid(rad, int(rng.integers(2, 8))))
        out.append(SphericalSymGrid(rad, int(rng.integers(2, 8))))
        out.append(CylindricalSymGrid(rad, (0, float(rng.uniform(0.5, 2))), (int(rng.integers(2, 6)), int(rng.integers(2, 5))), periodic_z=bool(rng.integers(0, 2))))
    return out


def corner_points(payload, rng):
    """replay of the corner-point obligations of the 9-point Laplacian: the real setter on the reflected /
    periodic extension of a random field, and the integral of the 9-point Laplacian itself"""
    from pde.backends.numba.operators.cartesian import make_corner_point_setter_2d

    fails, cases = [], 0
    for per in payload.get("periodicities", [[False, False], [True, False], [False, True], [True, True]]):
        for _ in range(payload.get("n9", 2)):
            shape = [int(rng.integers(2, 6)), int(rng.integers(2, 6))]
            grid = CartesianGrid([(0, float(shape[0])), (0, float(shape[1]))], shape, periodic=per)
            u = rng.uniform(-1, 1, shape)
            rho = [[(n - 1 if p else 0)] + list(range(n)) + [(0 if p else n - 1)] for n, p in zip(shape, per)]
            ext = u[np.ix_(rho[0], rho[1])]
            arr = ext.copy()
            for c in ((0, 0), (-1, 0), (0, -1), (-1, -1)):
                arr[c] = np.nan
            make_corner_point_setter_2d(grid)(arr)
            cases += 1
            for k, c in enumerate(((0, 0), (-1, 0), (0, -1), (-1, -1))):
                if not np.isclose(arr[c], ext[c]):
                    fails.append({"id": f"corner_point_{k}", "periodic": per, "shape": shape, "got": float(arr[c]), "want": float(ext[c])})
            f = ScalarField(grid, u)
            for w in (1 / 3, 0.5):
                lap = f.laplace("auto_periodic_neumann", corner_weight=w, backend="numba")
                cases += 1
                if abs(lap.integral) > 1e-10 * (np.abs(lap.data).sum() + 1e-9):
                    fails.append({"id": "laplace9_integral", "periodic": per, "shape": shape, "corner_weight": w, "integral": float(lap.integral)})
    return cases, fails


def run(payload):
    rng = np.random.default_rng(payload.get("seed", 0))
    fails, cases = [], 0
    c9, f9 = corner_points(payload, rng)
    cases += c9
    fails += f9[:3]
    if payload.get("only_corner_points"):
        return {"ok": True, "cases": cases, "failures": fails}
    for _ in range(payload.get("n", 3)):
        for grid in grids(rng):
            f = ScalarField(grid, rng.uniform(-1, 1, grid.shape))
            scale = float(np.sum(np.abs(f.laplace("auto_periodic_neumann").data) * grid.cell_volumes)) + 1e-9
            val = f.laplace("auto_periodic_neumann").integral
            cases += 1
            if abs(val) > 1e-10 * scale:
                fails.append({"id": "laplace_integral", "grid": repr(grid), "integral": float(val), "scale": scale})
            if isinstance(grid, (CartesianGrid, SphericalSymGrid)):
                data = rng.uniform(-1, 1, (grid.dim,) + grid.shape)
                if isinstance(grid, SphericalSymGrid):
                    data[1:] = 0
                v = VectorField(grid, data)
                bc = {ax + s: ("periodic" if grid.periodic[i] else {"value": 0}) for i, ax in enumerate(grid.axes) for s in "-+"}
                bc = {k: v_ for k, v_ in bc.items()}
                for i, ax in enumerate(grid.axes):
                    if grid.periodic[i]:
                        bc.pop(ax + "-"); bc.pop(ax + "+"); bc[ax] = "periodic"
                try:
                    dv = v.divergence(bc)
                except Exception as e:
                    fails.append({"id": "divergence_error", "grid": repr(grid), "error": f"{type(e).__name__}: {e}"})
                    continue
                scale = float(np.sum(np.abs(dv.data) * grid.cell_volumes)) + 1e-9
                cases += 1
                if abs(dv.integral) > 1e-10 * scale:
                    fails.append({"id": "divergence_integral", "grid": repr(grid), "integral": float(dv.integral), "scale": scale})
        # rates of equations whose conserved field has zero-flux conditions: interpreted and compiled rate integrate to zero
        from pde import PDE, FieldCollection
        for grid in [CartesianGrid([(0, 2.0)], [6]), CartesianGrid([(0, 1.5), (0, 2.0)], [4, 5], periodic=[False, True]), SphericalSymGrid((0.5, 2.0), 6)]:
            ax = grid.axes[0]
            eqs = {"cahn_hilliard_wetting_wall": (CahnHilliardPDE(bc_c={ax + "-": {"derivative": 0.4}, ax + "+": {"derivative": -0.2}}), None),
                   "two_fields_bc_per_variable": (PDE({"a": "laplace(a)", "b": "2 * laplace(b)"},
                                                      bc_ops={"a:laplace": {a_: ("periodic" if grid.periodic[i] else {"value": 0}) for i, a_ in enumerate(grid.axes)}}), 1)}
            for name, (eq, member) in eqs.items():
                if member is None:
                    state = ScalarField(grid, rng.uniform(-1, 1, grid.shape))
                else:
                    state = FieldCollection([ScalarField(grid, rng.uniform(-1, 1, grid.shape)) for _ in range(2)])
                for route in ("interpreted", "numpy", "numba"):
                    cases += 1
                    try:
                        if route == "interpreted":
                            rate = eq.evolution_rate(state, 0.0)
                        else:
                            rate = state.copy()
                            rate.data[...] = eq.make_pde_rhs(state, backend=route)(state.data, 0.0)
                    except Exception as e:
                        fails.append({"id": "rate_error", "equation": name, "route": route, "grid": repr(grid), "error": f"{type(e).__name__}: {e}"})
                        continue
                    r = rate if member is None else rate[member]
                    scale = float(np.sum(np.abs(r.data) * grid.cell_volumes)) + 1e-9
                    if abs(r.integral) > 1e-10 * scale:
                        fails.append({"id": "rate_of_conserved_field_does_not_integrate_to_zero", "equation": name, "route": route, "grid": repr(grid), "integral": float(r.integral), "scale": scale})
        # simulations
        for grid in [g for g in grids(rng) if g.num_axes <= 2][: payload.get('sim_grids', 5)]:
            f = ScalarField(grid, rng.uniform(0, 1, grid.shape))
            for eq, dt in ((DiffusionPDE(0.3), 1e-3), (CahnHilliardPDE(), 1e-5)):
                for solver in payload.get("solvers", ["euler", "runge-kutta", "adams-bashforth"]):
                    cases += 1
                    try:
                        res = eq.solve(f, t_range=8 * dt, dt=dt, solver=solver, tracker=None)
                    except Exception as e:
                        fails.append({"id": "simulation_error", "grid": repr(grid), "eq": type(eq).__name__, "solver": solver, "error": f"{type(e).__name__}: {e}"})
                        continue
                    if abs(res.integral - f.integral) > 1e-9 * (abs(f.integral) + 1):
                        fails.append({"id": "mass_drift", "grid": repr(grid), "eq": type(eq).__name__, "solver": solver, "drift": float(res.integral - f.integral)})
    return {"ok": True, "cases": cases, "failures": fails[:6]}


if __name__ == "__main__":
    print(json.dumps(run(json.loads(sys.stdin.read()))))
