"""AST interpreter over the symbolic value domain (DESIGN.md §2)."""

from __future__ import annotations

import ast
from fractions import Fraction

import z3

from . import arrays as A
from .arrays import ALL, MapLayer, NDArr, PointLayer, PyIndexError
from .ctx import Ctx, InfeasiblePath, PyRaise
from .objects import (
    BoundMethod,
    Class,
    ClassMethod,
    Function,
    Instance,
    Module,
    NativeMethod,
    Poison,
    Property,
    RangeVal,
    StaticMethod,
    module_path,
)
from .values import (
    INF,
    Inf,
    Opaque,
    ScheduleDependence,
    Unsupported,
    binop,
    compare,
    concrete,
    fresh_name,
    is_bool,
    is_int,
    is_num,
    is_scalar,
    is_sym,
    ite,
    logical_not,
    neg,
    simp,
    to_z3,
)

MAX_UNROLL = 4096
MAX_WHILE = 200


class _Return(Exception):
    def __init__(self, value):
        self.value = value


class _Break(Exception):
    pass


class _Continue(Exception):
    pass


def _is_generator(fnode):
    """does the function body contain a yield of its own (nested functions excluded)?"""
    cached = getattr(fnode, "_pdv_is_generator", None)
    if cached is not None:
        return cached
    found = False
    stack = list(fnode.body)
    while stack:
        n = stack.pop()
        if isinstance(n, (ast.FunctionDef, ast.AsyncFunctionDef, ast.Lambda, ast.ClassDef)):
            continue
        if isinstance(n, (ast.Yield, ast.YieldFrom)):
            found = True
            break
        stack.extend(ast.iter_child_nodes(n))
    fnode._pdv_is_generator = found
    return found


class Frame:
    def __init__(self, func, parent, module):
        self.func = func
        self.parent = parent  # enclosing Frame (closures) or None
        self.module = module
        self.locals: dict = {}
        self.loop_ordinal = 0
        self.nonlocals: set = set()

    def lookup(self, name):
        f = self
        while f is not None:
            if name in f.locals:
                return f.locals[name], True
            f = f.parent
        return None, False

    def assign_nonlocal(self, name, value):
        f = self.parent
        while f is not None:
            if name in f.locals:
                f.locals[name] = value
                return
            f = f.parent
        raise Unsupported(f"nonlocal {name} not found")


class LoopTrace:
    def __init__(self):
        self.before = {}  # buf -> content before the body
        self.reads = []  # (buf, idx, pc_len)
        self.layers = {}  # buf -> [layers in order]
        self.consts = []  # fresh consts created inside the body
        self.pc_len = 0


class PathCut(Exception):
    """the current path ends here (e.g. after proving that a loop body preserves the invariant)"""


class LoopSpec:
    """hand-written loop contract (classic invariant rule).

    ``invariant(interp, frame)`` -> z3 Bool over the current state;  ``havoc(interp, frame)`` replaces
    everything the loop may modify by fresh symbolic values.  Obligations generated:
    ``<name>.init`` (invariant holds on entry), ``<name>.preserved`` (one arbitrary iteration keeps it);
    after the loop the invariant and the negated condition are assumed."""

    def __init__(self, invariant, havoc, name="loop_invariant"):
        self.name = name

        def guarded(fn, what):
            # the hand-written invariants read frame locals under the names the code uses: when the code no longer has them
            # (a rename, a restructured loop) the contract does not fit -- undecided, never a crash and never a violation
            def call(interp, fr, *a):
                try:
                    return fn(interp, fr, *a)
                except (KeyError, AttributeError, TypeError, IndexError) as e:
                    raise Unsupported(f"{what} of `{name}` does not fit the loop as it is written now ({type(e).__name__}: {e})") from e
            return call

        self.invariant, self.havoc = guarded(invariant, "the invariant"), guarded(havoc, "the havoc list")

    def run(self, interp, st, fr, rng, target):
        ctx = interp.ctx
        if rng is not None:
            return self.run_for(interp, st, fr, rng, target)
        ctx.prove(f"{self.name}.init", self.invariant(interp, fr))
        self.havoc(interp, fr)
        ctx.assume_pc(self.invariant(interp, fr))
        c = interp.truth(interp.eval(st.test, fr))
        if isinstance(c, Opaque):
            raise Unsupported("loop condition on unmodelled value")
        take = c if isinstance(c, bool) else ctx.branch(c)
        if take:
            try:
                interp.exec_block(st.body, fr)
            except _Continue:
                pass
            except _Break:
                return  # leaves the loop from an arbitrary iteration: continue after the loop
            ctx.prove(f"{self.name}.preserved", self.invariant(interp, fr))
            raise PathCut()
        interp.exec_block(st.orelse, fr)


def _loopspec_run_for(self, interp, st, fr, rng, target):
    """`for v in range(lo, hi)`: the invariant takes the number k of completed iterations,
    ``invariant(interp, frame, k)``; the loop variable holds lo + k during iteration k"""
    ctx = interp.ctx
    if not isinstance(target, ast.Name) or concrete(rng.step) != 1:
        raise Unsupported("invariant rule needs `for name in range(..)` with step 1")
    lo, hi = to_z3(rng.start), to_z3(rng.stop)
    n_iter = z3.If(hi >= lo, hi - lo, z3.IntVal(0))
    ctx.prove(f"{self.name}.init", self.invariant(interp, fr, z3.IntVal(0)))
    self.havoc(interp, fr)
    k = z3.Int(fresh_name("k"))
    if ctx.branch(z3.Bool(fresh_name("loop_body_or_exit"))):
        # an arbitrary iteration
        ctx.assume_pc(z3.And(k >= 0, k < n_iter))
        fr.locals[target.id] = lo + k
        ctx.assume_pc(self.invariant(interp, fr, k))
        try:
            interp.exec_block(st.body, fr)
        except _Continue:
            pass
        except _Break:
            return  # leaves the loop from an arbitrary iteration (for-else is skipped)
        ctx.prove(f"{self.name}.preserved", self.invariant(interp, fr, k + 1))
        raise PathCut()
    # exit after all iterations
    if ctx.branch(n_iter >= 1):
        fr.locals[target.id] = lo + n_iter - 1
    else:
        fr.locals.pop(target.id, None) if target.id not in fr.locals else None
    ctx.assume_pc(self.invariant(interp, fr, n_iter))
    interp.exec_block(st.orelse, fr)


LoopSpec.run_for = _loopspec_run_for


class Interp:
    def __init__(self, ctx: Ctx | None = None):
        from .builtins_model import make_builtins, make_stub_modules, STUB_NAMES

        self.ctx = ctx or Ctx()
        self.modules: dict[str, Module] = {}
        self.builtins = make_builtins(self)
        self.stub_modules = make_stub_modules(self)
        self.stub_names = dict(STUB_NAMES(self))
        self.overrides: dict = {}  # name -> value (contract-provided module-level stubs)
        self.contracts: dict = {}  # (module name, qualname) -> callable(interp, args, kwargs)
        self.loop_specs: dict = {}  # (qualname, ordinal) -> LoopSpec
        self.local_def_overrides: dict = {}  # (outer qualname, name) -> callable(real Function) -> value
        self.traces: list[LoopTrace] = []
        self.call_depth = 0
        self.dropped: set[str] = set()
        self.functions_seen: dict = {}
        self.prange_loops = 0
        self.map_loops = 0
        self.frames: list[Frame] = []
        A.HOOKS["read"] = self._on_read
        A.HOOKS["write"] = self._on_write
        A.HOOKS["bounds"] = self._on_bounds
        A.HOOKS["fact"] = lambda f: self.ctx.assume(f)

    # ------------------------------------------------------------------ hooks
    def _on_read(self, buf, idx):
        for t in self.traces:
            t.reads.append((buf, idx, tuple(self.ctx.pc[t.pc_len + 1 :])))

    def _on_write(self, buf, layer):
        if not self.traces:
            return
        t = self.traces[-1]
        if buf not in t.before:
            t.before[buf] = layer.parent
            t.layers[buf] = []
        t.layers[buf].append(layer)
        if isinstance(layer, MapLayer):
            t.consts.extend(v for v, _, _ in layer.vars)

    def _on_bounds(self, kind, a, b, n):
        self.ctx.bounds_hook(kind, a, b, n)

    # ------------------------------------------------------------------ modules
    def load_module(self, dotted: str) -> Module:
        if dotted in self.modules:
            return self.modules[dotted]
        path = module_path(dotted)
        if path is None:
            raise Unsupported(f"module {dotted} not found in repository")
        m = Module(dotted, path, self)
        self.modules[dotted] = m
        return m

    def import_module(self, dotted: str):
        top = dotted.split(".")[0]
        if dotted in self.stub_modules:
            return self.stub_modules[dotted]
        if top in self.stub_modules:
            v = self.stub_modules[top]
            for part in dotted.split(".")[1:]:
                v = self.getattr(v, part)
            return v
        if top == "pde":
            return self.load_module(dotted)
        return Opaque(f"module {dotted}")

    def import_from(self, module: Module, modname, level, name):
        if name in self.overrides:
            return self.overrides[name]
        if name in self.stub_names:
            return self.stub_names[name]
        if level == 0:
            base = modname
        else:
            parts = module.name.split(".")
            if not module.is_pkg:
                parts = parts[:-1]
            if level > 1:
                parts = parts[: -(level - 1)]
            base = ".".join(parts + ([modname] if modname else []))
        top = base.split(".")[0]
        if top != "pde":
            if top in self.stub_modules or base in self.stub_modules:
                return self.getattr(self.import_module(base), name)
            return Opaque(f"{base}.{name}")
        # submodule?
        if module_path(base + "." + name) is not None:
            return self.load_module(base + "." + name)
        m = self.load_module(base)
        return self.module_attr(m, name)

    def module_attr(self, m: Module, name):
        if name in self.overrides:
            return self.overrides[name]
        if name in self.stub_names:
            return self.stub_names[name]
        try:
            return m.get(name)
        except KeyError:
            if module_path(m.name + "." + name) is not None:
                return self.load_module(m.name + "." + name)
            raise Unsupported(f"name {name} not found in module {m.name}") from None

    def eval_in_module(self, node, module: Module):
        fr = Frame(None, None, module)
        return self.eval(node, fr)

    def get_function(self, dotted_module: str, qualname: str):
        """locate a function / method by module and dotted qualname ``Class.method`` or ``func``"""
        m = self.load_module(dotted_module)
        parts = qualname.split(".")
        try:
            v = m.get(parts[0])
        except KeyError:
            raise AnchorNotFound(f"{dotted_module}:{qualname}") from None
        for p in parts[1:]:
            if isinstance(v, Class):
                mem, _ = v.lookup(p)
                if mem is None:
                    raise AnchorNotFound(f"{dotted_module}:{qualname}")
                v = mem
            else:
                raise AnchorNotFound(f"{dotted_module}:{qualname}")
        if isinstance(v, (Property,)):
            v = v.fget
        if isinstance(v, (StaticMethod, ClassMethod)):
            v = v.func
        return v

    # ------------------------------------------------------------------ names
    def lookup_name(self, name, frame: Frame):
        v, ok = frame.lookup(name)
        if ok:
            if isinstance(v, Poison):
                if v.prange_carried is not None and getattr(self, "_augassign_target", None) != name:
                    raise ScheduleDependence(f"`{name}` is carried across iterations of the nb.prange loop at line {v.prange_carried} and read inside it "
                                             f"[{frame.func.qualname if frame.func is not None else '?'}]")
                raise Unsupported(f"read of `{name}`: {v.why}")
            return v
        if name in self.overrides:
            return self.overrides[name]
        mod = frame.module
        if mod is not None and mod.has(name):
            if name in self.stub_names:
                return self.stub_names[name]
            return mod.get(name)
        if name in self.builtins:
            return self.builtins[name]
        if name == "__name__":
            return mod.name if mod else "__main__"
        if name in self.stub_names:
            return self.stub_names[name]
        raise Unsupported(f"unknown name `{name}` in {mod.name if mod else '?'}")

    # ------------------------------------------------------------------ expressions
    def eval(self, node, fr: Frame):
        m = getattr(self, "e_" + type(node).__name__, None)
        if m is None:
            raise Unsupported(f"expression {type(node).__name__} at line {getattr(node, 'lineno', '?')}")
        return m(node, fr)

    def e_Yield(self, node, fr):
        if not hasattr(fr, "yielded"):
            raise Unsupported("yield outside a generator function")
        fr.yielded.append(self.eval(node.value, fr) if node.value is not None else None)
        return None

    def e_Constant(self, node, fr):
        v = node.value
        if isinstance(v, float):
            if v == float("inf"):
                return INF
            return Fraction(repr(v))
        if isinstance(v, complex):
            raise Unsupported("complex literal")
        return v

    def e_Name(self, node, fr):
        return self.lookup_name(node.id, fr)

    def e_Tuple(self, node, fr):
        return tuple(self._eval_elts(node.elts, fr))

    def e_List(self, node, fr):
        return list(self._eval_elts(node.elts, fr))

    def e_Set(self, node, fr):
        return set(self._eval_elts(node.elts, fr))

    def _eval_elts(self, elts, fr):
        out = []
        for e in elts:
            if isinstance(e, ast.Starred):
                out.extend(self.iterate(self.eval(e.value, fr)))
            else:
                out.append(self.eval(e, fr))
        return out

    def e_Dict(self, node, fr):
        d = {}
        for k, v in zip(node.keys, node.values):
            if k is None:
                d.update(self.eval(v, fr))
            else:
                d[self.eval(k, fr)] = self.eval(v, fr)
        return d

    def e_JoinedStr(self, node, fr):
        parts = []
        for v in node.values:
            if isinstance(v, ast.Constant):
                parts.append(str(v.value))
            else:
                try:
                    val = self.eval(v.value, fr)
                except Unsupported:
                    val = "?"
                if isinstance(val, (str, int)) and not isinstance(val, bool) and v.format_spec is None and v.conversion == -1:
                    parts.append(str(val))
                elif isinstance(val, int) and v.format_spec is not None:
                    parts.append(str(val))
                else:
                    parts.append("{" + ast.unparse(v.value) + "}")
        return "".join(parts)

    def e_Lambda(self, node, fr):
        return Function(node, fr, fr.module, "<lambda>")

    def e_IfExp(self, node, fr):
        c = self.truth(self.eval(node.test, fr))
        if isinstance(c, bool):
            return self.eval(node.body if c else node.orelse, fr)
        # symbolic: try value-level merge of two scalar results, otherwise fork
        if self._pure_scalar_expr(node.body) and self._pure_scalar_expr(node.orelse):
            a = self.eval(node.body, fr)
            b = self.eval(node.orelse, fr)
            if is_scalar(a) and is_scalar(b):
                return ite(c, a, b)
        if self.ctx.branch(c):
            return self.eval(node.body, fr)
        return self.eval(node.orelse, fr)

    def _pure_scalar_expr(self, node):
        for n in ast.walk(node):
            if isinstance(n, (ast.Call, ast.Lambda, ast.ListComp, ast.Await, ast.Yield)):
                return False
        return True

    def e_UnaryOp(self, node, fr):
        v = self.eval(node.operand, fr)
        if isinstance(node.op, ast.Not):
            t = self.truth(v)
            return logical_not(t)
        if isinstance(node.op, ast.USub):
            if isinstance(v, Instance) and "__neg__" in v.attrs:
                return self.call(v.attrs["__neg__"], [], {})
            if isinstance(v, NDArr):
                return A.elementwise(neg, v, name="neg")
            return neg(v)
        if isinstance(node.op, ast.UAdd):
            return v
        if isinstance(node.op, ast.Invert):
            if is_bool(v):
                return logical_not(v)
            if isinstance(v, NDArr):
                return A.elementwise(logical_not, v, name="not", kind="bool")
        raise Unsupported(f"unary {type(node.op).__name__}")

    _BINOPS = {
        ast.Add: "+", ast.Sub: "-", ast.Mult: "*", ast.Div: "/", ast.FloorDiv: "//",
        ast.Mod: "%", ast.Pow: "**", ast.BitAnd: "&", ast.BitOr: "|", ast.BitXor: "^",
        ast.MatMult: "@",
    }

    def e_BinOp(self, node, fr):
        a = self.eval(node.left, fr)
        b = self.eval(node.right, fr)
        return self.binop(self._BINOPS[type(node.op)], a, b)

    def binop(self, op, a, b):
        if isinstance(a, NDArr) or isinstance(b, NDArr):
            if op == "@":
                return self.call(self.getattr(self.stub_modules["numpy"], "dot"), [a, b], {})
            if isinstance(a, (list, tuple)):
                a = A.array_from_nested(a)
            if isinstance(b, (list, tuple)):
                b = A.array_from_nested(b)
            if isinstance(a, Opaque) or isinstance(b, Opaque):
                return Opaque(f"array {op} opaque")
            return A.elementwise(lambda x, y: binop(op, x, y), a, b, name=op)
        if isinstance(a, Instance) or isinstance(b, Instance):
            return self.instance_binop(op, a, b)
        if op == "+" and isinstance(a, (list, tuple, str)) and type(a) is type(b):
            return a + b
        if op == "*" and isinstance(a, (list, tuple, str)) and isinstance(b, int):
            return a * b
        if op == "*" and isinstance(b, (list, tuple, str)) and isinstance(a, int):
            return a * b
        if op == "%" and isinstance(a, str):
            return Opaque("%-formatted string")
        if op in ("|", "&", "-", "^") and isinstance(a, (set, frozenset)) and isinstance(b, (set, frozenset)):
            return {"|": a | b, "&": a & b, "-": a - b, "^": a ^ b}[op]
        if op == "|" and isinstance(a, dict) and isinstance(b, dict):
            return {**a, **b}
        return binop(op, a, b)

    _DUNDER = {"+": "add", "-": "sub", "*": "mul", "/": "truediv", "**": "pow", "//": "floordiv", "%": "mod"}

    def instance_binop(self, op, a, b):
        nm = self._DUNDER.get(op)
        if nm and isinstance(a, Instance) and f"__{nm}__" in a.attrs:
            return self.call(a.attrs[f"__{nm}__"], [b], {})
        if nm and isinstance(b, Instance) and f"__r{nm}__" in b.attrs:
            return self.call(b.attrs[f"__r{nm}__"], [a], {})
        if nm and isinstance(a, Instance) and a.cls is not None:
            m, _ = a.cls.lookup(f"__{nm}__")
            if m is not None:
                return self.call(BoundMethod(m, a), [b], {})
        if nm and isinstance(b, Instance) and b.cls is not None:
            m, _ = b.cls.lookup(f"__r{nm}__")
            if m is not None:
                return self.call(BoundMethod(m, b), [a], {})
        raise Unsupported(f"operator {op} on {a!r}, {b!r}")

    def e_BoolOp(self, node, fr):
        is_and = isinstance(node.op, ast.And)
        result = None
        acc = []  # symbolic conjuncts/disjuncts so far
        for i, v in enumerate(node.values):
            val = self.eval(v, fr)
            t = self.truth(val)
            if isinstance(t, bool):
                if is_and and not t:
                    if acc:
                        return False
                    return val
                if (not is_and) and t:
                    if acc:
                        # (sym or True) -> True
                        return True
                    return val
                # a concrete operand that does not decide the result only matters if it is the last one
                result = val if i == len(node.values) - 1 else None
                continue
            if isinstance(t, Opaque):
                return t
            # symbolic truth: later operands are evaluated under the assumption that evaluation
            # continues, which is only safe if they are side-effect free
            for later in node.values[i + 1 :]:
                if not self._pure_scalar_expr(later) and not self._harmless_calls(later):
                    # fork instead
                    taken = self.ctx.branch(t)
                    if is_and and not taken:
                        return False
                    if (not is_and) and taken:
                        return True
                    t = None
                    break
            if t is not None:
                acc.append(t)
        if acc:
            if result is not None and not is_bool(result):
                raise Unsupported("symbolic and/or with non-boolean operand")
            return simp(z3.And(*acc) if is_and else z3.Or(*acc)) if len(acc) > 1 else acc[0]
        return result

    def _harmless_calls(self, node):
        for n in ast.walk(node):
            if isinstance(n, ast.Call):
                f = ast.unparse(n.func)
                if f not in ("len", "abs", "min", "max", "isinstance", "np.isclose", "math.isclose", "np.isfinite", "np.isinf", "np.isnan", "float", "int", "np.abs"):
                    return False
        return True

    _CMPOPS = {ast.Eq: "==", ast.NotEq: "!=", ast.Lt: "<", ast.LtE: "<=", ast.Gt: ">", ast.GtE: ">="}

    def e_Compare(self, node, fr):
        left = self.eval(node.left, fr)
        conj = []
        for op, rn in zip(node.ops, node.comparators):
            right = self.eval(rn, fr)
            r = self.compare_op(op, left, right)
            if r is False:
                return False
            if r is not True:
                conj.append(r)
            left = right
        if not conj:
            return True
        if any(isinstance(c, Opaque) for c in conj):
            return Opaque("comparison")
        if any(isinstance(c, NDArr) for c in conj):
            if len(conj) == 1:
                return conj[0]
            raise Unsupported("chained array comparison")
        return conj[0] if len(conj) == 1 else z3.And(*conj)

    def compare_op(self, op, a, b):
        if isinstance(op, (ast.Is, ast.IsNot)):
            if a is None or b is None or isinstance(a, (bool, str)) or isinstance(b, (bool, str)):
                r = a is b
            elif isinstance(a, NDArr) and isinstance(b, NDArr):
                r = a is b
            else:
                r = a is b
            return r if isinstance(op, ast.Is) else not r
        if isinstance(op, (ast.In, ast.NotIn)):
            r = self.contains(b, a)
            return r if isinstance(op, ast.In) else logical_not(r)
        o = self._CMPOPS[type(op)]
        if isinstance(a, NDArr) or isinstance(b, NDArr):
            if isinstance(a, (list, tuple)):
                a = A.array_from_nested(a)
            if isinstance(b, (list, tuple)):
                b = A.array_from_nested(b)
            return A.elementwise(lambda x, y: compare(o, x, y), a, b, name=o, kind="bool")
        if o in ("==", "!="):
            for x, y in ((a, b), (b, a)):
                if isinstance(x, Instance) and callable(x.attrs.get("__eq__")):
                    r = x.attrs["__eq__"](y)
                    return r if o == "==" else logical_not(self.truth(r))
        if isinstance(a, Instance) and a.cls is not None and o in ("==", "!="):
            m, _ = a.cls.lookup("__eq__")
            if m is not None:
                r = self.call(BoundMethod(m, a), [b], {})
                return r if o == "==" else logical_not(self.truth(r))
            return (a is b) if o == "==" else (a is not b)
        if isinstance(a, (Class, Function, Module)) or isinstance(b, (Class, Function, Module)):
            return (a is b) if o == "==" else (a is not b)
        if isinstance(a, (tuple, list)) and isinstance(b, (tuple, list)) and o in ("==", "!="):
            if len(a) != len(b) or type(a) is not type(b):
                return o == "!="
            cs = [self.compare_op(ast.Eq(), x, y) for x, y in zip(a, b)]
            if any(c is False for c in cs):
                return o == "!="
            cs = [c for c in cs if c is not True]
            if not cs:
                return o == "=="
            eq = z3.And(*cs) if len(cs) > 1 else cs[0]
            return eq if o == "==" else z3.Not(eq)
        return compare(o, a, b)

    def contains(self, container, item):
        if isinstance(container, Opaque) or isinstance(item, Opaque):
            return Opaque("in")
        if isinstance(container, (set, frozenset, dict, str)):
            if is_sym(item):
                raise Unsupported("symbolic membership test")
            return item in container
        if isinstance(container, (list, tuple)):
            cs = []
            for x in container:
                c = self.compare_op(ast.Eq(), item, x)
                if c is True:
                    return True
                if c is not False:
                    cs.append(c)
            if not cs:
                return False
            return z3.Or(*cs) if len(cs) > 1 else cs[0]
        if isinstance(container, RangeVal):
            return z3.And(to_z3(container.start) <= to_z3(item), to_z3(item) < to_z3(container.stop))
        if isinstance(container, Instance) and container.cls is not None:
            m, _ = container.cls.lookup("__contains__")
            if m is not None:
                return self.call(BoundMethod(m, container), [item], {})
        raise Unsupported(f"`in` on {type(container).__name__}")

    def truth(self, v):
        """python truthiness: bool, z3 Bool, or Opaque"""
        if isinstance(v, bool):
            return v
        if v is None:
            return False
        if isinstance(v, Opaque):
            return v
        if is_sym(v):
            if z3.is_bool(v):
                c = concrete(v)
                return v if c is None else c
            c = concrete(v)
            if c is not None:
                return c != 0
            return v != 0
        if isinstance(v, (int, Fraction, float)):
            return v != 0
        if isinstance(v, Inf):
            return True
        if isinstance(v, (str, list, tuple, dict, set, frozenset)):
            return len(v) > 0
        if isinstance(v, NDArr):
            if v.ndim == 0 or all(concrete(s) == 1 for s in v.shape):
                return self.truth(v.read(tuple(0 for _ in v.shape)))
            raise Unsupported("truth value of an array")
        if isinstance(v, Instance) and v.cls is not None:
            m, _ = v.cls.lookup("__bool__")
            if m is not None:
                return self.truth(self.call(BoundMethod(m, v), [], {}))
            m, _ = v.cls.lookup("__len__")
            if m is not None:
                return self.truth(self.call(BoundMethod(m, v), [], {}))
        return True

    def e_Attribute(self, node, fr):
        obj = self.eval(node.value, fr)
        return self.getattr(obj, node.attr)

    def e_Subscript(self, node, fr):
        obj = self.eval(node.value, fr)
        from .builtins_model import TypeTag

        if isinstance(obj, TypeTag):
            return Opaque(f"type alias {obj.name}[...]")  # e.g. ResultType = tuple[NumericArray, int, tuple]
        key = self.eval_index(node.slice, fr)
        return self.getitem(obj, key)

    def eval_index(self, node, fr):
        if isinstance(node, ast.Slice):
            return slice(
                self.eval(node.lower, fr) if node.lower else None,
                self.eval(node.upper, fr) if node.upper else None,
                self.eval(node.step, fr) if node.step else None,
            )
        if isinstance(node, ast.Tuple):
            out = []
            for e in node.elts:
                if isinstance(e, ast.Starred):
                    out.extend(self.iterate(self.eval(e.value, fr)))
                else:
                    out.append(self.eval_index(e, fr))
            return tuple(out)
        return self.eval(node, fr)

    def e_Slice(self, node, fr):
        return self.eval_index(node, fr)

    def getitem(self, obj, key):
        if isinstance(obj, NDArr):
            try:
                if isinstance(key, list):
                    key = tuple(key) if any(isinstance(k, slice) or k is None or k is Ellipsis for k in key) else key
                return obj.index(key)
            except PyIndexError as e:
                raise PyRaise("IndexError", (str(e),)) from None
        if isinstance(obj, (list, tuple, str)):
            if isinstance(key, slice):
                if any(is_sym(x) for x in (key.start, key.stop, key.step)):
                    raise Unsupported("symbolic slice of a python sequence")
                return obj[key]
            if isinstance(key, bool):
                key = int(key)
            if is_sym(key):
                c = concrete(key)
                if c is None:
                    return self._select_from_seq(obj, key)
                key = c
            if not isinstance(key, int):
                raise Unsupported(f"index {key!r} into python sequence")
            try:
                return obj[key]
            except IndexError:
                raise PyRaise("IndexError", ("list index out of range",)) from None
        if isinstance(obj, dict):
            if is_sym(key):
                raise Unsupported("symbolic dict key")
            try:
                return obj[key]
            except KeyError:
                raise PyRaise("KeyError", (key,)) from None
            except TypeError:
                raise Unsupported(f"unhashable dict key {key!r}") from None
        if isinstance(obj, Opaque):
            return Opaque(f"{obj.what}[...]")
        if isinstance(obj, Instance):
            if "__getitem__" in obj.attrs:
                return self.call(obj.attrs["__getitem__"], [key], {})
            if obj.cls is not None:
                m, _ = obj.cls.lookup("__getitem__")
                if m is not None:
                    return self.call(BoundMethod(m, obj), [key], {})
        from .builtins_model import FlatView

        if isinstance(obj, FlatView):
            if obj.arr.ndim == 1:
                return self.getitem(obj.arr, key)
            raise Unsupported("flat view of an nd array")
        if isinstance(obj, RangeVal):
            if is_int(key):
                return binop("+", obj.start, binop("*", key, obj.step))
        raise Unsupported(f"subscript of {type(obj).__name__}")

    def _select_from_seq(self, seq, key):
        """seq[key] for symbolic key: ite chain (index assumed in range; bounds obligation)"""
        n = len(seq)
        if n == 0:
            raise PyRaise("IndexError", ("list index out of range",))
        if not all(is_scalar(x) for x in seq):
            raise Unsupported("symbolic index into a sequence of non-scalars")
        self.ctx.bounds_hook("index", key, None, n)
        res = seq[n - 1]
        for i in range(n - 2, -1, -1):
            res = ite(key == i, seq[i], res)
        return res

    # ------------------------------------------------------------------ attributes
    def getattr(self, obj, name):
        from .builtins_model import builtin_getattr

        if isinstance(obj, Instance):
            if name in obj.attrs:
                v = obj.attrs[name]
                if isinstance(v, Poison):
                    raise Unsupported(f"read of attribute `{name}`: {v.why}")
                return v
            if obj.cls is not None:
                m, owner = obj.cls.lookup(name)
                if m is not None:
                    if isinstance(m, Function):
                        return BoundMethod(m, obj)
                    if isinstance(m, Property):
                        return self.call_function(m.fget, [obj], {})
                    if isinstance(m, StaticMethod):
                        return m.func
                    if isinstance(m, ClassMethod):
                        return BoundMethod(m.func, obj.cls)
                    return m
                if name == "__class__":
                    return obj.cls
                if name == "__dict__":
                    return obj.attrs
            if name == "__class__":
                return obj.cls
            if obj.attrs.get("__closed__"):
                raise PyRaise("AttributeError", (name,))
            raise Unsupported(f"attribute `{name}` of {obj!r} is not specified")
        if isinstance(obj, Class):
            if name in ("__name__", "__qualname__"):
                return obj.name
            if name == "__module__":
                return obj.module.name
            m, owner = obj.lookup(name)
            if m is None:
                raise Unsupported(f"class attribute {obj.name}.{name}")
            if isinstance(m, StaticMethod):
                return m.func
            if isinstance(m, ClassMethod):
                return BoundMethod(m.func, obj)
            return m
        if isinstance(obj, Module):
            return self.module_attr(obj, name)
        if isinstance(obj, Opaque):
            return Opaque(f"{obj.what}.{name}")
        return builtin_getattr(self, obj, name)

    def setattr(self, obj, name, value):
        if isinstance(obj, Instance):
            if obj.cls is not None:
                m, _ = obj.cls.lookup(name)
                if isinstance(m, Property):
                    if m.fset is None:
                        raise PyRaise("AttributeError", (f"can't set {name}",))
                    self.call_function(m.fset, [obj, value], {})
                    return
            obj.attrs[name] = value
            self.ctx.heap_mutations += 1
            return
        if isinstance(obj, Opaque):
            return
        if isinstance(obj, Function):
            # function attributes (e.g. wrapper._logger) carry no semantics here
            self.dropped.add(f"function attribute {name}")
            return
        if isinstance(obj, NDArr) and name == "shape":
            # `arr.shape = new_shape`: in-place reshape of this view object (never copies; NumPy raises if it would have to)
            from .builtins_model import builtin_getattr
            new = builtin_getattr(self, obj, "reshape")(tuple(self.iterate(value)))
            obj.imap, obj.shape = list(new.imap), tuple(new.shape)
            return
        raise Unsupported(f"setattr on {type(obj).__name__}")

    # ------------------------------------------------------------------ calls
    def e_Call(self, node, fr):
        # super()
        if isinstance(node.func, ast.Name) and node.func.id == "super" and not node.args:
            return self._super(fr)
        fn = self.eval(node.func, fr)
        args = []
        for a in node.args:
            if isinstance(a, ast.Starred):
                args.extend(self.iterate(self.eval(a.value, fr)))
            else:
                args.append(self.eval(a, fr))
        kwargs = {}
        for k in node.keywords:
            if k.arg is None:
                d = self.eval(k.value, fr)
                if isinstance(d, Opaque):
                    continue
                kwargs.update(d)
            else:
                kwargs[k.arg] = self.eval(k.value, fr)
        return self.call(fn, args, kwargs, node=node)

    def _super(self, fr):
        f = fr
        while f is not None and (f.func is None or f.func.cls is None):
            f = f.parent
        if f is None:
            raise Unsupported("super() outside a method")
        cls = f.func.cls
        self_obj = f.locals.get(f.func.node.args.args[0].arg)
        return _Super(cls, self_obj)

    def call(self, fn, args, kwargs, node=None):
        if isinstance(fn, Function):
            return self.call_function(fn, args, kwargs)
        if isinstance(fn, BoundMethod):
            return self.call_function(fn.func, [fn.self_obj, *args], kwargs)
        if isinstance(fn, Class):
            return self.instantiate(fn, args, kwargs)
        if isinstance(fn, Opaque):
            self.ctx.opaque_calls.append(fn.what)
            return Opaque(f"{fn.what}(...)")
        if isinstance(fn, Instance):
            if "__call__" in fn.attrs:
                return self.call(fn.attrs["__call__"], args, kwargs)
            if fn.cls is not None:
                m, _ = fn.cls.lookup("__call__")
                if m is not None:
                    return self.call_function(m, [fn, *args], kwargs)
            raise Unsupported(f"calling {fn!r}")
        if callable(fn):
            return fn(*args, **kwargs)
        raise Unsupported(f"calling {fn!r}")

    def instantiate(self, cls: Class, args, kwargs):
        obj = Instance(cls)
        # an object built by its real constructor has exactly the attributes the code gives it: reading another one
        # is an AttributeError (hasattr(..) is False), not a gap of the model
        obj.attrs["__closed__"] = True
        init, _ = cls.lookup("__init__")
        if init is not None:
            self.call_function(init, [obj, *args], kwargs)
        return obj

    def call_function(self, fn: Function, args, kwargs):
        key = (fn.module.name, fn.qualname)
        if key in self.contracts:
            return self.contracts[key](self, args, kwargs)
        if key not in self.functions_seen:
            self._check_decorators(fn)
        self.functions_seen[key] = fn
        if self.call_depth > 60:
            raise Unsupported("call depth exceeded")
        if fn.cache is not None and args and isinstance(args[0], Instance) and not getattr(self, "_in_cached_call", None) == (id(fn), id(args[0])):
            return self._call_cached(fn, args, kwargs)
        fr = Frame(fn, fn.env, fn.module)
        self.bind_args(fn, fr, args, kwargs)
        self.call_depth += 1
        self.frames.append(fr)
        try:
            if isinstance(fn.node, ast.Lambda):
                return self.eval(fn.node.body, fr)
            if _is_generator(fn.node):
                # generator functions are evaluated eagerly into the list of yielded values: faithful when
                # the consumer takes all values and does not change state the generator reads between yields
                fr.yielded = []
                self.ctx.notes.append(f"generator {fn.qualname} evaluated eagerly")
                try:
                    self.exec_block(fn.node.body, fr)
                except _Return:
                    pass
                return list(fr.yielded)
            try:
                self.exec_block(fn.node.body, fr)
            except _Return as r:
                return r.value
            return None
        finally:
            self.frames.pop()
            self.call_depth -= 1

    # decorators that leave the behaviour of the decorated function unchanged (compilation, registration,
    # documentation) or whose semantics the interpreter implements (properties, class/static methods, caches)
    TRANSPARENT_DECORATORS = {
        "jit", "njit", "register_jitable", "compile_function", "register_operator", "fill_in_docstring", "abstractmethod",
        "wraps", "property", "setter", "classmethod", "staticmethod", "cached_method", "cached_property", "hybridmethod",
        "nb_overload", "overload",
    }

    def _check_decorators(self, fn):
        for d in getattr(fn.node, "decorator_list", []):
            f = d.func if isinstance(d, ast.Call) else d
            name = ast.unparse(f).split(".")[-1]
            if name not in self.TRANSPARENT_DECORATORS:
                raise Unsupported(f"decorator @{ast.unparse(f)} on {fn.qualname} is not modelled")
            if fn.cache is None or name not in ("cached_method", "cached_property"):
                self.dropped.add("@" + ast.unparse(f))

    def _call_cached(self, fn, args, kwargs):
        """semantics of pde.tools.cache.cached_method / cached_property (dictionary cache stored in
        obj._cache_methods[name], key = arguments (+ extra_args attributes)): the first call computes, later
        calls with an equal key return the stored object, whatever has happened to the instance meanwhile"""
        obj, c = args[0], fn.cache
        if c["factory"] is not None:
            raise Unsupported(f"cache with a factory on {fn.qualname}")
        store = obj.attrs.get("_cache_methods")
        if not isinstance(store, dict):
            store = {}
            obj.attrs["_cache_methods"] = store
        cache = store.setdefault(c["name"], {})
        kw = {k: v for k, v in kwargs.items() if k not in c["ignore_args"]}
        parts = [tuple(args[1:]), tuple(sorted(kw.items()))] + [self.getattr(obj, a) for a in c["extra_args"]]

        def freeze(v):
            if isinstance(v, (list, tuple)):
                return tuple(freeze(x) for x in v)
            if isinstance(v, dict):
                return tuple(sorted((k, freeze(x)) for k, x in v.items()))
            if v is None or isinstance(v, (bool, int, str, Fraction)):
                return v
            unknown.append(v)
            return ("?", len(unknown))

        unknown = []
        key = freeze(parts)
        if unknown:
            # the key depends on values whose hash (pde.tools.cache.hash_mutable) is not modelled: a call on an
            # empty cache certainly computes; whether a later call hits or misses cannot be decided here
            if cache:
                raise Unsupported(f"cache key of {fn.qualname} is not concrete ({unknown[0]!r}) and the cache is not empty")
        elif any(isinstance(k, tuple) and "?" in repr(k) for k in cache):
            raise Unsupported(f"cache of {fn.qualname} holds an entry with an unmodelled key")
        if key in cache and not unknown:
            return cache[key]
        prev = getattr(self, "_in_cached_call", None)
        self._in_cached_call = (id(fn), id(obj))
        try:
            result = self.call_function(fn, args, kwargs)
        finally:
            self._in_cached_call = prev
        cache[key] = result
        return result

    def bind_args(self, fn, fr, args, kwargs):
        a = fn.node.args
        params = [p.arg for p in a.posonlyargs + a.args]
        defaults = a.defaults
        kwargs = dict(kwargs)
        nargs = len(args)
        for i, p in enumerate(params):
            if i < nargs:
                fr.locals[p] = args[i]
                if p in kwargs:
                    raise PyRaise("TypeError", (f"multiple values for argument {p}",))
            elif p in kwargs:
                fr.locals[p] = kwargs.pop(p)
            else:
                di = i - (len(params) - len(defaults))
                if di < 0:
                    raise PyRaise("TypeError", (f"{fn.qualname}() missing argument {p}",))
                fr.locals[p] = self.eval(defaults[di], Frame(None, fn.env, fn.module))
        if nargs > len(params):
            if a.vararg is None:
                raise PyRaise("TypeError", (f"{fn.qualname}() takes {len(params)} positional arguments but {nargs} were given",))
            fr.locals[a.vararg.arg] = tuple(args[len(params) :])
        elif a.vararg is not None:
            fr.locals[a.vararg.arg] = ()
        for p, d in zip(a.kwonlyargs, a.kw_defaults):
            if p.arg in kwargs:
                fr.locals[p.arg] = kwargs.pop(p.arg)
            elif d is not None:
                fr.locals[p.arg] = self.eval(d, Frame(None, fn.env, fn.module))
            else:
                raise PyRaise("TypeError", (f"{fn.qualname}() missing keyword argument {p.arg}",))
        if a.kwarg is not None:
            fr.locals[a.kwarg.arg] = kwargs
        elif kwargs:
            raise PyRaise("TypeError", (f"{fn.qualname}() got unexpected keyword arguments {sorted(kwargs)}",))

    # ------------------------------------------------------------------ iteration
    def iterate(self, v):
        """concrete python list of the elements of an iterable value"""
        if isinstance(v, (list, tuple)):
            return list(v)
        if isinstance(v, (set, frozenset)):
            return sorted(v, key=repr)
        if isinstance(v, dict):
            return list(v.keys())
        if isinstance(v, str):
            return list(v)
        if isinstance(v, RangeVal):
            s, e, st = concrete(v.start), concrete(v.stop), concrete(v.step)
            if s is None or e is None or st is None:
                raise Unsupported("iteration over a symbolic range outside a `for` statement")
            if (e - s) / st > MAX_UNROLL:
                raise Unsupported("range too long to unroll")
            return list(range(s, e, st))
        if isinstance(v, NDArr):
            n = concrete(v.shape[0]) if v.ndim else None
            if n is None:
                raise Unsupported("iteration over an array of symbolic length")
            return [v.index(i) for i in range(n)]
        if isinstance(v, Instance) and v.cls is not None:
            m, _ = v.cls.lookup("__iter__")
            if m is not None:
                return self.iterate(self.call_function(m, [v], {}))
        if isinstance(v, Instance) and "__iter__" in v.attrs:
            return self.iterate(self.call(v.attrs["__iter__"], [], {}))
        raise Unsupported(f"iteration over {type(v).__name__}")

    def e_ListComp(self, node, fr):
        out = []
        self._comp(node.generators, 0, fr, lambda f: out.append(self.eval(node.elt, f)))
        return out

    def e_GeneratorExp(self, node, fr):
        return self.e_ListComp(node, fr)

    def e_SetComp(self, node, fr):
        return set(self.e_ListComp(node, fr))

    def e_DictComp(self, node, fr):
        out = {}

        def add(f):
            out[self.eval(node.key, f)] = self.eval(node.value, f)

        self._comp(node.generators, 0, fr, add)
        return out

    def _comp(self, gens, k, fr, emit):
        if k == len(gens):
            emit(fr)
            return
        g = gens[k]
        for item in self.iterate(self.eval(g.iter, fr)):
            f2 = Frame(fr.func, fr, fr.module)
            self.assign_target(g.target, item, f2)
            ok = True
            for cond in g.ifs:
                t = self.truth(self.eval(cond, f2))
                if not isinstance(t, bool):
                    t = self.ctx.branch(t)
                if not t:
                    ok = False
                    break
            if ok:
                self._comp(gens, k + 1, f2, emit)

    def e_Starred(self, node, fr):
        raise Unsupported("starred expression")

    def e_NamedExpr(self, node, fr):
        v = self.eval(node.value, fr)
        fr.locals[node.target.id] = v
        return v

    # ------------------------------------------------------------------ statements
    def exec_block(self, stmts, fr):
        for st in stmts:
            self.exec(st, fr)

    def exec(self, st, fr):
        m = getattr(self, "s_" + type(st).__name__, None)
        if m is None:
            raise Unsupported(f"statement {type(st).__name__} at {fr.module.name}:{st.lineno}")
        try:
            return m(st, fr)
        except Unsupported as e:
            if not getattr(e, "located", False):
                e.located = True
                e.args = (f"{e.args[0]} [at {fr.module.path}:{st.lineno}]",)
            raise

    def s_Pass(self, st, fr):
        pass

    def s_Expr(self, st, fr):
        if isinstance(st.value, ast.Constant):
            return
        # calls on loggers / warnings are dropped (recorded)
        if isinstance(st.value, ast.Call):
            f = ast.unparse(st.value.func)
            if f.startswith(("logger.", "self._logger.", "_logger.", "warnings.", "logging.", "backend._logger.", "cls._logger.")) or "._logger." in f or f in ("print",):
                self.dropped.add(f)
                return
        self.eval(st.value, fr)

    def s_Assign(self, st, fr):
        v = self.eval(st.value, fr)
        for t in st.targets:
            self.assign_target(t, v, fr)

    def s_AnnAssign(self, st, fr):
        if st.value is None:
            return
        self.assign_target(st.target, self.eval(st.value, fr), fr)

    def assign_target(self, t, v, fr):
        if isinstance(t, ast.Name):
            if t.id in fr.nonlocals:
                fr.assign_nonlocal(t.id, v)
            else:
                fr.locals[t.id] = v
        elif isinstance(t, (ast.Tuple, ast.List)):
            if isinstance(v, (int, Fraction)) or is_sym(v) or v is None:
                raise PyRaise("TypeError", ("cannot unpack non-iterable",))
            items = self.iterate(v)
            star = [i for i, e in enumerate(t.elts) if isinstance(e, ast.Starred)]
            if star:
                s = star[0]
                n_after = len(t.elts) - s - 1
                if len(items) < len(t.elts) - 1:
                    raise PyRaise("ValueError", ("not enough values to unpack",))
                for e, x in zip(t.elts[:s], items[:s]):
                    self.assign_target(e, x, fr)
                self.assign_target(t.elts[s].value, list(items[s : len(items) - n_after]), fr)
                for e, x in zip(t.elts[s + 1 :], items[len(items) - n_after :]):
                    self.assign_target(e, x, fr)
                return
            if len(items) != len(t.elts):
                raise PyRaise("ValueError", (f"cannot unpack {len(items)} values into {len(t.elts)} targets",))
            for e, x in zip(t.elts, items):
                self.assign_target(e, x, fr)
        elif isinstance(t, ast.Subscript):
            obj = self.eval(t.value, fr)
            key = self.eval_index(t.slice, fr)
            self.setitem(obj, key, v)
        elif isinstance(t, ast.Attribute):
            obj = self.eval(t.value, fr)
            self.setattr(obj, t.attr, v)
        else:
            raise Unsupported(f"assignment target {type(t).__name__}")

    def setitem(self, obj, key, v):
        if isinstance(obj, NDArr) and isinstance(key, NDArr) and key.buf.kind == "bool":
            # boolean-mask assignment: arr[mask] = v  ==  arr[...] = where(mask, v, arr)
            new = A.elementwise(lambda m, x, y: ite(m, x, y) if is_sym(m) else (x if m else y), key, v, obj, name="masked")
            obj.assign(ALL, new)
            return
        if isinstance(obj, NDArr):
            try:
                if isinstance(key, list):
                    key = tuple(key)
                if key is Ellipsis or (isinstance(key, slice) and key == slice(None)):
                    obj.assign(ALL, v)
                else:
                    obj.assign(key, v)
            except PyIndexError as e:
                raise PyRaise("IndexError", (str(e),)) from None
            return
        if isinstance(obj, list):
            if is_sym(key):
                key = concrete(key)
                if key is None:
                    raise Unsupported("symbolic index assignment into python list")
            try:
                obj[key] = v
            except IndexError:
                raise PyRaise("IndexError", ("list assignment index out of range",)) from None
            self.ctx.heap_mutations += 1
            return
        if isinstance(obj, dict):
            if is_sym(key):
                raise Unsupported("symbolic dict key")
            obj[key] = v
            self.ctx.heap_mutations += 1
            return
        if isinstance(obj, Instance):
            if "__setitem__" in obj.attrs:
                self.call(obj.attrs["__setitem__"], [key, v], {})
                return
            if obj.cls is not None:
                m, _ = obj.cls.lookup("__setitem__")
                if m is not None:
                    self.call_function(m, [obj, key, v], {})
                    return
        if isinstance(obj, Opaque):
            return
        raise Unsupported(f"item assignment on {type(obj).__name__}")

    def s_AugAssign(self, st, fr):
        op = self._BINOPS[type(st.op)]
        t = st.target
        if isinstance(t, ast.Name):
            self._augassign_target = t.id  # `x += ..` alone is the reduction pattern numba supports, not a schedule dependence
            try:
                cur = self.lookup_name(t.id, fr)
            finally:
                self._augassign_target = None
            if isinstance(cur, NDArr):
                # in-place on the same buffer
                new = self.binop(op, cur, self.eval(st.value, fr))
                cur.assign(ALL, new)
                return
            if isinstance(cur, list) and op == "+":
                cur.extend(self.iterate(self.eval(st.value, fr)))
                self.ctx.heap_mutations += 1
                return
            self.assign_target(t, self.binop(op, cur, self.eval(st.value, fr)), fr)
        elif isinstance(t, ast.Subscript):
            obj = self.eval(t.value, fr)
            key = self.eval_index(t.slice, fr)
            cur = self.getitem(obj, key)
            self.setitem(obj, key, self.binop(op, cur, self.eval(st.value, fr)))
        elif isinstance(t, ast.Attribute):
            obj = self.eval(t.value, fr)
            cur = self.getattr(obj, t.attr)
            if isinstance(cur, NDArr):
                cur.assign(ALL, self.binop(op, cur, self.eval(st.value, fr)))
                return
            self.setattr(obj, t.attr, self.binop(op, cur, self.eval(st.value, fr)))
        else:
            raise Unsupported("augmented assignment target")

    def s_Return(self, st, fr):
        raise _Return(self.eval(st.value, fr) if st.value is not None else None)

    def s_If(self, st, fr):
        test_src = ast.unparse(st.test)
        if "TYPE_CHECKING" in test_src:
            return
        c = self.truth(self.eval(st.test, fr))
        if isinstance(c, Opaque):
            raise Unsupported(f"branch on unmodelled value {c!r} (`{test_src}`)")
        if not isinstance(c, bool):
            c = self.ctx.branch(c)
        self.exec_block(st.body if c else st.orelse, fr)

    def s_Assert(self, st, fr):
        try:
            c = self.truth(self.eval(st.test, fr))
        except Unsupported as e:
            self.ctx.notes.append(f"assert not interpreted ({e}): {ast.unparse(st.test)[:80]}")
            return
        if isinstance(c, Opaque):
            self.ctx.notes.append(f"assert on unmodelled value assumed: {ast.unparse(st.test)[:80]}")
            return
        if c is True:
            return
        if c is False:
            raise PyRaise("AssertionError", (ast.unparse(st.test),))
        # symbolic: the assert is a precondition of the verified path (DESIGN §2.1)
        if not self.ctx.feasible(c):
            raise PyRaise("AssertionError", (ast.unparse(st.test),))
        self.ctx.notes.append(f"assert assumed as precondition: {ast.unparse(st.test)[:80]}")
        self.ctx.add_pc(c)

    def s_Raise(self, st, fr):
        if st.exc is None:
            raise PyRaise("reraise")
        name = None
        args = ()
        e = st.exc
        if isinstance(e, ast.Call):
            name = ast.unparse(e.func)
            try:
                args = tuple(self.eval(a, fr) for a in e.args)
            except Unsupported:
                args = ("?",)
        else:
            name = ast.unparse(e)
            v, ok = fr.lookup(name)
            if ok and isinstance(v, PyRaise):
                raise v
        raise PyRaise(name.split(".")[-1], args)

    def s_FunctionDef(self, st, fr):
        qn = f"{fr.func.qualname}.{st.name}" if fr.func is not None else st.name
        f = Function(st, fr, fr.module, qn, cls=None)
        v = f
        for d in reversed(st.decorator_list):
            ds = ast.unparse(d)
            if ds.startswith(("overload", "nb.extending.overload", "numba.extending.overload")):
                v = Opaque(f"numba overload {st.name}")
                self.dropped.add("@overload " + st.name)
                return  # registration only; does not bind a usable python function
            self.dropped.add("@" + ds.split("(")[0])
        okey = (fr.func.qualname if fr.func is not None else "", st.name)
        if okey in self.local_def_overrides:
            v = self.local_def_overrides[okey](f)
        fr.locals[st.name] = v

    def s_Import(self, st, fr):
        for a in st.names:
            bound = (a.asname or a.name).split(".")[0]
            fr.locals[bound] = self.import_module(a.name if a.asname else a.name.split(".")[0])

    def s_ImportFrom(self, st, fr):
        for a in st.names:
            fr.locals[a.asname or a.name] = self.import_from(fr.module, st.module, st.level, a.name)

    def s_Nonlocal(self, st, fr):
        fr.nonlocals.update(st.names)

    def s_Global(self, st, fr):
        raise Unsupported("global statement")

    def s_Delete(self, st, fr):
        for t in st.targets:
            if isinstance(t, ast.Name):
                fr.locals.pop(t.id, None)
            elif isinstance(t, ast.Subscript):
                obj = self.eval(t.value, fr)
                key = self.eval_index(t.slice, fr)
                if isinstance(obj, (dict, list)) and not is_sym(key):
                    del obj[key]
                    self.ctx.heap_mutations += 1
                else:
                    raise Unsupported("del of symbolic item")
            else:
                raise Unsupported("del target")

    def s_Break(self, st, fr):
        raise _Break()

    def s_Continue(self, st, fr):
        raise _Continue()

    def s_With(self, st, fr):
        # context managers are not modelled except the trivial ones that only guard numerics
        for item in st.items:
            src = ast.unparse(item.context_expr)
            if src.startswith(("np.errstate", "warnings.catch_warnings", "contextlib.suppress", "suppress")):
                self.dropped.add("with " + src.split("(")[0])
                continue
            raise Unsupported(f"with-statement on `{src}`")
        self.exec_block(st.body, fr)

    def s_Try(self, st, fr):
        try:
            self.exec_block(st.body, fr)
        except PyRaise as e:
            for h in st.handlers:
                if h.type is None:
                    names = None
                elif isinstance(h.type, ast.Tuple):
                    names = [ast.unparse(x).split(".")[-1] for x in h.type.elts]
                else:
                    names = [ast.unparse(h.type).split(".")[-1]]
                if names is None or e.exc_type in names or "Exception" in names or "BaseException" in names or self._exc_subclass(e.exc_type, names):
                    if h.name:
                        fr.locals[h.name] = e
                    try:
                        self.exec_block(h.body, fr)
                    except PyRaise as e2:
                        if e2.exc_type == "reraise":
                            self.exec_block(st.finalbody, fr)
                            raise e from None
                        self.exec_block(st.finalbody, fr)
                        raise
                    break
            else:
                self.exec_block(st.finalbody, fr)
                raise
        except (_Return, _Break, _Continue):
            self.exec_block(st.finalbody, fr)
            raise
        else:
            self.exec_block(st.orelse, fr)
        self.exec_block(st.finalbody, fr)

    _EXC_PARENTS = {
        "IndexError": ["LookupError"], "KeyError": ["LookupError"], "FinishedSimulation": ["StopIteration"],
        "NotImplementedError": ["RuntimeError"], "ZeroDivisionError": ["ArithmeticError"],
        "DimensionError": ["ValueError"], "PeriodicityError": ["RuntimeError"], "BCDataError": ["ValueError"],
        "DomainError": ["ValueError"],
    }

    def _exc_subclass(self, name, names):
        seen = set()
        todo = [name]
        while todo:
            n = todo.pop()
            if n in names:
                return True
            if n in seen:
                continue
            seen.add(n)
            todo.extend(self._EXC_PARENTS.get(n, []))
        return False

    # ------------------------------------------------------------------ loops
    def s_While(self, st, fr):
        fr.loop_ordinal += 1
        ordinal = fr.loop_ordinal
        key = (fr.func.qualname if fr.func else "", ordinal)
        if key in self.loop_specs:
            return self.exec_invariant_loop(st, fr, self.loop_specs[key], None, None)
        n = 0
        while True:
            c = self.truth(self.eval(st.test, fr))
            if isinstance(c, Opaque):
                raise Unsupported("while condition on unmodelled value")
            if not isinstance(c, bool):
                raise Unsupported(f"`while` with symbolic condition needs a loop invariant ({key})")
            if not c:
                break
            n += 1
            if n > MAX_WHILE:
                raise Unsupported("while loop does not terminate within the unrolling limit")
            try:
                self.exec_block(st.body, fr)
            except _Break:
                return
            except _Continue:
                continue
        self.exec_block(st.orelse, fr)

    def s_For(self, st, fr):
        fr.loop_ordinal += 1
        ordinal = fr.loop_ordinal
        it = self.eval(st.iter, fr)
        is_prange = isinstance(it, RangeVal) and getattr(it, "parallel", False)
        symbolic = isinstance(it, RangeVal) and (
            concrete(it.start) is None or concrete(it.stop) is None
        )
        key = (fr.func.qualname if fr.func else "", ordinal)
        if symbolic or (is_prange and self.force_map_for_prange):
            if key in self.loop_specs:
                return self.exec_invariant_loop(st, fr, self.loop_specs[key], it, st.target)
            if concrete(it.step) != 1:
                raise Unsupported("symbolic range with step != 1")
            if st.orelse:
                raise Unsupported("for-else on symbolic range")
            return self.exec_map_loop(st, fr, it, key, is_prange)
        items = self.iterate(it)
        for item in items:
            self.assign_target(st.target, item, fr)
            try:
                self.exec_block(st.body, fr)
            except _Break:
                return
            except _Continue:
                continue
        self.exec_block(st.orelse, fr)

    force_map_for_prange = False

    @staticmethod
    def _assigned_names(stmts):
        names = set()
        for st in stmts:
            for n in ast.walk(st):
                if isinstance(n, ast.Name) and isinstance(n.ctx, (ast.Store, ast.Del)):
                    names.add(n.id)
                elif isinstance(n, ast.FunctionDef):
                    names.add(n.name)
        return names

    def exec_map_loop(self, st, fr, rng, key, is_prange):
        """auto-invariant rule for loops whose iterations are independent (DESIGN §2.2)"""
        ctx = self.ctx
        if not isinstance(st.target, ast.Name):
            raise Unsupported("symbolic loop with tuple target")
        self.map_loops += 1
        if is_prange:
            self.prange_loops += 1
        i = z3.Int(fresh_name(st.target.id))
        lo, hi = rng.start, rng.stop
        dom = z3.And(to_z3(lo) <= i, i < to_z3(hi))
        assigned = self._assigned_names(st.body) | {st.target.id}
        saved = dict(fr.locals)
        carried = {n for n in assigned if n in saved}
        for n in assigned:
            fr.locals[n] = Poison(f"variable `{n}` would carry a value from one iteration of the loop at line {st.lineno} to the next (needs a loop invariant)",
                                  prange_carried=st.lineno if (is_prange and n in carried) else None)
        fr.locals[st.target.id] = i
        tr = LoopTrace()
        tr.consts.append(i)
        self.traces.append(tr)
        pc_len = len(ctx.pc)
        tr.pc_len = pc_len
        ctx.add_pc(dom)
        mutations0 = ctx.heap_mutations
        # local exploration of the body's symbolic branches
        outer = (ctx.explorer, ctx.prefix, ctx.pos, ctx.decisions)
        local = _LocalExplorer()
        ctx.explorer = local
        body_locals0 = dict(fr.locals)
        path_results = []  # (guard, {buf: [layers]}, reads)
        local.queue = [[]]
        npaths = 0
        try:
            while local.queue:
                prefix = local.queue.pop()
                npaths += 1
                if npaths > 64:
                    raise Unsupported("too many paths in loop body")
                # restore state at body start
                fr.locals = dict(body_locals0)
                for buf, content in tr.before.items():
                    buf.content = content
                tr.layers = {b: [] for b in tr.before}
                tr.reads = []
                del ctx.pc[pc_len + 1 :]
                ctx._solver = None
                ctx.prefix, ctx.pos, ctx.decisions = prefix, 0, []
                try:
                    self.exec_block(st.body, fr)
                except _Continue:
                    pass
                except InfeasiblePath:
                    continue
                except (_Break, _Return):
                    raise Unsupported("break/return inside a symbolic loop") from None
                guard = list(ctx.pc[pc_len + 1 :])
                path_results.append((guard, {b: list(ls) for b, ls in tr.layers.items()}, list(tr.reads)))
        finally:
            ctx.explorer, ctx.prefix, ctx.pos, ctx.decisions = outer
            self.traces.pop()
            del ctx.pc[pc_len:]
            ctx._solver = None
        if ctx.heap_mutations != mutations0:
            raise Unsupported("python objects are mutated inside a symbolic loop")
        # ---------------- generalise the writes over the iteration space
        writes = []  # (buf, vars, guard, idx)
        reads = []
        new_chain = {b: c for b, c in tr.before.items()}
        for guard, layers, rds in path_results:
            g = z3.And(*guard) if len(guard) > 1 else (guard[0] if guard else True)
            for buf, ls in layers.items():
                for layer in ls:
                    if isinstance(layer, PointLayer):
                        vars_, lg, idx, val = [(i, lo, hi)], layer.guard, layer.idx, layer.val
                    else:
                        vars_, lg, idx, val = [(i, lo, hi), *layer.vars], layer.guard, layer.idx, layer.val
                    gg = A._and(g, lg)
                    new_chain[buf] = MapLayer(new_chain[buf], vars_, gg, idx, val)
                    writes.append((buf, vars_, gg, idx))
            for buf, idx, rguard in rds:
                reads.append((buf, idx, A._and(*rguard) if rguard else True))
        gen_layers = {}
        for buf, content in new_chain.items():
            buf.content = content
            gen = []
            c = content
            while c is not tr.before[buf]:
                gen.append(c)
                c = c.parent
            gen.reverse()
            gen_layers[buf] = gen
        if self.traces:  # enclosing symbolic loop sees the generalised layers of this loop
            parent = self.traces[-1]
            for buf, gen in gen_layers.items():
                if buf not in parent.before:
                    parent.before[buf] = tr.before[buf]
                    parent.layers[buf] = []
                parent.layers[buf].extend(gen)
            parent.consts.extend(tr.consts)
        # ---------------- independence obligations (also: prange schedule independence)
        self._independence_obligations(st, key, i, dom, writes, reads, tr, is_prange)
        # ---------------- locals after the loop
        fr.locals = saved
        for n in assigned:
            fr.locals[n] = Poison(f"value of `{n}` after the symbolic loop at line {st.lineno} is not tracked")

    def _independence_obligations(self, st, key, i, dom, writes, reads, tr, is_prange):
        ctx = self.ctx
        if not writes:
            return
        consts = list({c.get_id(): c for c in tr.consts}.values())
        primed = [(c, z3.Int(fresh_name(str(c).split("!")[0] + "'"))) for c in consts]
        i_p = dict((a.get_id(), b) for a, b in primed)[i.get_id()]

        def prime(e):
            return z3.substitute(to_z3(e), *primed)

        def dom_of(vars_):
            cs = []
            for v, lo, hi in vars_:
                cs.append(to_z3(lo) <= v)
                cs.append(v < to_z3(hi))
            return cs

        by_buf = {}
        for w in writes:
            by_buf.setdefault(w[0], []).append(w)
        for buf, ws in by_buf.items():
            collisions = []
            for _, vars1, g1, idx1 in ws:
                # write/write with another iteration
                for _, vars2, g2, idx2 in ws:
                    c = [prime(x) for x in dom_of(vars2)] + dom_of(vars1)
                    if g1 is not True:
                        c.append(g1)
                    if g2 is not True:
                        c.append(prime(g2))
                    c += [to_z3(a) == prime(to_z3(b)) for a, b in zip(idx1, idx2)]
                    collisions.append(z3.And(*c))
                # read (iteration i') / write (iteration i)
                for rbuf, ridx, rg in reads:
                    if rbuf is not buf:
                        continue
                    c = dom_of(vars1) + [prime(dom)]
                    if g1 is not True:
                        c.append(g1)
                    if rg is not True:
                        c.append(prime(rg))
                    c += [to_z3(a) == prime(to_z3(b)) for a, b in zip(idx1, ridx)]
                    collisions.append(z3.And(*c))
            claim = z3.Not(z3.And(i != i_p, z3.Or(*collisions)))
            fn = key[0] or "<module>"
            extra = []
            if A.INJECTIVE:  # flattening terms of both copies need their (guarded) inverse facts
                seen_t = set()
                todo = [claim]
                while todo:
                    x = todo.pop()
                    if x.get_id() in seen_t:
                        continue
                    seen_t.add(x.get_id())
                    if z3.is_app(x) and x.decl().name() in A.INJECTIVE:
                        extra.append(A.injective_axiom(x))
                    todo.extend(x.children())
            ctx.prove(
                f"{fn}/loop{key[1]}.iterations_independent[{buf.name}]",
                claim, extra_premises=extra,
                info={"kind": "independence", "prange": is_prange, "line": st.lineno},
            )

    def exec_invariant_loop(self, st, fr, spec: LoopSpec, rng, target):
        """classic invariant rule: establish, havoc, assume, body, preserve, exit"""
        return spec.run(self, st, fr, rng, target)


class _LocalExplorer:
    def __init__(self):
        self.queue = []

    def enqueue(self, prefix):
        self.queue.append(prefix)


class _Super:
    def __init__(self, cls, obj):
        self.cls, self.obj = cls, obj


class AnchorNotFound(Exception):
    pass


def _super_getattr(interp, sup: _Super, name):
    mro = sup.obj.cls.mro if isinstance(sup.obj, Instance) and sup.obj.cls else sup.cls.mro
    if sup.cls in mro:
        rest = mro[mro.index(sup.cls) + 1 :]
    else:
        rest = sup.cls.mro[1:]
    for c in rest:
        if name in c.members:
            m = c.members[name]
            if isinstance(m, Function):
                return BoundMethod(m, sup.obj)
            if isinstance(m, Property):
                return interp.call_function(m.fget, [sup.obj], {})
            if isinstance(m, ClassMethod):
                return BoundMethod(m.func, sup.obj if isinstance(sup.obj, Class) else sup.obj.cls)
            if isinstance(m, StaticMethod):
                return m.func
    if name == "__init__":
        return lambda *a, **k: None
    raise Unsupported(f"super().{name}")
