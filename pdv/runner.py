"""Obligation discharge, parallel unit execution, evidence, known findings, exit codes."""

from __future__ import annotations

import fnmatch
import hashlib
import json
import multiprocessing as mp
import os
import subprocess
import sys
import tempfile
import time
import traceback

import z3

from . import REPO
from .ctx import Ctx, Obligation, PyRaise
from .interp import AnchorNotFound, Interp
from .values import ScheduleDependence, Unsupported

VERIF = os.path.dirname(os.path.dirname(os.path.abspath(__file__)))
NATIVE_PY = "/venv/bin/python"

QUICK_TIMEOUT_MS = 10_000
THOROUGH_TIMEOUT_MS = 60_000


# ------------------------------------------------------------------------------- solving
def _cvc5_check(smt2: str, timeout_ms: int):
    with tempfile.NamedTemporaryFile("w", suffix=".smt2", delete=False) as fh:
        fh.write("(set-logic ALL)\n" + smt2)
        path = fh.name
    try:
        p = subprocess.run(
            ["/usr/bin/cvc5", "--lang", "smt2", f"--tlimit={timeout_ms}", path],
            capture_output=True, text=True, timeout=timeout_ms / 1000 + 5,
        )
        out = p.stdout.strip().splitlines()
        return out[0] if out else "unknown"
    except Exception:
        return "unknown"
    finally:
        os.unlink(path)


def discharge(ob: Obligation, timeout_ms: int, use_cvc5=False):
    """returns dict(status=proved|refuted|unknown|covered|uncovered, solver, time_s, model)"""
    t0 = time.time()
    s = z3.Solver()
    s.set("timeout", timeout_ms)
    for p in ob.premises:
        s.add(p)
    if ob.kind == "cover":
        s.set("timeout", min(timeout_ms, 3000))
        s.add(ob.claim)
        r = s.check()
        if r == z3.unknown:
            r = _sat_without_definitions(ob, [ob.claim], timeout_ms)
        st = "covered" if r == z3.sat else ("uncovered" if r == z3.unsat else "unknown")
        return {"status": st, "solver": "z3", "time_s": time.time() - t0, "model": None}
    if z3.is_false(ob.claim):
        # a contract clause that is false as a plain fact of the explored path: refuted iff the path is feasible
        r0 = _sat_without_definitions(ob, [], timeout_ms)
        if r0 == z3.sat:
            return {"status": "refuted", "solver": "z3", "time_s": time.time() - t0, "model": "(claim is false on this feasible path)", "model_obj": None}
    s.add(z3.Not(ob.claim))
    s.set("timeout", min(2000, timeout_ms))
    r = z3.unknown if ob.info.get("prefer") == "ratnf" else s.check()
    res = {"solver": "z3", "model": None, "model_obj": None}
    if r == z3.unsat:
        res["status"] = "proved"
    elif r == z3.sat:
        res["status"] = "refuted"
        res["model_obj"] = s.model()
        res["model"] = _model_str(s.model())
    else:
        res["status"] = "unknown"
        res["reason"] = s.reason_unknown() if ob.info.get("prefer") != "ratnf" else "skipped"
        # rational-function normal form (sympy) with z3 side conditions
        from .ratnf import prove_equalities

        try:
            rr = prove_equalities(ob.premises, ob.claim, timeout_ms, rules=ob.info.get("ratnf_rules", ()))
        except Exception as e:  # the fallback must never mask the verdict
            rr = ("unknown", f"ratnf error {type(e).__name__}: {e}")
        if rr[0] == "proved":
            res["status"], res["solver"] = "proved", "ratnf+z3"
        elif rr[0] == "refuted" and _model_refutes(rr[2], ob):
            res["status"], res["solver"] = "refuted", "ratnf+z3"
            res["model"], res["model_obj"] = rr[1], rr[2]
        elif rr[0] == "refuted":
            # the sampled model does not falsify the ORIGINAL obligation: never a verdict
            rr = ("unknown", "sampled counter-model of the rewritten identity does not falsify the original obligation")
            res["reason"] = f"z3: {res['reason']}; ratnf: {rr[1]}"
        else:
            res["reason"] = f"z3: {res['reason']}; ratnf: {rr[1]}"
            s.set("timeout", timeout_ms)
            r = s.check()
            if r == z3.unsat:
                res["status"] = "proved"
            elif r == z3.sat:
                res["status"] = "refuted"
                res["model_obj"] = s.model()
                res["model"] = _model_str(s.model())
            else:
                c = _cvc5_check(s.to_smt2(), timeout_ms)
                if c == "unsat":
                    res["status"], res["solver"] = "proved", "cvc5"
                elif c == "sat":
                    res["status"], res["solver"] = "refuted", "cvc5"
                    res["model"] = "(model available from cvc5 only)"
    if use_cvc5 and res["status"] == "proved" and res["solver"] == "z3" and (sum(map(ord, ob.name)) % 5 == 0):
        # thorough tier: second opinion of cvc5 on a fixed fifth of the obligations, short budget
        c = _cvc5_check(s.to_smt2(), min(timeout_ms, 5000))
        res["cvc5"] = c
        if c == "sat":
            res["status"] = "solver-disagreement"
    res["time_s"] = time.time() - t0
    if res["status"] == "refuted" and _weak_theory(ob):
        # the premises hold only ground instances of the axioms of an abstraction (injective flattening ...):
        # a counter-model of the weakened theory is not a counter-example of the obligation by itself
        res["weak_theory"] = True
    return res


def _weak_theory(ob):
    from .arrays import INJECTIVE

    if ob.info.get("ratnf_rules") or ob.info.get("weak_theory"):
        return True
    if not INJECTIVE:
        return False
    seen, stack = set(), [ob.claim, *ob.premises]
    while stack:
        t = stack.pop()
        if t.get_id() in seen:
            continue
        seen.add(t.get_id())
        if z3.is_app(t):
            if t.decl().name() in INJECTIVE:
                return True
            stack.extend(t.children())
        elif z3.is_quantifier(t):
            stack.append(t.body())
    return False


def _model_refutes(m, ob):
    """guard for the sampling back end: the model must make every (quantifier-free) premise true and the
    original claim false when evaluated with model completion"""
    try:
        if not z3.is_false(m.eval(ob.claim, model_completion=True)):
            return False
        for p in ob.premises:
            if z3.is_quantifier(p):
                continue
            if not z3.is_true(m.eval(p, model_completion=True)):
                return False
        return True
    except Exception:
        return False


def _sat_without_definitions(ob, extra, timeout_ms):
    from .ctx import DEFINITIONAL

    s = z3.Solver()
    s.set("timeout", min(timeout_ms, 5000))
    for p in ob.premises:
        if p.get_id() not in DEFINITIONAL:
            s.add(p)
    for e in extra:
        s.add(e)
    return s.check()


def _model_str(m, limit=4000):
    try:
        s = ", ".join(f"{d.name()}={m[d]}" for d in m.decls())
    except Exception:
        s = str(m)
    return s[:limit]


# ------------------------------------------------------------------------------- units
class Unit:
    """one independently runnable piece of a property's contract suite"""

    def __init__(self, name, fn, prop):
        self.name, self.fn, self.prop = name, fn, prop


class UnitRun:
    """what a unit function gets: creates interpreters, collects obligations and metadata"""

    def __init__(self, unit_name, tier):
        self.unit_name = unit_name
        self.tier = tier
        self.obligations: list[Obligation] = []
        self.functions: dict = {}
        self.dropped: set = set()
        self.notes: list = []
        self.assumptions: list = []
        self.opaque_calls: set = set()
        self.map_loops = 0
        self.prange_loops = 0
        self.interps: list[Interp] = []
        self.extra_results: list = []  # obligations discharged by another back end (lean)

    def interp(self) -> Interp:
        it = Interp(Ctx())
        self.interps.append(it)
        return it

    def absorb(self, it: Interp, prefix=""):
        """collect obligations recorded on an interpreter's context (independence, bounds ...)"""
        ctx = it.ctx
        for ob in ctx.obligations:
            if prefix and not ob.name.startswith(prefix):
                ob.name = prefix + ob.name
            self.obligations.append(ob)
        ctx.obligations = []
        if ctx.auto_bounds:
            claims = []
            for desc, pc, cond in ctx.auto_bounds:
                claims.append(z3.Implies(z3.And(*pc), cond) if pc else cond)
            self.obligations.append(
                Obligation(prefix + "indices_in_bounds", ctx.assumptions, z3.And(*claims), "prove",
                           {"kind": "bounds", "count": len(claims)})
            )
            ctx.auto_bounds = []
        for k, f in it.functions_seen.items():
            self.functions[f"{k[0]}:{k[1]}"] = f.source_hash()
        self.dropped |= it.dropped
        self.notes.extend(ctx.notes)
        self.opaque_calls |= set(ctx.opaque_calls)
        self.map_loops += it.map_loops
        self.prange_loops += it.prange_loops
        it.map_loops = it.prange_loops = 0

    def prove(self, name, premises, claim, info=None):
        self.obligations.append(Obligation(name, premises, claim, "prove", info))

    def cover(self, name, premises, claim=True, info=None):
        self.obligations.append(Obligation(name, premises, z3.BoolVal(True) if claim is True else claim, "cover", info))

    def assume_note(self, text):
        if text not in self.assumptions:
            self.assumptions.append(text)

    def lean_file(self, path, timeout=1500, only=None):
        """lemmas that need induction / finite sums are stated and proved in Lean 4 + Mathlib; the file is checked by
        `lean` on every run and every `theorem` in it is recorded as one obligation (back end lean4+mathlib).  A file
        that does not check leaves its obligations UNDECIDED (it says nothing about the code)."""
        import re

        src = open(path).read()
        names = re.findall(r"^theorem\s+([A-Za-z_][A-Za-z0-9_']*)", src, re.M)
        if only is not None:
            missing = [n for n in only if n not in names]
            names = [n for n in names if n in only] if not missing else []
        sorry = bool(re.search(r"\b(sorry|admit)\b|^\s*axiom\b", re.sub(r"/-.*?-/", "", src, flags=re.S), re.M))
        t0 = time.time()
        try:
            p = subprocess.run(["lean", path], capture_output=True, text=True, timeout=timeout)
            ok, out = p.returncode == 0 and not sorry, (p.stdout + p.stderr)[-1500:]
        except Exception as e:  # lean missing / timeout
            ok, out = False, f"{type(e).__name__}: {e}"
        dt = time.time() - t0
        for n in names:
            self.extra_results.append({"name": f"lean.{n}", "kind": "prove", "status": "proved" if ok else "unknown", "solver": "lean4+mathlib",
                                       "time_s": round(dt / max(1, len(names)), 3), "model": None, "info": {"file": os.path.relpath(path, VERIF)},
                                       **({} if ok else {"reason": ("file contains sorry/admit/axiom; " if sorry else "") + out})})
        if not names:
            self.extra_results.append({"name": "lean.no_theorems_found", "kind": "prove", "status": "unknown", "solver": "lean4+mathlib", "time_s": dt, "model": None, "info": {}, "reason": "no theorem in file"})


def _run_unit(args):
    unit_name, modname, fn_name, tier, timeout_ms = args
    t0 = time.time()
    out = {"unit": unit_name, "results": [], "error": None, "functions": {}, "dropped": [], "notes": [],
           "assumptions": [], "map_loops": 0, "prange_loops": 0}
    try:
        mod = __import__(modname, fromlist=["x"])
        fn = getattr(mod, fn_name) if isinstance(fn_name, str) else fn_name
        ur = UnitRun(unit_name, tier)
        units = dict(mod.UNITS)
        units[unit_name](ur)
        for it in ur.interps:
            ur.absorb(it)
        names = set()
        for ob in ur.obligations:
            base = ob.name
            k = 1
            while ob.name in names:
                k += 1
                ob.name = f"{base}#{k}"
            names.add(ob.name)
            r = discharge(ob, timeout_ms, use_cvc5=(tier == "thorough"))
            rec = {"name": f"{unit_name}/{ob.name}" if not ob.name.startswith(unit_name) else ob.name,
                   "kind": ob.kind, "status": r["status"], "solver": r["solver"], "time_s": round(r["time_s"], 4),
                   "model": r.get("model"), "info": {k: v for k, v in ob.info.items() if not callable(v) and k != "ratnf_rules"}}
            if r["status"] == "refuted" and callable(ob.info.get("replay")) and r.get("model_obj") is not None:
                try:
                    rec["replay"] = ob.info["replay"](r["model_obj"])
                except Exception as e:  # replay construction must never mask the verdict
                    rec["replay_error"] = f"{type(e).__name__}: {e}"
            if r["status"] in ("refuted", "unknown"):
                try:
                    s = z3.Solver()
                    for p in ob.premises:
                        s.add(p)
                    s.add(z3.Not(ob.claim))
                    rec["smt2"] = s.to_smt2()[:20000]
                except Exception:
                    pass
            if r.get("reason"):
                rec["reason"] = r["reason"]
            if r.get("weak_theory"):
                rec["weak_theory"] = True
            out["results"].append(rec)
        for rec in ur.extra_results:
            rec = dict(rec)
            rec["name"] = f"{unit_name}/{rec['name']}"
            out["results"].append(rec)
        out["functions"] = ur.functions
        out["dropped"] = sorted(ur.dropped)
        out["notes"] = sorted(set(ur.notes))
        out["assumptions"] = ur.assumptions
        out["map_loops"], out["prange_loops"] = ur.map_loops, ur.prange_loops
        out["opaque_calls"] = sorted(ur.opaque_calls)
    except ScheduleDependence as e:
        # not a limit of the engine: the kernel itself breaks the independence of nb.prange iterations
        out["results"].append({"name": f"{unit_name}/prange.iterations_independent[scalar carried across iterations]", "kind": "prove", "status": "refuted",
                               "solver": "pdv (syntactic data-flow of the loop body)", "time_s": 0.0, "model": str(e), "info": {"kind": "schedule"}})
    except Unsupported as e:
        out["error"] = {"kind": "unsupported", "msg": str(e)}
    except AnchorNotFound as e:
        out["error"] = {"kind": "anchor-not-found", "msg": str(e)}
    except PyRaise as e:
        out["error"] = {"kind": "unexpected-exception-in-verified-code", "msg": str(e)}
    except Exception as e:
        out["error"] = {"kind": "crash", "msg": f"{type(e).__name__}: {e}", "tb": traceback.format_exc()[-3000:]}
    out["wall_s"] = round(time.time() - t0, 3)
    return out


def run_units(modname, unit_names, tier, jobs=None):
    timeout_ms = THOROUGH_TIMEOUT_MS if tier == "thorough" else QUICK_TIMEOUT_MS
    jobs = jobs or min(16, os.cpu_count() or 4)
    args = [(u, modname, None, tier, timeout_ms) for u in unit_names]
    if jobs == 1 or len(args) == 1:
        return [_run_unit(a) for a in args]
    ctx = mp.get_context("fork")
    with ctx.Pool(jobs, maxtasksperchild=20) as pool:
        return list(pool.imap_unordered(_run_unit, args, chunksize=1))


# ------------------------------------------------------------------------------- native replay
def native(script, payload, timeout=600, disable_jit=None):
    """run a native driver under the repository's python; returns parsed JSON of its last line"""
    jit_off = os.environ.get("PDV_NUMBA_DISABLE_JIT", "0") if disable_jit is None else ("1" if disable_jit else "0")
    p = subprocess.run(
        [NATIVE_PY, os.path.join(VERIF, "pdv", "native", script)],
        input=json.dumps(payload), capture_output=True, text=True, timeout=timeout, cwd=REPO,
        env={**os.environ, "PYTHONPATH": REPO, "NUMBA_DISABLE_JIT": jit_off},
    )
    lines = [l for l in p.stdout.strip().splitlines() if l.startswith("{")]
    if not lines:
        return {"ok": False, "error": "native driver produced no result", "stdout": p.stdout[-2000:], "stderr": p.stderr[-3000:]}
    try:
        return json.loads(lines[-1])
    except Exception as e:
        return {"ok": False, "error": f"bad json from native driver: {e}", "stdout": p.stdout[-2000:]}


# ------------------------------------------------------------------------------- known findings
def load_known_findings():
    path = os.path.join(VERIF, "known_findings.json")
    if not os.path.exists(path):
        return []
    return json.load(open(path))


def match_known(prop, name, findings):
    for f in findings:
        if f.get("status") != "known" or f.get("property") != prop:
            continue
        # only * and ? are wildcards: obligation names contain brackets, which fnmatch would read as character classes
        pat = "".join("[[]" if ch == "[" else "[]]" if ch == "]" else ch for ch in f.get("obligation", ""))
        if fnmatch.fnmatchcase(name, pat):
            return f
    return None
