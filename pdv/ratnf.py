"""Third back end: rational-function normal form (sympy) for identities z3's nlsat does not settle.

For a claim  lhs == rhs  between real terms built from + - * / numerals and atoms (uninterpreted
constants / applications), under premises P:
  1. every ``If(c, a, b)`` is resolved by asking z3 whether P => c or P => not c (linear queries);
  2. lhs - rhs is brought to the normal form num/den over the atoms (sympy.cancel); if num is the zero
     polynomial the identity holds wherever all divisors are non-zero;
  3. each divisor d that occurred is shown non-zero by z3:  P => d != 0.
If num is not the zero polynomial, random rational values for the real atoms are tried to get a
counter-model that z3 then confirms against P (ground query).
"""

from __future__ import annotations

import random
from fractions import Fraction

import sympy
import z3


class NotRational(Exception):
    pass


def _resolve_ifs(t, premises, timeout_ms):
    """replace If-terms whose condition is decided by the premises"""
    cache = {}
    s = z3.Solver()
    s.set("timeout", timeout_ms)
    for p in premises:
        s.add(p)

    def decide(c):
        s.push()
        s.add(z3.Not(c))
        r1 = s.check()
        s.pop()
        if r1 == z3.unsat:
            return True
        s.push()
        s.add(c)
        r2 = s.check()
        s.pop()
        if r2 == z3.unsat:
            return False
        return None

    def rec(e):
        k = e.get_id()
        if k in cache:
            return cache[k]
        if z3.is_app_of(e, z3.Z3_OP_ITE):
            c, a, b = e.children()
            d = decide(c)
            if d is True:
                r = rec(a)
            elif d is False:
                r = rec(b)
            else:
                raise NotRational("undecided If condition")
        elif e.num_args() == 0:
            r = e
        else:
            ch = [rec(x) for x in e.children()]
            r = e.decl()(*ch) if ch else e
        cache[k] = r
        return r

    return rec(t)


class _Tr:
    def __init__(self):
        self.atoms = {}  # sexpr -> (sympy symbol, z3 term)
        self.divisors = []  # z3 terms

    def atom(self, e):
        if e.num_args() > 0:
            e = e.decl()(*[z3.simplify(c) for c in e.children()])
        key = e.sexpr()
        if key not in self.atoms:
            self.atoms[key] = (sympy.Symbol(f"a{len(self.atoms)}", real=True), e)
        return self.atoms[key][0]

    def tr(self, e):
        if z3.is_rational_value(e):
            return sympy.Rational(e.numerator_as_long(), e.denominator_as_long())
        if z3.is_int_value(e):
            return sympy.Integer(e.as_long())
        k = e.decl().kind()
        ch = e.children()
        if k == z3.Z3_OP_ADD:
            return sympy.Add(*[self.tr(c) for c in ch])
        if k == z3.Z3_OP_MUL:
            return sympy.Mul(*[self.tr(c) for c in ch])
        if k == z3.Z3_OP_SUB:
            r = self.tr(ch[0])
            for c in ch[1:]:
                r = r - self.tr(c)
            return r
        if k == z3.Z3_OP_UMINUS:
            return -self.tr(ch[0])
        if k == z3.Z3_OP_DIV:
            self.divisors.append(ch[1])
            return self.tr(ch[0]) / self.tr(ch[1])
        if k == z3.Z3_OP_TO_REAL:
            return self.tr(ch[0])
        if k == z3.Z3_OP_POWER:
            if z3.is_int_value(ch[1]) or (z3.is_rational_value(ch[1]) and ch[1].denominator_as_long() == 1):
                n = ch[1].numerator_as_long() if z3.is_rational_value(ch[1]) else ch[1].as_long()
                if n < 0:
                    self.divisors.append(ch[0])
                return self.tr(ch[0]) ** n
            return self.atom(e)
        if k == z3.Z3_OP_ITE:
            raise NotRational("If term")
        # uninterpreted constants / applications and anything else: opaque atom
        return self.atom(e)


def prove_equalities(premises, claim, timeout_ms=10000):
    """claim: an equality between reals or a conjunction of such.  Returns
    ('proved', None) | ('refuted', model_str, assignment) | ('unknown', reason)"""
    eqs = []

    def split(c):
        if z3.is_and(c):
            for x in c.children():
                split(x)
        elif z3.is_eq(c) and z3.is_arith(c.children()[0]):
            eqs.append(c)
        else:
            raise NotRational(f"claim is not an arithmetic equality: {c.decl().name()}")

    try:
        split(claim)
        for eq in eqs:
            lhs, rhs = eq.children()
            lhs = z3.simplify(_resolve_ifs(lhs, premises, timeout_ms), som=False)
            rhs = z3.simplify(_resolve_ifs(rhs, premises, timeout_ms), som=False)
            tr = _Tr()
            d = tr.tr(lhs) - tr.tr(rhs)
            num = sympy.numer(sympy.cancel(sympy.together(d)))
            num = sympy.expand(num)
            if num != 0:
                wit = _search_counter_model(premises, lhs, rhs, tr, timeout_ms)
                if wit is not None:
                    return ("refuted", wit[0], wit[1])
                return ("unknown", "normal form is not zero and no counter-model was found by sampling")
            # divisors non-zero
            s = z3.Solver()
            s.set("timeout", timeout_ms)
            for p in premises:
                s.add(p)
            seen = set()
            for dv in tr.divisors:
                if dv.get_id() in seen:
                    continue
                seen.add(dv.get_id())
                if z3.is_rational_value(dv) or z3.is_int_value(dv):
                    continue
                s.push()
                s.add(dv == 0)
                r = s.check()
                s.pop()
                if r != z3.unsat:
                    return ("unknown", f"divisor not shown non-zero: {dv.sexpr()[:200]}")
        return ("proved", None)
    except NotRational as e:
        return ("unknown", str(e))


def _search_counter_model(premises, lhs, rhs, tr, timeout_ms, tries=20):
    rnd = random.Random(12345)
    atoms = list(tr.atoms.values())
    for _ in range(tries):
        s = z3.Solver()
        s.set("timeout", timeout_ms)
        for p in premises:
            s.add(p)
        for _sym, term in atoms:
            if z3.is_real(term):
                v = Fraction(rnd.randint(1, 40), rnd.choice([1, 2, 4, 5, 8]))
                if rnd.random() < 0.3:
                    v = -v
                s.add(term == z3.RealVal(v))
        s.add(lhs != rhs)
        if s.check() == z3.sat:
            m = s.model()
            return (", ".join(f"{d.name()}={m[d]}" for d in m.decls())[:4000], m)
    return None
