"""Third back end: rational-function normal form (sympy) for identities z3's nlsat does not settle.

For a claim  lhs == rhs  between real terms built from + - * / numerals and atoms (uninterpreted
constants / applications), under premises P:
  1. every ``If(c, a, b)`` is resolved by asking z3 whether P => c or P => not c (linear queries);
  2. lhs - rhs is brought to the normal form num/den over the atoms (sympy.cancel); if num is the zero
     polynomial the identity holds wherever all divisors are non-zero;
  3. each divisor d that occurred is shown non-zero by z3:  P => d != 0.
If num is not the zero polynomial, random rational values for the real atoms are tried to get a
counter-model that z3 then confirms against P (ground query).
"""

from __future__ import annotations

import os
import random
from fractions import Fraction

import sympy
import z3


class NotRational(Exception):
    pass


class Undecided(Exception):
    def __init__(self, cond):
        super().__init__("undecided If condition")
        self.cond = cond


def _resolve_ifs(t, premises, timeout_ms):
    """replace If-terms whose condition is decided by the premises"""
    cache = {}
    s = z3.Solver()
    s.set("timeout", timeout_ms)
    for p in premises:
        s.add(p)

    def decide(c):
        s.push()
        s.add(z3.Not(c))
        r1 = s.check()
        s.pop()
        if r1 == z3.unsat:
            return True
        s.push()
        s.add(c)
        r2 = s.check()
        s.pop()
        if r2 == z3.unsat:
            return False
        return None

    def rec(e):
        k = e.get_id()
        if k in cache:
            return cache[k]
        if z3.is_app_of(e, z3.Z3_OP_ITE):
            c, a, b = e.children()
            d = decide(c)
            if d is True:
                r = rec(a)
            elif d is False:
                r = rec(b)
            else:
                raise Undecided(c)
        elif e.num_args() == 0:
            r = e
        else:
            ch = [rec(x) for x in e.children()]
            r = e.decl()(*ch) if ch else e
        cache[k] = r
        return r

    return rec(t)


class _Tr:
    def __init__(self, solver=None):
        self.atoms = {}  # sexpr -> (sympy symbol, z3 term)
        self.divisors = []  # z3 terms
        self.solver = solver  # premises loaded: used to merge atoms whose arguments are provably equal

    def atom(self, e):
        if e.num_args() > 0:
            e = e.decl()(*[z3.simplify(c) for c in e.children()])
        key = e.sexpr()
        if key not in self.atoms and self.solver is not None and e.num_args() > 0:
            for k2, (sym, t2) in self.atoms.items():
                if t2.num_args() == e.num_args() and t2.decl().eq(e.decl()):
                    self.solver.push()
                    self.solver.add(z3.Or(*[a != b for a, b in zip(e.children(), t2.children())]))
                    same = self.solver.check() == z3.unsat
                    self.solver.pop()
                    if same:
                        self.atoms[key] = (sym, e)
                        return sym
        if key not in self.atoms:
            self.atoms[key] = (sympy.Symbol(f"a{len(self.atoms)}", real=True), e)
        return self.atoms[key][0]

    def tr(self, e):
        if z3.is_rational_value(e):
            return sympy.Rational(e.numerator_as_long(), e.denominator_as_long())
        if z3.is_int_value(e):
            return sympy.Integer(e.as_long())
        k = e.decl().kind()
        ch = e.children()
        if k == z3.Z3_OP_ADD:
            return sympy.Add(*[self.tr(c) for c in ch])
        if k == z3.Z3_OP_MUL:
            return sympy.Mul(*[self.tr(c) for c in ch])
        if k == z3.Z3_OP_SUB:
            r = self.tr(ch[0])
            for c in ch[1:]:
                r = r - self.tr(c)
            return r
        if k == z3.Z3_OP_UMINUS:
            return -self.tr(ch[0])
        if k == z3.Z3_OP_DIV:
            self.divisors.append(ch[1])
            return self.tr(ch[0]) / self.tr(ch[1])
        if k == z3.Z3_OP_TO_REAL:
            return self.tr(ch[0])
        if k == z3.Z3_OP_POWER:
            if z3.is_int_value(ch[1]) or (z3.is_rational_value(ch[1]) and ch[1].denominator_as_long() == 1):
                n = ch[1].numerator_as_long() if z3.is_rational_value(ch[1]) else ch[1].as_long()
                if n < 0:
                    self.divisors.append(ch[0])
                return self.tr(ch[0]) ** n
            return self.atom(e)
        if k == z3.Z3_OP_ITE:
            raise NotRational("If term")
        # uninterpreted constants / applications and anything else: opaque atom
        return self.atom(e)


def prove_equalities(premises, claim, timeout_ms=10000, depth=0, rules=()):
    """case-splitting wrapper: an If condition the premises do not decide splits the proof in two"""
    try:
        return _prove_equalities(premises, claim, timeout_ms, rules)
    except Undecided as u:
        if depth >= int(os.environ.get("PDV_RATNF_DEPTH", "48")):
            return ("unknown", "too many undecided If conditions")
        r1 = prove_equalities(list(premises) + [u.cond], claim, timeout_ms, depth + 1, rules)
        if r1[0] != "proved":
            return r1
        return prove_equalities(list(premises) + [z3.Not(u.cond)], claim, timeout_ms, depth + 1, rules)


def _prove_equalities(premises, claim, timeout_ms=10000, rules=()):
    """claim: an equality between reals or a conjunction of such.  Returns
    ('proved', None) | ('refuted', model_str, assignment) | ('unknown', reason)"""
    eqs = []

    def split(c):
        if z3.is_and(c):
            for x in c.children():
                split(x)
        elif z3.is_eq(c) and z3.is_arith(c.children()[0]):
            eqs.append(c)
        else:
            raise NotRational(f"claim is not an arithmetic equality: {c.decl().name()}")

    try:
        split(claim)
        for eq in eqs:
            lhs, rhs = eq.children()
            lhs = z3.simplify(_unflatten(_resolve_ifs(lhs, premises, timeout_ms), premises, timeout_ms), som=False)
            rhs = z3.simplify(_unflatten(_resolve_ifs(rhs, premises, timeout_ms), premises, timeout_ms), som=False)
            lhs, rhs = _apply_function_definitions(lhs, rules), _apply_function_definitions(rhs, rules)
            defs = _definitional_premises(premises)
            for _ in range(4 if defs else 0):
                lhs = z3.simplify(z3.substitute(lhs, *defs), som=False)
                rhs = z3.simplify(z3.substitute(rhs, *defs), som=False)
            ms = z3.Solver()
            ms.set("timeout", timeout_ms)
            for p in premises:
                ms.add(p)
            tr = _Tr(ms)
            d = tr.tr(lhs) - tr.tr(rhs)
            num = sympy.numer(sympy.cancel(sympy.together(d)))
            num = sympy.expand(num)
            if num != 0:
                num = _reduce_modulo_equalities(num, premises, tr)
            if num != 0:
                wit = _search_counter_model(premises, lhs, rhs, tr, timeout_ms, only=num.free_symbols)
                if wit is not None:
                    return ("refuted", wit[0], wit[1])
                return ("unknown", "normal form is not zero and no counter-model was found by sampling")
            # divisors non-zero
            s = z3.Solver()
            s.set("timeout", timeout_ms)
            for p in premises:
                s.add(p)
            seen = set()
            for dv in tr.divisors:
                if dv.get_id() in seen:
                    continue
                seen.add(dv.get_id())
                if z3.is_rational_value(dv) or z3.is_int_value(dv):
                    continue
                s.push()
                s.add(dv == 0)
                r = s.check()
                s.pop()
                if r != z3.unsat:
                    return ("unknown", f"divisor not shown non-zero: {dv.sexpr()[:200]}")
        return ("proved", None)
    except NotRational as e:
        return ("unknown", str(e))


def _unflatten(t, premises, timeout_ms):
    """rewrite unflat_j(flat(a_0..a_n)) -> a_j where the premises give the range guard of the axiom"""
    from .arrays import INJECTIVE

    if not INJECTIVE:
        return t
    inv_of = {}
    for name, (invs, dims) in INJECTIVE.items():
        for j, f in enumerate(invs):
            inv_of[f.name()] = (name, j, dims)
    s = z3.Solver()
    s.set("timeout", timeout_ms)
    for p in premises:
        s.add(p)
    cache = {}

    def rec(e):
        k = e.get_id()
        if k in cache:
            return cache[k]
        if e.num_args() == 0:
            r = e
        else:
            ch = [rec(c) for c in e.children()]
            r = e.decl()(*ch)
            nm = e.decl().name()
            if nm in inv_of and z3.is_app(ch[0]) and ch[0].decl().name() == inv_of[nm][0]:
                _, j, dims = inv_of[nm]
                args = ch[0].children()
                guard = z3.And(*[z3.And(args[m] >= 0, args[m] < dims[m]) for m in range(1, len(args))]) if len(args) > 1 else z3.BoolVal(True)
                s.push()
                s.add(z3.Not(guard))
                ok = s.check() == z3.unsat
                s.pop()
                if ok:
                    r = args[j]
        cache[k] = r
        return r

    return rec(t)


def _reduce_modulo_equalities(num, premises, tr):
    """remainder of the numerator modulo the ideal generated by the arithmetic equalities among the
    premises (zero remainder => the numerator vanishes wherever the premises hold)"""
    polys = []
    todo = list(premises)
    while todo:
        p = todo.pop()
        if z3.is_and(p):
            todo.extend(p.children())
        elif not z3.is_quantifier(p) and z3.is_eq(p) and z3.is_arith(p.children()[0]):
            try:
                a, b = p.children()
                a, b = _unflatten(a, premises, 3000), _unflatten(b, premises, 3000)
                e = sympy.numer(sympy.cancel(sympy.together(tr.tr(z3.simplify(a)) - tr.tr(z3.simplify(b)))))
                e = sympy.expand(e)
                if e != 0 and e.free_symbols:
                    polys.append(e)
            except NotRational:
                continue
    if not polys:
        return num
    try:
        syms = sorted(set().union(*[p.free_symbols for p in polys]) | num.free_symbols, key=str)
        G = sympy.groebner(polys, *syms, order="grevlex")
        _, rem = sympy.reduced(num, list(G), *syms, order="grevlex")
        return sympy.expand(rem)
    except Exception:
        return num


def _apply_function_definitions(t, premises):
    """premises  ForAll k. f(k) == body(k)  (f uninterpreted) are unfolded at every application of f"""
    rules = {}
    for p in premises:
        if z3.is_quantifier(p) and p.is_forall() and z3.is_eq(p.body()):
            a, body = p.body().children()
            if z3.is_app(a) and a.decl().kind() == z3.Z3_OP_UNINTERPRETED and a.num_args() == p.num_vars() and all(z3.is_var(c) for c in a.children()):
                # de Bruijn index of each argument position
                rules[a.decl().name()] = ([z3.get_var_index(c) for c in a.children()], body, p.num_vars())
    if not rules:
        return t
    cache = {}

    def rec(e):
        k = e.get_id()
        if k in cache:
            return cache[k]
        if e.num_args() == 0:
            r = e
        else:
            ch = [rec(c) for c in e.children()]
            nm = e.decl().name()
            if nm in rules and e.decl().kind() == z3.Z3_OP_UNINTERPRETED:
                idxs, body, nv = rules[nm]
                vals = [None] * nv
                for pos, vi in enumerate(idxs):
                    vals[vi] = ch[pos]
                r = z3.substitute_vars(body, *vals)
            else:
                r = e.decl()(*ch)
        cache[k] = r
        return r

    return z3.simplify(rec(t), som=False)


def _definitional_premises(premises):
    """premises of the form  atom == expr  (atom an uninterpreted real application, not occurring in
    expr) are used as rewrite rules before the normal form is computed"""
    out = []
    flat = []
    todo = list(premises)
    while todo:
        p = todo.pop()
        if z3.is_and(p):
            todo.extend(p.children())
        else:
            flat.append(p)
    for p in flat:
        if z3.is_quantifier(p):
            continue
        if z3.is_eq(p) and z3.is_int(p.children()[0]):
            p = z3.simplify(p)
        if z3.is_eq(p):
            a, e = p.children()
            if not (z3.is_app(a) and a.decl().kind() == z3.Z3_OP_UNINTERPRETED) and z3.is_app(e) and e.decl().kind() == z3.Z3_OP_UNINTERPRETED:
                a, e = e, a
            if z3.is_arith(a) and z3.is_app(a) and a.decl().kind() == z3.Z3_OP_UNINTERPRETED:
                a = z3.simplify(a)
                if a.num_args() == 0 and not (z3.is_rational_value(e) or z3.is_int_value(e)):
                    continue
                if a.sexpr() not in e.sexpr():
                    out.append((a, e))
    return out


def _search_counter_model(premises, lhs, rhs, tr, timeout_ms, tries=20, only=None):
    rnd = random.Random(12345)
    atoms = [v for v in tr.atoms.values() if only is None or v[0] in only]
    for _ in range(tries):
        s = z3.Solver()
        s.set("timeout", min(timeout_ms, 3000))
        for p in premises:
            s.add(p)
        for _sym, term in atoms:
            if z3.is_real(term):
                v = Fraction(rnd.randint(1, 40), rnd.choice([1, 2, 4, 5, 8]))
                if rnd.random() < 0.3:
                    v = -v
                s.add(term == z3.RealVal(v))
        s.add(lhs != rhs)
        if s.check() == z3.sat:
            m = s.model()
            return (", ".join(f"{d.name()}={m[d]}" for d in m.decls())[:4000], m)
    return None
