"""Object model of the interpreter: modules, functions, classes, instances."""

from __future__ import annotations

import ast
import hashlib
import os

from . import REPO
from .values import Opaque, Unsupported


class Poison:
    """value of a variable that must not be read (loop-carried dependency, after-loop value)"""

    def __init__(self, why, prange_carried=None):
        self.why = why
        self.prange_carried = prange_carried  # line of the nb.prange loop across whose iterations the value would be carried

    def __repr__(self):
        return f"Poison({self.why})"


class RangeVal:
    def __init__(self, start, stop, step=1):
        self.start, self.stop, self.step = start, stop, step

    def __repr__(self):
        return f"range({self.start}, {self.stop}, {self.step})"


class Function:
    def __init__(self, node, env, module, qualname, cls=None):
        self.node = node  # ast.FunctionDef | ast.Lambda
        self.env = env  # defining Frame or None (module level)
        self.module = module
        self.qualname = qualname
        self.cls = cls  # defining class (for super())
        self.name = getattr(node, "name", "<lambda>")
        self.cache = None  # {"name", "extra_args", "ignore_args"} for @cached_method / @cached_property members

    def __repr__(self):
        return f"<function {self.module.name}:{self.qualname}>"

    def source_hash(self):
        seg = ast.get_source_segment(self.module.source, self.node) or ""
        return hashlib.sha256(seg.encode()).hexdigest()[:16]


def _cache_decorator(st):
    """parameters of pde.tools.cache.cached_method / cached_property decorating a class member, if any"""
    for d in st.decorator_list:
        fn = d.func if isinstance(d, ast.Call) else d
        nm = ast.unparse(fn).split(".")[-1]
        if nm not in ("cached_method", "cached_property"):
            continue
        info = {"kind": nm, "name": st.name, "extra_args": [], "ignore_args": [], "factory": None}
        if isinstance(d, ast.Call):
            for kw in d.keywords:
                try:
                    val = ast.literal_eval(kw.value)
                except Exception:
                    val = "?"
                if kw.arg in ("extra_args", "ignore_args"):
                    info[kw.arg] = [val] if isinstance(val, str) else list(val or [])
                elif kw.arg in ("name", "factory"):
                    info[kw.arg] = val if kw.arg == "factory" or val else st.name
            if d.args:
                info["factory"] = "?"
        return info
    return None


class BoundMethod:
    def __init__(self, func, self_obj):
        self.func, self.self_obj = func, self_obj

    def __repr__(self):
        return f"<bound {self.func!r}>"


class NativeMethod:
    """python callable bound to an interpreter object (used for list.append etc.)"""

    def __init__(self, fn, name=""):
        self.fn, self.name = fn, name

    def __call__(self, *a, **k):
        return self.fn(*a, **k)


class Property:
    def __init__(self, fget, fset=None):
        self.fget, self.fset = fget, fset


class StaticMethod:
    def __init__(self, func):
        self.func = func


class ClassMethod:
    def __init__(self, func):
        self.func = func


class Class:
    def __init__(self, node, module, interp):
        self.node, self.module, self.interp = node, module, interp
        self.name = node.name
        self._bases = None
        self._members = None

    def __repr__(self):
        return f"<class {self.module.name}.{self.name}>"

    @property
    def bases(self):
        if self._bases is None:
            out = []
            for b in self.node.bases:
                if isinstance(b, ast.Subscript):
                    b = b.value  # Base[TypeArgument]: the type argument has no run-time meaning
                try:
                    v = self.interp.eval_in_module(b, self.module)
                except Unsupported:
                    v = Opaque(ast.unparse(b))
                if isinstance(v, Class):
                    out.append(v)
            self._bases = out
        return self._bases

    @property
    def mro(self):
        # depth-first, left-to-right, duplicates keep their last position (good enough for the
        # single-inheritance chains and simple mixins in py-pde)
        order = [self]
        for b in self.bases:
            for c in b.mro:
                if c in order:
                    order.remove(c)
                order.append(c)
        return order

    @property
    def members(self):
        if self._members is None:
            mem = {}
            for st in self.node.body:
                if isinstance(st, ast.FunctionDef):
                    f = Function(st, None, self.module, f"{self.name}.{st.name}", cls=self)
                    decos = [ast.unparse(d) for d in st.decorator_list]
                    f.cache = _cache_decorator(st)
                    if any(d.endswith(".setter") for d in decos):
                        p = mem.get(st.name)
                        if isinstance(p, Property):
                            p.fset = f
                        else:
                            # `@Base.prop.setter` in a subclass: a new property with the inherited getter
                            inherited = None
                            for b in self.bases:
                                m, _ = b.lookup(st.name)
                                if isinstance(m, Property):
                                    inherited = m
                                    break
                            if inherited is None:
                                raise Unsupported(f"setter {self.name}.{st.name} without a property to attach to")
                            mem[st.name] = Property(inherited.fget, f)
                        continue
                    if any(d in ("property", "cached_property", "cached_property()", "hybridmethod") or d.startswith("cached_property") for d in decos):
                        mem[st.name] = Property(f)
                    elif "staticmethod" in decos:
                        mem[st.name] = StaticMethod(f)
                    elif "classmethod" in decos:
                        mem[st.name] = ClassMethod(f)
                    else:
                        mem[st.name] = f
                elif isinstance(st, ast.Assign) and len(st.targets) == 1 and isinstance(st.targets[0], ast.Name):
                    mem[st.targets[0].id] = ("expr", st.value)
                elif isinstance(st, ast.AnnAssign) and isinstance(st.target, ast.Name) and st.value is not None:
                    mem[st.target.id] = ("expr", st.value)
            self._members = mem
        return self._members

    def lookup(self, name):
        for c in self.mro:
            if name in c.members:
                m = c.members[name]
                if isinstance(m, tuple) and m[0] == "expr":
                    m = self.interp.eval_in_module(m[1], c.module)
                    c.members[name] = ("val", m)
                    return m, c
                if isinstance(m, tuple) and m[0] == "val":
                    return m[1], c
                return m, c
        return None, None

    def is_subclass(self, other):
        return other in self.mro


class Instance:
    def __init__(self, cls, attrs=None, name=None, strict=True):
        self.cls = cls  # Class or None
        self.attrs = dict(attrs or {})
        self.name = name or (cls.name if cls else "obj")
        self.strict = strict

    def __repr__(self):
        return f"<{self.name} instance>"


class Module:
    def __init__(self, name, path, interp):
        self.name, self.path, self.interp = name, path, interp
        with open(path) as fh:
            self.source = fh.read()
        self.tree = ast.parse(self.source)
        self.is_pkg = os.path.basename(path) == "__init__.py"
        self._globals = {}
        self._index = None

    def _build_index(self):
        idx = {}

        def scan(stmts):
            for st in stmts:
                if isinstance(st, (ast.FunctionDef, ast.ClassDef)):
                    idx[st.name] = st
                elif isinstance(st, ast.Import):
                    for a in st.names:
                        idx[(a.asname or a.name).split(".")[0]] = st
                elif isinstance(st, ast.ImportFrom):
                    for a in st.names:
                        idx[a.asname or a.name] = st
                elif isinstance(st, ast.Assign):
                    for t in st.targets:
                        if isinstance(t, ast.Name):
                            idx[t.id] = st
                elif isinstance(st, ast.AnnAssign) and isinstance(st.target, ast.Name) and st.value is not None:
                    idx[st.target.id] = st
                elif isinstance(st, ast.Try):
                    scan(st.body)
                elif isinstance(st, ast.If):
                    test = ast.unparse(st.test)
                    if "TYPE_CHECKING" in test:
                        continue
                    scan(st.body)
                    scan(st.orelse)

        scan(self.tree.body)
        self._index = idx

    def has(self, name):
        if self._index is None:
            self._build_index()
        return name in self._index

    def get(self, name):
        if name in self._globals:
            return self._globals[name]
        if self._index is None:
            self._build_index()
        if name not in self._index:
            raise KeyError(name)
        st = self._index[name]
        interp = self.interp
        if isinstance(st, ast.FunctionDef):
            v = Function(st, None, self, st.name)
            for d in st.decorator_list:
                ds = ast.unparse(d)
                if ds.startswith("overload") or ds.startswith("nb.extending.overload"):
                    v = Opaque(f"numba overload registration {st.name}")
        elif isinstance(st, ast.ClassDef):
            v = Class(st, self, interp)
        elif isinstance(st, ast.Import):
            v = None
            for a in st.names:
                bound = (a.asname or a.name).split(".")[0]
                if bound == name:
                    v = interp.import_module(a.name if a.asname else a.name.split(".")[0])
        elif isinstance(st, ast.ImportFrom):
            v = None
            for a in st.names:
                if (a.asname or a.name) == name:
                    v = interp.import_from(self, st.module, st.level, a.name)
        elif isinstance(st, ast.Assign):
            val = interp.eval_in_module(st.value, self)
            v = val
            # tuple targets at module level are not needed
        elif isinstance(st, ast.AnnAssign):
            v = interp.eval_in_module(st.value, self)
        else:
            raise KeyError(name)
        self._globals[name] = v
        return v


def module_path(dotted: str):
    rel = dotted.replace(".", "/")
    for cand in (f"{REPO}/{rel}.py", f"{REPO}/{rel}/__init__.py"):
        if os.path.exists(cand):
            return cand
    return None
