"""Defining updates of the time-stepping schemes (C06, C07, C13) -- pure Python, duck-typed."""


def euler(u, t, dt, F):
    return u + dt * F(u, t)


def rk4(u, t, dt, F):
    k1 = F(u, t)
    k2 = F(u + dt * k1 / 2, t + dt / 2)
    k3 = F(u + dt * k2 / 2, t + dt / 2)
    k4 = F(u + dt * k3, t + dt)
    return u + dt * (k1 + 2 * k2 + 2 * k3 + k4) / 6


def ab2(u, u_prev, t, dt, F):
    """two-step Adams-Bashforth: u_{n+1} = u_n + dt (3/2 F(u_n, t_n) - 1/2 F(u_{n-1}, t_n - dt))"""
    return u + dt * (3 * F(u, t) / 2 - F(u_prev, t - dt) / 2)


def ab2_start(u0, t0, dt, F):
    """fictitious previous state used for the first step"""
    return u0 - dt * F(u0, t0)


def implicit_predictor(u, t, dt, F):
    return u + dt * F(u, t)


def implicit_map(x, u, t, dt, F):
    """fixed-point map of the backward Euler step started at u: x -> u + dt F(x, t+dt)"""
    return u + dt * F(x, t + dt)


def cn_map(x, u, t, dt, F, alpha):
    """fixed-point map of the Crank-Nicolson step with explicit fraction alpha"""
    return alpha * x + (1 - alpha) * (u + dt / 2 * (F(x, t + dt) + F(u, t)))


def euler_maruyama(u, t, dt, F, V, Vd, alpha, vol, xi, sqrt):
    """explicit step of du = F dt + sqrt(V) dW with the drift of the chosen interpretation:
    everything is evaluated at the pre-step state"""
    return u + dt * F(u, t) + sqrt(V(u, t) * dt / vol) * xi + alpha * dt * Vd(u, t) / (2 * vol)


def milstein(u, t, dt, F, V, Vd, alpha, vol, xi, sqrt):
    dW = sqrt(dt) * xi
    return (u + dt * F(u, t) + alpha * dt * Vd(u, t) / (2 * vol) + sqrt(V(u, t) / vol) * dW
            + Vd(u, t) / (4 * vol) * (dW * dW - dt))
