"""Specification of the differential operators (C01, C05) -- pure Python, duck-typed.

The same code is evaluated on z3 terms by the verifier (python3-vt) and on floats by the native
replay / bounded drivers (/venv/bin/python).  Nothing here is derived from the kernels: the
continuum symbol tables are the textbook formulas of the operators for fields that do not depend on
the symmetric coordinates, restricted by the operators' documented symmetry preconditions; the
stencils are obtained from them by the documented discretisation rule
(d/dx -> central / forward / backward difference, d2/dx2 -> three-point second difference) or, for
the conservative spherical operators, by the finite-volume (flux) form.

Component order: grid axes followed by the symmetric axes -- polar (r, phi), spherical
(r, theta, phi), cylindrical (r, z, phi).
"""

V = ("v", None)


def D(a):
    return ("d", a)


def D2(a):
    return ("d2", a)


ONE = lambda g: 1
INV_R = lambda g: 1 / g.r
NEG_INV_R = lambda g: -1 / g.r
TWO_INV_R = lambda g: 2 / g.r
NEG_TWO_INV_R = lambda g: -2 / g.r
FOUR_INV_R = lambda g: 4 / g.r
INV_R2 = lambda g: 1 / (g.r * g.r)
NEG_INV_R2 = lambda g: -1 / (g.r * g.r)
TWO_INV_R2 = lambda g: 2 / (g.r * g.r)
NEG_TWO_INV_R2 = lambda g: -2 / (g.r * g.r)


def grid_layout(kind, dim=None):
    """(number of grid axes, number of vector components)"""
    if kind == "cartesian":
        return dim, dim
    return {"polar": (1, 2), "spherical": (1, 3), "cylindrical": (2, 3)}[kind]


def symbols(kind, op, dim=None):
    """continuum operator as {out_component: [(coefficient(g), in_component, derivative), ...]}"""
    if kind == "cartesian":
        d = dim
        ax = range(d)
        if op == "laplace":
            return {(): [(ONE, (), D2(a)) for a in ax]}
        if op == "gradient":
            return {(a,): [(ONE, (), D(a))] for a in ax}
        if op == "divergence":
            return {(): [(ONE, (a,), D(a)) for a in ax]}
        if op == "vector_gradient":  # out[a][b] = d_b A_a
            return {(a, b): [(ONE, (a,), D(b))] for a in ax for b in ax}
        if op == "vector_laplace":
            return {(a,): [(ONE, (a,), D2(b)) for b in ax] for a in ax}
        if op == "tensor_divergence":  # out[a] = sum_b d_b T_ab
            return {(a,): [(ONE, (a, b), D(b)) for b in ax] for a in ax}
    if kind == "polar":
        if op == "laplace":
            return {(): [(ONE, (), D2(0)), (INV_R, (), D(0))]}
        if op == "gradient":
            return {(0,): [(ONE, (), D(0))], (1,): []}
        if op == "divergence":
            return {(): [(ONE, (0,), D(0)), (INV_R, (0,), V)]}
        if op == "vector_gradient":  # out[a][b] = (nabla_b A)_a
            return {
                (0, 0): [(ONE, (0,), D(0))],
                (0, 1): [(NEG_INV_R, (1,), V)],
                (1, 0): [(ONE, (1,), D(0))],
                (1, 1): [(INV_R, (0,), V)],
            }
        if op == "tensor_divergence":  # out[a] = sum_b (nabla_b T)_ab
            return {
                (0,): [(ONE, (0, 0), D(0)), (INV_R, (0, 0), V), (NEG_INV_R, (1, 1), V)],
                (1,): [(ONE, (1, 0), D(0)), (INV_R, (0, 1), V), (INV_R, (1, 0), V)],
            }
    if kind == "cylindrical":  # axes (r, z); components (r, z, phi)
        lap = lambda c: [(ONE, c, D2(0)), (INV_R, c, D(0)), (ONE, c, D2(1))]
        if op == "laplace":
            return {(): lap(())}
        if op == "gradient":
            return {(0,): [(ONE, (), D(0))], (1,): [(ONE, (), D(1))], (2,): []}
        if op == "divergence":
            return {(): [(ONE, (0,), D(0)), (INV_R, (0,), V), (ONE, (1,), D(1))]}
        if op == "vector_gradient":
            return {
                (0, 0): [(ONE, (0,), D(0))], (0, 1): [(ONE, (0,), D(1))], (0, 2): [(NEG_INV_R, (2,), V)],
                (1, 0): [(ONE, (1,), D(0))], (1, 1): [(ONE, (1,), D(1))], (1, 2): [],
                (2, 0): [(ONE, (2,), D(0))], (2, 1): [(ONE, (2,), D(1))], (2, 2): [(INV_R, (0,), V)],
            }
        if op == "vector_laplace":
            return {
                (0,): lap((0,)) + [(NEG_INV_R2, (0,), V)],
                (1,): lap((1,)),
                (2,): lap((2,)) + [(NEG_INV_R2, (2,), V)],
            }
        if op == "tensor_divergence":
            return {
                (0,): [(ONE, (0, 0), D(0)), (ONE, (0, 1), D(1)), (INV_R, (0, 0), V), (NEG_INV_R, (2, 2), V)],
                (1,): [(ONE, (1, 0), D(0)), (ONE, (1, 1), D(1)), (INV_R, (1, 0), V)],
                (2,): [(ONE, (2, 0), D(0)), (ONE, (2, 1), D(1)), (INV_R, (0, 2), V), (INV_R, (2, 0), V)],
            }
    if kind == "spherical":  # axis r; components (r, theta, phi); fields depend on r only
        if op == "laplace":
            return {(): [(ONE, (), D2(0)), (TWO_INV_R, (), D(0))]}
        if op == "gradient":
            return {(0,): [(ONE, (), D(0))], (1,): [], (2,): []}
        if op == "divergence":  # documented: the theta component is ignored
            return {(): [(ONE, (0,), D(0)), (TWO_INV_R, (0,), V)]}
        if op == "vector_gradient":  # precondition A_theta = A_phi = 0
            t = {(a, b): [] for a in range(3) for b in range(3)}
            t[(0, 0)] = [(ONE, (0,), D(0))]
            t[(1, 1)] = [(INV_R, (0,), V)]
            t[(2, 2)] = [(INV_R, (0,), V)]
            return t
        if op == "tensor_divergence":  # preconditions T_rt = 0, T_tt = T_pp, T_pt = -T_tp
            return {
                (0,): [(ONE, (0, 0), D(0)), (TWO_INV_R, (0, 0), V), (NEG_TWO_INV_R, (2, 2), V)],
                (1,): [(ONE, (1, 0), D(0)), (TWO_INV_R, (1, 0), V)],
                (2,): [(ONE, (2, 0), D(0)), (TWO_INV_R, (2, 0), V), (INV_R, (0, 2), V)],
            }
        if op == "tensor_double_divergence":  # preconditions T_rt = -T_tr, T_tt = T_pp
            return {
                (): [(ONE, (0, 0), D2(0)), (FOUR_INV_R, (0, 0), D(0)), (NEG_TWO_INV_R, (2, 2), D(0)),
                     (TWO_INV_R2, (0, 0), V), (NEG_TWO_INV_R2, (2, 2), V)]
            }
    raise KeyError((kind, op, dim))


OPERATORS = {
    "cartesian": ["laplace", "gradient", "divergence", "vector_gradient", "vector_laplace", "tensor_divergence", "gradient_squared"],
    "polar": ["laplace", "gradient", "divergence", "vector_gradient", "tensor_divergence", "gradient_squared"],
    "cylindrical": ["laplace", "gradient", "divergence", "vector_gradient", "vector_laplace", "tensor_divergence", "gradient_squared"],
    "spherical": ["laplace", "gradient", "divergence", "vector_gradient", "tensor_divergence", "tensor_double_divergence", "gradient_squared"],
}


def _off(num_axes, a, k):
    o = [0] * num_axes
    o[a] = k
    return tuple(o)


def diff1(u, comp, a, g, method):
    """first difference of component ``comp`` along axis a at the current cell"""
    n = g.num_axes
    if method == "central":
        return (u(comp, _off(n, a, 1)) - u(comp, _off(n, a, -1))) / (2 * g.h[a])
    if method == "forward":
        return (u(comp, _off(n, a, 1)) - u(comp, _off(n, a, 0))) / g.h[a]
    if method == "backward":
        return (u(comp, _off(n, a, 0)) - u(comp, _off(n, a, -1))) / g.h[a]
    raise ValueError(method)


def diff2(u, comp, a, g):
    n = g.num_axes
    return (u(comp, _off(n, a, 1)) - 2 * u(comp, _off(n, a, 0)) + u(comp, _off(n, a, -1))) / (g.h[a] * g.h[a])


def discretize(table, u, g, method="central"):
    """apply the documented discretisation rule to a symbol table -> {out_comp: value}"""
    out = {}
    zero = (0,) * g.num_axes
    for oc, terms in table.items():
        val = 0
        for coef, ic, (kind, a) in terms:
            if kind == "v":
                t = u(ic, zero)
            elif kind == "d":
                t = diff1(u, ic, a, g, method)
            else:
                t = diff2(u, ic, a, g)
            val = val + coef(g) * t
        out[oc] = val
    return out


def gradient_squared(u, g, central=True):
    n = g.num_axes
    val = 0
    for a in range(n):
        if central:
            d = diff1(u, (), a, g, "central")
            val = val + d * d
        else:
            df = diff1(u, (), a, g, "forward")
            db = diff1(u, (), a, g, "backward")
            val = val + (df * df + db * db) / 2
    return {(): val}


# ------------------------------------------------------------------ conservative spherical (flux form)
def _shell(g):
    rl, rh = g.r - g.h[0] / 2, g.r + g.h[0] / 2
    vol = (rh * rh * rh - rl * rl * rl) / 3
    return rl, rh, vol


def _face_values(u, comp, method):
    """values at the outer (h) and inner (l) face of the cell"""
    if method == "central":
        return (u(comp, (0,)) + u(comp, (1,))) / 2, (u(comp, (-1,)) + u(comp, (0,))) / 2
    if method == "forward":
        return u(comp, (1,)), u(comp, (0,))
    if method == "backward":
        return u(comp, (0,)), u(comp, (-1,))
    raise ValueError(method)


def spherical_conservative(op, u, g, method="central"):
    rl, rh, vol = _shell(g)
    dr = g.h[0]
    if op == "laplace":
        fh = rh * rh * (u((), (1,)) - u((), (0,))) / dr
        fl = rl * rl * (u((), (0,)) - u((), (-1,))) / dr
        return {(): (fh - fl) / vol}
    if op == "divergence":
        ah, al = _face_values(u, (0,), method)
        return {(): (rh * rh * ah - rl * rl * al) / vol}
    if op == "tensor_divergence":
        th, tl = _face_values(u, (0, 0), "central")
        return {
            (0,): (rh * rh * th - rl * rl * tl) / vol - (rh * rh - rl * rl) / vol * u((2, 2), (0,)),
            (1,): 0,
            (2,): 0,
        }
    if op == "tensor_double_divergence":
        # flux of v_r = d_r T_rr + 2 (T_rr - T_pp) / r through the two faces
        def face(k):  # k = 0: inner face between cells -1,0 ; k = 1: outer face between 0,1
            rf = rl if k == 0 else rh
            d = (u((0, 0), (k,)) - u((0, 0), (k - 1,))) / dr
            trr = (u((0, 0), (k,)) + u((0, 0), (k - 1,))) / 2
            tpp = (u((2, 2), (k,)) + u((2, 2), (k - 1,))) / 2
            return rf * rf * d + 2 * rf * (trr - tpp)

        return {(): (face(1) - face(0)) / vol}
    raise KeyError(op)


def operator_spec(kind, op, u, g, dim=None, method="central", central=True, conservative=False):
    """value of every output component of operator ``op`` at the current cell"""
    if op == "gradient_squared":
        return gradient_squared(u, g, central)
    if kind == "spherical" and conservative and op in ("laplace", "divergence", "tensor_divergence", "tensor_double_divergence"):
        return spherical_conservative(op, u, g, method)
    return discretize(symbols(kind, op, dim), u, g, method)
