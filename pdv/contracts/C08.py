"""C08 -- trackers fire exactly once per scheduled time, also when stopping (DESIGN.md §4, C08).

Per-function contracts on the real TrackerCollection.initialize/handle/finalize (three trackers with
arbitrary next-action times; each tracker may raise StopIteration or FinishedSimulation), the stop paths of
the real controller (harness of C07), and the arithmetic core of the composition lemma for a constant
interval D >= dt (exact arithmetic)."""

from __future__ import annotations

import itertools
from fractions import Fraction

import z3

from ..ctx import PyRaise
from ..objects import Instance
from ..values import INF, Inf, Opaque, fresh_name, round_half_even, to_real, to_z3
from . import C07
from .common import explore_paths, prem_of

PROPERTY = "C08"
MOD = "pde.trackers.base"
K = 3


def _collection(it):
    cls = it.module_attr(it.load_module(MOD), "TrackerCollection")
    log = []
    nxt = [z3.Real(f"next{i}") for i in range(K)]
    new = [z3.Real(f"new_next{i}") for i in range(K)]
    trackers = []
    for i in range(K):
        def handle(state, t, i=i):
            log.append(("handle", i, state, t))
            if it.ctx.branch(z3.Bool(f"tracker{i}_stops")):
                raise PyRaise("FinishedSimulation" if i % 2 == 0 else "StopIteration", (f"tracker {i}",))

        interrupt = Instance(None, {"next": (lambda t, i=i: (log.append(("next", i, t)), new[i])[1])}, name=f"interrupt{i}")
        trackers.append(Instance(None, {"handle": handle, "interrupt": interrupt, "finalize": (lambda info=None, i=i: log.append(("finalize", i))),
                                        "initialize": (lambda field, info=None, i=i: (log.append(("initialize", i)), nxt[i])[1])}, name=f"tracker{i}"))
    coll = Instance(cls, {"trackers": trackers, "tracker_action_times": list(nxt), "time_next_action": z3.Real("old_next_action")})
    return coll, log, nxt, new


def handle_unit(U):
    def body(it):
        coll, log, nxt, new = _collection(it)
        t, atol = z3.Real("t"), z3.Real("atol")
        state = Instance(None, {}, name="state")
        try:
            r = it.call(it.getattr(coll, "handle"), [state, t], {"atol": atol})
            exc = None
        except PyRaise as e:
            r, exc = None, e
        return coll, log, nxt, new, t, atol, state, r, exc

    n_stop = n_ok = 0
    for p, res in enumerate(explore_paths(U, body, max_paths=600)):
        P = prem_of(res.ctx)
        nm = f"handle.path{p}"
        coll, log, nxt, new, t, atol, state, r, exc = res.value
        times = coll.attrs["tracker_action_times"]
        stops = []
        for i in range(K):
            due = t > nxt[i] - atol
            calls = [e for e in log if e[0] == "handle" and e[1] == i]
            nexts = [e for e in log if e[0] == "next" and e[1] == i]
            served = len(calls) == 1 and calls[0][2] is state and len(nexts) == 1
            U.prove(f"{nm}.tracker{i}.served_exactly_once_iff_due_with_(state,t)", P,
                    z3.And(z3.BoolVal(len(calls) <= 1 and len(nexts) == len(calls)), z3.BoolVal(len(calls) == 1) == due,
                           *( [to_z3(to_real(calls[0][3])) == t, to_z3(to_real(nexts[0][2])) == t, z3.BoolVal(calls[0][2] is state)] if served else [])))
            U.prove(f"{nm}.tracker{i}.next_time_updated_iff_served", P, to_z3(times[i]) == z3.If(due, new[i], nxt[i]))
        # order of service follows the tracker order
        order = [e[1] for e in log if e[0] == "handle"]
        U.prove(f"{nm}.served_in_tracker_order", P, z3.BoolVal(order == sorted(order)))
        stopped = [i for i in range(K) if any(str(c).startswith(f"tracker{i}_stops") and z3.is_true(z3.simplify(z3.And(*P) if False else c)) for c in [])]
        if exc is not None:
            n_stop += 1
            U.prove(f"{nm}.stop_is_a_StopIteration_raised_after_all_due_trackers_were_served", P, z3.BoolVal(exc.exc_type in ("StopIteration", "FinishedSimulation")))
        else:
            n_ok += 1
            m = times[0]
            want = z3.If(z3.And(to_z3(times[0]) <= to_z3(times[1]), to_z3(times[0]) <= to_z3(times[2])), to_z3(times[0]),
                         z3.If(to_z3(times[1]) <= to_z3(times[2]), to_z3(times[1]), to_z3(times[2])))
            U.prove(f"{nm}.returns_min_of_next_times", P, z3.And(to_z3(r) == want, to_z3(coll.attrs["time_next_action"]) == want))
            # no tracker asked to stop on this path
            U.prove(f"{nm}.normal_return_means_no_stop_request", P, z3.And(*[z3.Or(z3.Not(t > nxt[i] - atol), z3.Not(z3.Bool(f"tracker{i}_stops"))) for i in range(K)]))
    U.prove("handle.has_normal_and_stopping_paths", [], z3.BoolVal(n_ok >= 1 and n_stop >= 1))


def init_final_unit(U):
    def body(it):
        coll, log, nxt, new = _collection(it)
        r = it.call(it.getattr(coll, "initialize"), [Instance(None, {}, name="field")], {})
        it.call(it.getattr(coll, "finalize"), [], {})
        return coll, log, nxt, r

    for p, res in enumerate(explore_paths(U, body)):
        P = prem_of(res.ctx)
        coll, log, nxt, r = res.value
        U.prove(f"initialize.path{p}.every_tracker_initialised_once_in_order", P, z3.BoolVal([e[1] for e in log if e[0] == "initialize"] == list(range(K))))
        U.prove(f"finalize.path{p}.every_tracker_finalised_once", P, z3.BoolVal([e[1] for e in log if e[0] == "finalize"] == list(range(K))))
        U.prove(f"initialize.path{p}.action_times_are_the_trackers_answers", P, z3.And(*[to_z3(coll.attrs["tracker_action_times"][i]) == nxt[i] for i in range(K)]))
        U.prove(f"initialize.path{p}.returns_min", P, z3.And(*[to_z3(r) <= nxt[i] for i in range(K)], z3.Or(*[to_z3(r) == nxt[i] for i in range(K)])))


def controller_stop_unit(U):
    """stop paths of the real controller: stop reason survives, run ends at that handle, trackers finalised"""
    def handler(info, err, t):
        info["stop_reason"] = "tracker requested stop"
        info["successful"] = False
        return (Opaque("level"), Opaque("msg"))

    n = 0
    for p, res in enumerate(explore_paths(U, lambda it: C07._controller(it, True, stop_handler=handler), max_paths=400)):
        P = prem_of(res.ctx)
        nm = f"controller.path{p}"
        if res.outcome != "return":
            continue
        v = res.value
        g, info = v["ghost"], v["info"]
        if g["stops"] == 0:
            U.prove(f"{nm}.no_stop=>reports_reached_final_time", P, z3.BoolVal(info.get("stop_reason") == "Reached final time"))
            continue
        n += 1
        U.prove(f"{nm}.stop_reason_is_reported_(not_overwritten)", P, z3.BoolVal(info.get("stop_reason") in ("tracker requested stop", "Tracker raised StopIteration") and info.get("stop_reason") != "Reached final time"))
        th, sh, nh = g["handle_at_stop"]
        U.prove(f"{nm}.run_ends_at_the_time_of_the_stopping_handle", P, z3.And(to_z3(to_real(info["t_final"])) == th, v["state"]["val"] == sh))
        U.prove(f"{nm}.every_tracker_is_finalised", P, z3.BoolVal(g["finalized"] == 1))
    U.prove("controller.has_stop_paths", [], z3.BoolVal(n >= 2))


def lemma_composition(U):
    """arithmetic core of the composition lemma (constant interval D >= dt among arbitrary other trackers)"""
    t, nxt, dt, D, o, tend = z3.Reals("t next dt D other t_end")
    inv = t <= nxt + dt / 2
    P = [dt > 0, D >= dt, inv]
    due = t > nxt - dt / 2  # tracker_atol = dt/2
    U.prove("due=>within_half_a_step_of_the_scheduled_time", P + [due], z3.And(t - nxt <= dt / 2, nxt - t < dt / 2))
    nxt2 = nxt + D
    U.prove("due=>next_scheduled_time_is_in_the_future_(no_catch_up_so_no_time_is_skipped)", P + [due], nxt2 > t)
    U.prove("after_handle:t<=next'-dt/2", P + [due], t <= nxt2 - dt / 2)
    # the stepper advances to min(next', other, t_end) in whole steps
    for served in (True, False):
        n2 = nxt2 if served else nxt
        pre = P + ([due] if served else [z3.Not(due)]) + [tend > t]
        target = z3.If(z3.And(n2 <= o, n2 <= tend), n2, z3.If(o <= tend, o, tend))
        q = round_half_even((target - t) / dt)
        steps = z3.If(q >= 1, q, z3.IntVal(1))
        t2 = t + z3.ToReal(steps) * dt
        tag = "served" if served else "not_due"
        U.prove(f"{tag}:invariant_t<=next+dt/2_preserved_for_every_request_of_other_trackers", pre, t2 <= n2 + dt / 2)
        U.prove(f"{tag}:progress_of_at_least_one_step", pre, t2 >= t + dt)
    # final handle at t_end with atol = 1e-6 dt serves a pending time <= t_end
    U.prove("final_handle_serves_pending_time_not_after_t_end", [dt > 0, t <= nxt + dt / 2, nxt <= t], t > nxt - dt / 1000000)
    U.assume_note("composition: induction over the controller iterations with these steps (ghost bookkeeping of the served set is meta-level); frames = floor(T/D)+1 for whole-step ranges follows")


def adaptive_controller_unit(U):
    """clause 'exactly at the scheduled time for adaptive steppers' on the real Controller._run_main_process: the solver is
    adaptive (info['dt_adaptive'] True, info['dt'] = the current adaptive step, arbitrary after every stepper call) and its
    stepper ends exactly at the time it is given (C06 loop contract).  A tracker is served by handle(state, t, atol) when
    t > t_scheduled - atol (handle unit above), so it is served at its scheduled time only if atol does not exceed the
    tolerance within which the controller itself regards a time as reached (its own loop condition): obligation on
    every call of handle inside the loop -- the half-step tolerance of fixed steppers is not allowed here."""
    from ..interp import LoopSpec

    def body(it):
        ctx = it.ctx
        t0, t1 = z3.Real("t_start"), z3.Real("t_end")
        ctx.assume(t1 > t0)
        dt0 = z3.Real("adaptive_dt_at_start")
        ctx.assume(dt0 > 0)
        solver_info = {"dt": dt0, "steps": z3.IntVal(0), "dt_adaptive": True}
        ghost = {"handle_calls": [], "satol": None, "in_loop": False}
        state_obj = Instance(None, {}, name="state")

        def handle(st, t, atol=None):
            ghost["handle_calls"].append((to_z3(to_real(t)), to_z3(to_real(atol)), ghost["satol"], ghost["in_loop"]))
            return z3.Real(fresh_name("t_next_action"))

        def stepper(st, t, t_next):
            d = z3.Real(fresh_name("adaptive_dt"))
            ctx.assume_pc(d > 0)
            solver_info["dt"] = d
            return to_z3(to_real(t_next))  # C06: an adaptive stepper ends at the time it is given

        trackers = Instance(None, {"initialize": lambda st, info=None: None, "handle": handle, "finalize": lambda info=None: None}, name="trackers")
        solver = Instance(None, {"mpi_run": False, "info": solver_info, "make_stepper": lambda state=None, dt=None: stepper}, name="solver")
        cls = it.module_attr(it.load_module("pde.solvers.controller"), "Controller")
        info, diag = {}, {}
        diag["controller"] = info
        ctrl = Instance(cls, {"solver": solver, "trackers": trackers, "t_range": (t0, t1), "info": info, "diagnostics": diag,
                              "_get_current_time": lambda: z3.Real(fresh_name("clock")), "_get_stop_handler": lambda: (lambda err, t: (Opaque("level"), Opaque("msg")))})

        def inv(interp, fr):
            sa, ta = to_z3(to_real(fr.locals["stepper_atol"])), to_z3(to_real(fr.locals["tracker_atol"]))
            ghost["satol"], ghost["in_loop"] = sa, True
            return z3.And(sa > 0, ta <= sa, z3.BoolVal(fr.locals.get("state") is state_obj))

        def havoc(interp, fr):
            fr.locals["t"] = z3.Real(fresh_name("t"))
            fr.locals["stepper_atol"] = z3.Real(fresh_name("satol"))
            fr.locals["tracker_atol"] = z3.Real(fresh_name("tatol"))
            fr.locals["t_next_action"] = Opaque("t_next_action of an earlier iteration")
            solver_info["dt"] = z3.Real(fresh_name("adaptive_dt"))
            ctx.assume_pc(to_z3(solver_info["dt"]) > 0)

        it.loop_specs[("Controller._run_main_process", 1)] = LoopSpec(inv, havoc, "controller.adaptive_loop")
        it.call(it.getattr(ctrl, "_run_main_process"), [state_obj, None], {})
        return ghost

    n = 0
    for p, res in enumerate(explore_paths(U, body, max_paths=200)):
        P = prem_of(res.ctx)
        nm = f"controller[adaptive].path{p}"
        if res.outcome == "cut":
            continue
        if res.outcome != "return":
            U.prove(f"{nm}.returns_normally", P, z3.BoolVal(False), info={"exc": str(res.exc)})
            continue
        n += 1
        for k, (t, atol, satol, in_loop) in enumerate(res.value["handle_calls"]):
            if satol is None:
                continue
            U.prove(f"{nm}.handle{k}.tracker_tolerance_within_the_controller's_own_time_tolerance", P, atol <= satol,
                    info={"replay_payload": {"adaptive_two_trackers": True}})
    U.prove("controller[adaptive].has_return_paths", [], z3.BoolVal(n >= 1))
    U.assume_note("adaptive stepper contract (C06): returns the time it was given; info['dt'] is an arbitrary positive number afterwards; loop invariant: tracker_atol <= stepper_atol")


UNITS = [("TrackerCollection.handle", handle_unit), ("TrackerCollection.initialize_finalize", init_final_unit),
         ("controller.stop_paths", controller_stop_unit), ("controller.adaptive_exact_times", adaptive_controller_unit), ("lemma.composition_arithmetic", lemma_composition)]


def _adaptive_units():
    """clause 'exactly at the scheduled time for adaptive steppers': the controller hands the next scheduled time to the
    stepper as t_end; the adaptive loops (python and numba, generic and Euler) end exactly at t_end -- the C06 loop
    contracts, re-checked here because this property depends on them"""
    from . import C06_adaptive

    keep = ("adaptive.loop.python", "adaptive.loop.numba", "adaptive.euler_loop.python", "adaptive.euler_loop.numba")
    return [(n, f) for n, f in C06_adaptive.UNITS if n in keep]


UNITS += _adaptive_units()
# clause 'genuine simulation times (t_start + n*dt, with the state after n steps)': the time a fixed stepper returns -- which
# the controller hands to the trackers -- is t + steps*dt for the steps it performed: the C06 loop contracts of the fixed
# steppers and of the Adams-Bashforth steppers (python and numba), re-checked here
UNITS += C07._stepper_units()


def bounded(tier, seed):
    from ..runner import native

    res = native("trackers.py", {"seed": seed, "n": 12 if tier == "quick" else 120}, timeout=3000)
    if not res.get("ok"):
        raise RuntimeError(f"native driver failed: {res}")
    return [{"name": "frames_and_stops_in_real_runs", "bound": "adaptive Euler / Runge-Kutta on both backends with two trackers of different intervals (each served at its own scheduled times); random (dt, range, interval D >= dt, extra trackers, stop time / stopping tracker position / exception type) instances on both backends",
             "cases": res["cases"], "failures": res["failures"]}]


TRUSTED = ["tracker stubs: handle may raise, interrupt.next returns an arbitrary real (C09 contract not needed for the per-function clauses)"]
ASSUMPTIONS = ["exact arithmetic; float boundary cases at exactly dt/2 are outside the model", "adaptive steppers (calls exactly at scheduled times) not covered"]
NOT_COVERED = ["StorageTracker / MemoryStorage wiring (C20 and bounded check)", "adaptive steppers below dt_min (the loops raise; outside the real-number model)", "full inductive composition with the served-set ghost state (arithmetic core proved, induction meta-level)"]
