"""C07 -- observation does not perturb; step/time accounting exact (DESIGN.md §4, C07).

Controller._run_main_process is executed symbolically (profiling / logging values are opaque or fresh
reals) with the `while` loop cut by an invariant over the ghost step counter n.  Callee contracts:
 * stepper(state, t, t_next): the loop contract proved in C06 (S3): steps = max(1, round((t_next-t)/dt))
   applications of the one-step map at times t + j*dt, returns t + steps*dt, info['steps'] += steps;
 * trackers.handle(state, t, atol): returns an ARBITRARY real or raises StopIteration, never writes the
   state (read-only trackers) -- "whatever trackers observe it" is this universal quantification.
"""

from __future__ import annotations

from fractions import Fraction

import z3

from ..ctx import PyRaise, mark_definitional
from ..interp import LoopSpec
from ..objects import Instance
from ..values import Opaque, fresh_name, round_half_even, to_real, to_z3
from .common import explore_paths, prem_of

PROPERTY = "C07"
IT = z3.Function("iterate", z3.IntSort(), z3.RealSort())  # ghost: state after n steps from t_start
STEP = z3.Function("step", z3.RealSort(), z3.RealSort(), z3.RealSort())


def _controller(it, whole_range, stop_handler=None):
    ctx = it.ctx
    dt, t0 = z3.Real("dt"), z3.Real("t_start")
    N = z3.Int("N")
    ctx.assume(dt > 0)
    if whole_range:
        ctx.assume(N >= 1)
        t1 = t0 + z3.ToReal(N) * dt
    else:
        t1 = z3.Real("t_end")
        ctx.assume(t1 > t0)
    i_ = z3.Int("i_")
    ctx.assume(mark_definitional(z3.ForAll([i_], z3.Implies(i_ >= 0, IT(i_ + 1) == STEP(IT(i_), t0 + z3.ToReal(i_) * dt)))))
    ghost = {"n": z3.IntVal(0), "handle_calls": [], "stepper_pre": [], "stops": 0, "finalized": 0, "handle_at_stop": None}
    state = {"val": IT(0)}  # the state object: one abstract cell
    state_obj = Instance(None, {"__cell__": state}, name="state")
    solver_info = {"dt": dt, "steps": z3.IntVal(0)}

    def handle(st, t, atol=None):
        ghost["handle_calls"].append((to_z3(to_real(t)), atol, state["val"], ghost["n"]))
        if ctx.branch(z3.Bool(fresh_name("tracker_requests_stop"))):
            ghost["stops"] += 1
            ghost["handle_at_stop"] = (to_z3(to_real(t)), state["val"], ghost["n"])
            raise PyRaise("StopIteration", ("stop",))
        return z3.Real(fresh_name("t_next_action"))

    def stepper(st, t, t_next):
        t, t_next = to_z3(to_real(t)), to_z3(to_real(t_next))
        n = ghost["n"]
        # precondition of the C06 loop contract in terms of the global step lattice
        ctx.prove("stepper.pre:t_on_step_lattice", t == t0 + z3.ToReal(n) * dt)
        ctx.prove("stepper.pre:state_object_is_the_simulation_state", z3.BoolVal(st is state_obj))
        q = round_half_even((t_next - t) / dt)
        steps = z3.If(q >= 1, q, z3.IntVal(1))
        ghost["n"] = n + steps
        state["val"] = IT(n + steps)
        solver_info["steps"] = to_z3(solver_info["steps"]) + steps
        return t + z3.ToReal(steps) * dt

    def finalize(info=None):
        ghost["finalized"] += 1

    trackers = Instance(None, {"initialize": lambda st, info=None: None, "handle": handle, "finalize": finalize}, name="trackers")
    solver = Instance(None, {"mpi_run": False, "info": solver_info, "make_stepper": lambda state=None, dt=None: stepper}, name="solver")
    cls = it.module_attr(it.load_module("pde.solvers.controller"), "Controller")
    info, diag = {}, {}
    diag["controller"] = info
    clock = lambda: z3.Real(fresh_name("clock"))
    ctrl = Instance(cls, {"solver": solver, "trackers": trackers, "t_range": (t0, t1), "info": info, "diagnostics": diag,
                          "_get_current_time": clock,
                          "_get_stop_handler": lambda: ((lambda err, t: stop_handler(info, err, t)) if stop_handler else (lambda err, t: (Opaque("level"), Opaque("msg"))))})

    def inv(interp, fr):
        n = ghost["n"]
        t = to_z3(to_real(fr.locals["t"]))
        c = [n >= 0, t == t0 + z3.ToReal(n) * dt, state["val"] == IT(n), to_z3(solver_info["steps"]) == n,
             to_z3(to_real(fr.locals["stepper_atol"])) == dt / 1000000, to_z3(to_real(fr.locals["tracker_atol"])) == dt / 2,
             z3.BoolVal(fr.locals.get("state") is state_obj)]
        if whole_range:
            c.append(n <= N)
        else:
            # general range: never more than one step beyond the end
            c.append(t < t1 + dt)
        return z3.And(*c)

    def havoc(interp, fr):
        ghost["n"] = z3.Int(fresh_name("n"))
        state["val"] = z3.Real(fresh_name("state"))
        solver_info["steps"] = z3.Int(fresh_name("steps"))
        fr.locals["t"] = z3.Real(fresh_name("t"))
        fr.locals["stepper_atol"] = z3.Real(fresh_name("satol"))
        fr.locals["tracker_atol"] = z3.Real(fresh_name("tatol"))
        fr.locals["t_next_action"] = Opaque("t_next_action of an earlier iteration")
        ghost["handle_at_loop_head"] = len(ghost["handle_calls"])

    it.loop_specs[("Controller._run_main_process", 1)] = LoopSpec(inv, havoc, "controller.loop")
    it.call(it.getattr(ctrl, "_run_main_process"), [state_obj, dt], {})
    return dict(ghost=ghost, state=state, info=info, diag=diag, solver_info=solver_info, dt=dt, t0=t0, t1=t1, N=N)


def _main_unit(whole_range):
    tag = "whole_range" if whole_range else "general_range"

    def unit(U):
        n_fin = n_stop = 0
        for p, res in enumerate(explore_paths(U, lambda it: _controller(it, whole_range), max_paths=400)):
            P = prem_of(res.ctx)
            nm = f"controller[{tag}].path{p}"
            if res.outcome == "cut":
                continue
            if res.outcome != "return":
                U.prove(f"{nm}.returns_normally", P, z3.BoolVal(False), info={"exc": str(res.exc)})
                continue
            v = res.value
            g, info, dt, t0, t1, N = v["ghost"], v["info"], v["dt"], v["t0"], v["t1"], v["N"]
            tf = to_z3(to_real(info["t_final"]))
            n = g["n"]
            U.prove(f"{nm}.every_tracker_is_finalised_once", P, z3.BoolVal(g["finalized"] == 1))
            U.prove(f"{nm}.t_final==t_start+steps*dt", P, z3.And(tf == t0 + z3.ToReal(n) * dt, to_z3(v["solver_info"]["steps"]) == n))
            U.prove(f"{nm}.final_state==steps_applications_of_the_step_map", P, v["state"]["val"] == IT(n))
            stopped_in_loop = info.get("stop_reason") == "Tracker raised StopIteration"
            if stopped_in_loop:
                n_stop += 1
                th, sh, nh = g["handle_at_stop"]
                U.prove(f"{nm}.stop:run_ends_at_the_time_and_state_of_the_stopping_handle", P, z3.And(tf == th, v["state"]["val"] == sh, n == nh))
                continue
            n_fin += 1
            U.prove(f"{nm}.reports_success", P, z3.BoolVal(info.get("successful") is True and info.get("stop_reason") == "Reached final time"))
            if whole_range:
                U.prove(f"{nm}.exactly_N_steps", P, n == N)
                U.prove(f"{nm}.t_final==t_end", P, tf == t1)
                U.prove(f"{nm}.state==step^N(initial)_whatever_the_trackers_return", P, v["state"]["val"] == IT(N))
            else:
                U.prove(f"{nm}.|t_final-t_end|<dt", P, z3.And(tf - t1 < dt, t1 - tf < dt))
            # the final handle: same state object, final time, stepper tolerance
            last = g["handle_calls"][-1] if g["handle_calls"] else None
            U.prove(f"{nm}.final_handle_at_t_final_with_stepper_atol", P,
                    z3.And(last[0] == tf, to_z3(to_real(last[1])) == dt / 1000000, last[2] == v["state"]["val"]) if last else z3.BoolVal(False))
            U.cover(f"{nm}.cover", P)
        U.prove(f"controller[{tag}].has_finishing_and_stopping_paths", [], z3.BoolVal(n_fin >= 1 and n_stop >= 1))
        U.assume_note("stepper contract = C06 (S3) loop contract; trackers.handle returns an arbitrary real or raises StopIteration and does not write the state (read-only trackers)")
        U.assume_note("floating-point rounding of t_start + i*dt and of (t_end - t_start)/dt is outside the real-arithmetic model (bounded stand-in)")

    return unit


def run_copies_initial_state(U):
    def body(it):
        cls = it.module_attr(it.load_module("pde.solvers.controller"), "Controller")
        copies = []
        # the initial state may already hold complex numbers (arbitrary): whatever the code asks about its data
        original = Instance(None, {"data": Instance(None, {"dtype": Opaque("dtype of the initial state")}, name="data of the initial state"),
                                   "dtype": Opaque("dtype of the initial state"), "is_complex": z3.Bool("initial_state_is_complex")}, name="initial_state")
        it.stub_modules["numpy"].attrs["iscomplexobj"] = lambda x: bool(it.ctx.branch(z3.Bool("initial_state_is_complex")))

        def copy(**kw):
            c = Instance(None, {"__copy_of__": original, "kw": kw}, name="copy")
            copies.append(c)
            return c

        original.attrs["copy"] = copy
        passed = []
        cv = z3.Bool("complex_valued")
        pde = Instance(None, {"complex_valued": cv, "__bool__": lambda: True}, name="pde")
        solver = Instance(None, {"pde": pde, "mpi_run": False}, name="solver")
        ctrl = Instance(cls, {"solver": solver})
        it.contracts[("pde.solvers.controller", "Controller._run_serial")] = lambda interp, args, kw: passed.append(args[1]) or args[1]
        r = it.call(it.getattr(ctrl, "run"), [original, z3.Real("dt")], {})
        return original, copies, passed, r

    for p, res in enumerate(explore_paths(U, body)):
        P = prem_of(res.ctx)
        if res.outcome != "return":
            U.prove(f"run.path{p}.returns_normally", P, z3.BoolVal(False), info={"exc": str(res.exc)})
            continue
        original, copies, passed, r = res.value
        ok = len(copies) == 1 and len(passed) == 1 and passed[0] is copies[0] and passed[0] is not original and r is copies[0]
        U.prove(f"run.path{p}.simulation_runs_on_a_copy_of_the_initial_state", P, z3.BoolVal(ok))


def bounded(tier, seed):
    """float rounding of the step count is outside the model: native runs of eq.solve with trackers of
    non-commensurate intervals (labelled bounded)"""
    from ..runner import native

    n = 40 if tier == "quick" else 400
    res = native("accounting.py", {"seed": seed, "n": n}, timeout=3000)
    if not res.get("ok"):
        raise RuntimeError(f"native driver failed: {res}")
    return [{"name": "solve_with_trackers_step_accounting", "bound": f"{n} random (dt, N, t_start, tracker intervals) instances, dt in decimal and binary fractions, both backends; complex-valued equation with real and complex initial states (the run works on a copy); two steppers of different dt made by one solver object (5 solver kinds, both backends)",
             "cases": res["cases"], "failures": res["failures"]}]


UNITS = [
    ("controller.whole_range", _main_unit(True)),
    ("controller.general_range", _main_unit(False)),
    ("controller.run_copies_state", run_copies_initial_state),
]


def _stepper_units():
    """the callee contract of the controller harness -- stepper(state, t, t_next) performs max(1, round((t_next-t)/dt))
    applications of the one-step map at t + j*dt, returns t + steps*dt and adds steps to info['steps'] -- is the C06
    loop contract of the fixed steppers (python and numba) and of the Adams-Bashforth steppers; re-checked here because
    the step / time accounting of this property rests on it"""
    from . import C06

    keep = ("base.fixed_stepper", "numba.fixed_stepper", "adams_bashforth.python", "adams_bashforth.numba")
    return [(f"stepper_contract.{n}", f) for n, f in C06.UNITS if n in keep]


UNITS += _stepper_units()
TRUSTED = ["ghost step counter n and recursion iterate(n) (conservative definitions)", "profiling / datetime / logging statements are interpreted with opaque or fresh values (they never reach a branch that matters: proved by exploring both outcomes)"]
ASSUMPTIONS = ["exact real arithmetic for times (with binary floats and times of the order 1e9 the controller's tolerance 1e-6*dt falls below one ulp and interrupts can cost an extra step: outside the model); round() is banker's rounding as in CPython", "MPI runs (mpi_run=True) are not covered"]
NOT_COVERED = ["bit-identity of the state for autonomous equations follows from state = step^N(initial) independent of the tracker returns; it is not a separate obligation", "adaptive steppers"]
