"""C12 -- grid geometry and coordinate transformations (DESIGN.md §4, C12): arithmetic core."""

from __future__ import annotations

from fractions import Fraction

import z3

from ..arrays import NDArr, fresh_array, sym_array
from ..objects import Instance
from ..values import PI, Opaque, fresh_name, to_real, to_z3
from .common import explore_paths, prem_of

PROPERTY = "C12"
BASE = "pde.grids.base"


def _grid_instance(it, mod, cls, attrs):
    klass = it.module_attr(it.load_module(mod), cls)
    return Instance(klass, attrs)


def discretize_interval(U):
    def body(it):
        lo, hi, N = z3.Real("x_min"), z3.Real("x_max"), z3.Int("N")
        it.ctx.assume(N >= 1)
        it.ctx.assume(lo < hi)
        r = it.call(it.get_function(BASE, "discretize_interval"), [lo, hi, N], {})
        return r, lo, hi, N

    for p, res in enumerate(explore_paths(U, body)):
        P = prem_of(res.ctx)
        (coords, dx), lo, hi, N = res.value
        k = z3.Int("k")
        Pk = P + [k >= 0, k < N]
        U.prove(f"discretize_interval.path{p}.dx==(x_max-x_min)/N", P, to_z3(dx) == (hi - lo) / z3.ToReal(N))
        U.prove(f"discretize_interval.path{p}.centres_at_x_min+(k+1/2)dx", Pk, to_z3(coords.read((k,))) == lo + (z3.ToReal(k) + Fraction(1, 2)) * to_z3(dx))
        U.prove(f"discretize_interval.path{p}.N_centres", P, z3.BoolVal(coords.ndim == 1) if isinstance(coords, NDArr) else z3.BoolVal(False))
        U.prove(f"discretize_interval.path{p}.length", P, to_z3(coords.shape[0]) == N)
        U.prove(f"discretize_interval.path{p}.dx*N==length_and_positive", P, z3.And(to_z3(dx) * z3.ToReal(N) == hi - lo, to_z3(dx) > 0), info={"prefer": "ratnf"})


def normalize_point_unit(num_axes, reflect):
    def unit(U):
        def body(it):
            lo = [z3.Real(f"lo{a}") for a in range(num_axes)]
            hi = [z3.Real(f"hi{a}") for a in range(num_axes)]
            per = [z3.Bool(f"periodic{a}") for a in range(num_axes)]
            for a in range(num_axes):
                it.ctx.assume(lo[a] < hi[a])
            g = _grid_instance(it, BASE, "GridBase", {"num_axes": num_axes, "axes_bounds": tuple((lo[a], hi[a]) for a in range(num_axes)), "periodic": per})
            pt = sym_array("p", (num_axes,))
            p0 = [to_z3(pt.read((a,))) for a in range(num_axes)]
            r = it.call(it.getattr(g, "normalize_point"), [pt], {"reflect": reflect})
            r2 = it.call(it.getattr(g, "normalize_point"), [r.copy() if isinstance(r, NDArr) else r], {"reflect": reflect})
            return r, r2, p0, lo, hi, per

        for p, res in enumerate(explore_paths(U, body)):
            P = prem_of(res.ctx)
            nm = f"normalize_point[{num_axes}d,reflect={reflect}].path{p}"
            if res.outcome != "return":
                U.prove(f"{nm}.returns_normally", P, z3.BoolVal(False), info={"exc": str(res.exc)})
                continue
            r, r2, p0, lo, hi, per = res.value
            for a in range(num_axes):
                q = to_z3(r.read((a,)))
                q2 = to_z3(r2.read((a,)))
                L = hi[a] - lo[a]
                n = z3.ToInt((p0[a] - lo[a]) / L)
                U.prove(f"{nm}.axis{a}.periodic=>inside_[lo,hi)", P + [per[a]], z3.And(q >= lo[a], q < hi[a]))
                U.prove(f"{nm}.axis{a}.periodic=>moved_by_whole_periods", P + [per[a]], q == p0[a] - z3.ToReal(n) * L, info={"prefer": "ratnf"})
                U.prove(f"{nm}.axis{a}.idempotent", P, q2 == q)
                if reflect:
                    m = z3.ToInt((p0[a] - hi[a]) / (2 * L))
                    U.prove(f"{nm}.axis{a}.reflect=>inside_[lo,hi]", P + [z3.Not(per[a])], z3.And(q >= lo[a], q <= hi[a]))
                    U.prove(f"{nm}.axis{a}.reflect=>image_under_reflections", P + [z3.Not(per[a])],
                            z3.Or(q == p0[a] - z3.ToReal(2 * m + 2) * L + 0 * L + 2 * L - 2 * L + 0, q - lo[a] == -(p0[a] - hi[a] - z3.ToReal(2 * m) * L - L), q - lo[a] == (p0[a] - hi[a] - z3.ToReal(2 * m) * L - L)))
                else:
                    U.prove(f"{nm}.axis{a}.nonperiodic=>untouched", P + [z3.Not(per[a])], q == p0[a])
            U.cover(f"{nm}.cover", P)

    return unit


def difference_vector_unit(kind, coords="cartesian"):
    """pairing of periodicity flags with CARTESIAN components, stated per grid class; for Cartesian grids also with the
    points given in grid or cell coordinates (position = lo + cell coordinate * dx)"""

    def unit(U):
        def body(it):
            if kind == "cartesian2":
                dim, num_axes = 2, 2
                mod, cls = "pde.grids.cartesian", "CartesianGrid"
            else:
                dim, num_axes = 3, 2
                mod, cls = "pde.grids.cylindrical", "CylindricalSymGrid"
            lo = [z3.Real(f"lo{a}") for a in range(num_axes)]
            hi = [z3.Real(f"hi{a}") for a in range(num_axes)]
            per = [z3.Bool(f"periodic{a}") for a in range(num_axes)]
            if kind == "cylindrical":
                per[0] = False
            for a in range(num_axes):
                it.ctx.assume(lo[a] < hi[a])
            attrs = {"num_axes": num_axes, "dim": dim, "axes_bounds": tuple((lo[a], hi[a]) for a in range(num_axes)), "periodic": per}
            dx = None
            if coords != "cartesian":
                N = [z3.Int(f"N{a}") for a in range(num_axes)]
                dx = [(hi[a] - lo[a]) / z3.ToReal(N[a]) for a in range(num_axes)]
                for a in range(num_axes):
                    it.ctx.assume(N[a] >= 1)
                attrs.update(shape=tuple(N), discretization=fresh_array("dx", (num_axes,), lambda idx: z3.If(to_z3(idx[0]) == 0, dx[0], dx[1])))
                # contract of CartesianCoordinates: positions are their own Cartesian coordinates
                attrs["c"] = Instance(None, {"pos_to_cart": lambda pts: pts, "pos_from_cart": lambda pts: pts}, name="CartesianCoordinates")
            g = _grid_instance(it, mod, cls, attrs)
            p1, p2 = sym_array("p1", (dim,)), sym_array("p2", (dim,))
            a1 = [to_z3(p1.read((c,))) for c in range(dim)]
            a2 = [to_z3(p2.read((c,))) for c in range(dim)]
            if coords == "cell":  # physical positions of the two points
                a1 = [lo[c] + a1[c] * dx[c] for c in range(dim)]
                a2 = [lo[c] + a2[c] * dx[c] for c in range(dim)]
            r = it.call(it.getattr(g, "difference_vector"), [p1, p2], {"coords": coords})
            return r, a1, a2, lo, hi, per, dim

        for p, res in enumerate(explore_paths(U, body)):
            P = prem_of(res.ctx)
            nm = f"difference_vector[{kind}{'' if coords == 'cartesian' else ',coords=' + coords}].path{p}"
            if res.outcome != "return":
                U.prove(f"{nm}.returns_normally", P, z3.BoolVal(False), info={"exc": str(res.exc)})
                continue
            r, a1, a2, lo, hi, per, dim = res.value
            # which grid axis maps onto Cartesian component c (None: no periodic axis maps onto it)
            axis_of = {0: 0, 1: 1} if kind == "cartesian2" else {0: None, 1: None, 2: 1}
            for c in range(dim):
                d = a2[c] - a1[c]
                got = to_z3(r.read((c,)))
                ax = axis_of[c]
                if ax is None:
                    U.prove(f"{nm}.component{c}.never_wrapped", P, got == d)
                    continue
                L = hi[ax] - lo[ax]
                isper = per[ax] if not isinstance(per[ax], bool) else z3.BoolVal(per[ax])
                n = z3.ToInt((d + L / 2) / L)
                U.prove(f"{nm}.component{c}.periodic=>within_half_period", P + [isper], z3.And(got >= -L / 2, got < L / 2))
                U.prove(f"{nm}.component{c}.periodic=>differs_by_whole_periods_of_its_own_axis", P + [isper], got == d - z3.ToReal(n) * L, info={"prefer": "ratnf"})
                U.prove(f"{nm}.component{c}.nonperiodic=>plain_difference", P + [z3.Not(isper)], got == d)
            U.cover(f"{nm}.cover", P)
        U.assume_note("symmetry of distances and invariance under period shifts follow from 'differs by whole periods, within half a period' (|w(d)| = |w(-d)|, w(d+L) = w(d)); proved as lemma.wrap")

    return unit


def random_point_unit(kind, avoid_center):
    """SphericalSymGridBase.get_random_point (grid coordinates): whatever numbers the generator returns within the
    requested intervals, the radius lies inside the grid, at least boundary_distance away from the outer boundary and,
    with avoid_center, from the inner one (so the point is reported as contained)"""
    from ..values import POW_FN, SQRT_FN

    dim = 2 if kind == "polar" else 3

    def unit(U):
        def body(it):
            r_in, r_out, bd = z3.Real("r_inner"), z3.Real("r_outer"), z3.Real("boundary_distance")
            it.ctx.assume(z3.And(r_in >= 0, r_out > r_in, bd >= 0))
            g = _grid_instance(it, "pde.grids.spherical", "PolarSymGrid" if kind == "polar" else "SphericalSymGrid", {"axes_bounds": ((r_in, r_out),), "dim": dim, "num_axes": 1})
            draws = []

            def uniform(a, b):
                x = z3.Real(f"draw{len(draws)}")
                draws.append((x, to_z3(a), to_z3(b)))
                it.ctx.assume(z3.And(x >= to_z3(a), x < to_z3(b)))
                return x

            gen = Instance(None, {"uniform": uniform}, name="generator")
            it.stub_modules["numpy"].attrs["random"] = Instance(None, {"default_rng": lambda x=None: gen}, name="np.random")
            r = it.call(it.getattr(g, "get_random_point"), [], {"boundary_distance": bd, "coords": "grid", "avoid_center": avoid_center})
            return r, draws, r_in, r_out, bd

        for p, res in enumerate(explore_paths(U, body)):
            P = prem_of(res.ctx)
            nm = f"path{p}"
            if res.outcome == "raise":
                U.prove(f"{nm}.raises_only_when_no_radius_is_admissible", P, z3.And(z3.BoolVal(res.exc.exc_type == "RuntimeError"),
                        z3.Real("r_outer") - z3.Real("boundary_distance") <= z3.Real("r_inner") + (z3.Real("boundary_distance") if avoid_center else 0)))
                continue
            r, draws, r_in, r_out, bd = res.value
            rad = to_z3(r.read((0,))) if hasattr(r, "read") else to_z3(r)
            x = draws[0][0]
            root = SQRT_FN(x) if dim == 2 else POW_FN(x, z3.RealVal(1) / 3)
            root_def = [root >= 0, (root * root == x) if dim == 2 else (root * root * root == x)]
            U.prove(f"{nm}.radius_inside_the_grid", P + root_def, z3.And(rad >= r_in, rad <= r_out))
            U.prove(f"{nm}.radius_keeps_the_distance_from_the_outer_boundary", P + root_def, rad <= r_out - bd)
            if avoid_center:
                U.prove(f"{nm}.radius_keeps_the_distance_from_the_inner_boundary", P + root_def, rad >= r_in + bd)
            U.prove(f"{nm}.one_draw_for_the_radius", P, z3.BoolVal(len(draws) == 1))
        U.assume_note("x ** (1/dim) is the non-negative real root of x >= 0 (axiom: root >= 0, root^dim = x)")

    return unit


def lemma_wrap(U):
    d, L = z3.Reals("d L")
    w = lambda x: x - z3.ToReal(z3.ToInt((x + L / 2) / L)) * L
    P = [L > 0]
    U.prove("wrap_invariant_under_period_shift", P, w(d + L) == w(d))
    U.prove("wrap_invariant_under_negative_period_shift", P, w(d - L) == w(d))
    U.prove("wrap_symmetric_in_magnitude", P, z3.Or(w(-d) == -w(d), z3.And(w(d) == -L / 2, w(-d) == -L / 2)))
    U.prove("wrap_within_half_period", P, z3.And(w(d) >= -L / 2, w(d) < L / 2))


def transform_unit(U):
    """cell <-> grid coordinates of a 2-axis Cartesian-like grid (point_to/from_cartesian not involved)"""
    def body(it):
        lo = [z3.Real("lo0"), z3.Real("lo1")]
        dx = [z3.Real("dx0"), z3.Real("dx1")]
        N = [z3.Int("N0"), z3.Int("N1")]
        for a in range(2):
            it.ctx.assume(dx[a] > 0)
            it.ctx.assume(N[a] >= 1)
        bounds = tuple((lo[a], lo[a] + z3.ToReal(N[a]) * dx[a]) for a in range(2))
        g = _grid_instance(it, BASE, "GridBase", {"num_axes": 2, "dim": 2, "axes_bounds": bounds, "shape": tuple(N),
                                                  "discretization": fresh_array("dx", (2,), lambda idx: z3.If(to_z3(idx[0]) == 0, dx[0], dx[1]))})
        c = sym_array("c", (2,))
        c0 = [to_z3(c.read((a,))) for a in range(2)]
        gc = it.call(it.getattr(g, "transform"), [c, "cell", "grid"], {})
        back = it.call(it.getattr(g, "transform"), [gc, "grid", "cell"], {})
        inside = it.call(it.getattr(g, "contains_point"), [gc], {"coords": "grid"})
        return gc, back, c0, lo, dx, N, inside

    for p, res in enumerate(explore_paths(U, body)):
        P = prem_of(res.ctx)
        nm = f"transform.path{p}"
        if res.outcome != "return":
            U.prove(f"{nm}.returns_normally", P, z3.BoolVal(False), info={"exc": str(res.exc)})
            continue
        gc, back, c0, lo, dx, N, inside = res.value
        for a in range(2):
            U.prove(f"{nm}.axis{a}.cell_to_grid==lo+cell*dx", P, to_z3(gc.read((a,))) == lo[a] + c0[a] * dx[a])
            U.prove(f"{nm}.axis{a}.grid_to_cell_inverts", P, to_z3(back.read((a,))) == c0[a], info={"prefer": "ratnf"})
            k = z3.Int("k")
            U.prove(f"{nm}.axis{a}.centre_k_maps_to_k+1/2", P + [c0[a] == z3.ToReal(k) + Fraction(1, 2)],
                    to_z3(gc.read((a,))) == lo[a] + (z3.ToReal(k) + Fraction(1, 2)) * dx[a])
        want = z3.And(*[z3.And(c0[a] >= 0, c0[a] <= z3.ToReal(N[a])) for a in range(2)])
        U.prove(f"{nm}.contains_point<=>cell_coordinates_in_[0,N]", P, to_z3(inside) == want)


def volume_from_radius_unit(U):
    def body(it):
        r = z3.Real("r")
        f = it.get_function("pde.grids.spherical", "volume_from_radius")
        return [it.call(f, [r], {"dim": d}) for d in (1, 2, 3)], r

    for p, res in enumerate(explore_paths(U, body)):
        P = prem_of(res.ctx)
        (v1, v2, v3), r = res.value
        U.prove(f"volume_from_radius.path{p}.dim1==2r", P, to_z3(v1) == 2 * r)
        U.prove(f"volume_from_radius.path{p}.dim2==pi*r^2", P, to_z3(v2) == PI * r * r)
        U.prove(f"volume_from_radius.path{p}.dim3==4/3*pi*r^3", P, to_z3(v3) == 4 * PI / 3 * r * r * r)


def lemma_cell_volumes_sum(U):
    """telescoping step: shell volumes add up -- vol(r_k+h/2) - vol(r_k-h/2) with r_{k+1} = r_k + h"""
    r, h = z3.Reals("r h")
    for name, vol in (("polar", lambda x: PI * x * x), ("spherical", lambda x: 4 * PI / 3 * x * x * x)):
        cell = lambda rc: vol(rc + h / 2) - vol(rc - h / 2)
        U.prove(f"{name}.two_consecutive_shells_telescope", [h > 0], cell(r) + cell(r + h) == vol(r + 3 * h / 2) - vol(r - h / 2))
    U.assume_note("sum over all cells = volume(r_outer) - volume(r_inner): proved in Lean (lean/Partition.lean: cell_volumes_sum, thorough tier); cell measures proved in C05 (V)")


UNITS = [
    ("discretize_interval", discretize_interval),
    ("normalize_point[1d]", normalize_point_unit(1, False)),
    ("normalize_point[2d]", normalize_point_unit(2, False)),
    ("normalize_point[1d,reflect]", normalize_point_unit(1, True)),
    ("normalize_point[2d,reflect]", normalize_point_unit(2, True)),
    ("difference_vector[cartesian2]", difference_vector_unit("cartesian2")),
    ("difference_vector[cartesian2,coords=grid]", difference_vector_unit("cartesian2", "grid")),
    ("difference_vector[cartesian2,coords=cell]", difference_vector_unit("cartesian2", "cell")),
    ("difference_vector[cylindrical]", difference_vector_unit("cylindrical")),
    *[(f"get_random_point[{k},avoid_center={a}]", random_point_unit(k, a)) for k in ("polar", "spherical") for a in (False, True)],
    ("lemma.wrap", lemma_wrap),
    ("transform", transform_unit),
    ("volume_from_radius", volume_from_radius_unit),
    ("lemma.cell_volumes_sum", lemma_cell_volumes_sum),
]



def lemma_lean_partition(U):
    """the summation step (induction on the number of cells / chunks) in Lean 4 + Mathlib: lean/Partition.lean"""
    import os

    from ..runner import VERIF
    U.lean_file(os.path.join(VERIF, "lean", "Partition.lean"), only=['cell_volumes_sum'])


UNITS = list(UNITS) + [("lemma.lean.partition", lemma_lean_partition)]
THOROUGH_ONLY = set(globals().get("THOROUGH_ONLY", ())) | {"lemma.lean.partition"}

def bounded(tier, seed):
    from ..runner import native

    n = 6 if tier == "quick" else 60
    res = native("geometry.py", {"seed": seed, "n": n}, timeout=3000)
    if not res.get("ok"):
        raise RuntimeError(f"native driver failed: {res}")
    return [{"name": "grid_geometry_on_random_grids", "bound": f"{n} random grids per class (1 cell .. 6 cells, negative / tiny bounds, holes, periodic flags), 8 random points each",
             "cases": res["cases"], "failures": res["failures"]}]


TRUSTED = ["real `%` = x - y*floor(x/y) (Python / NumPy sign convention for positive modulus)"]
ASSUMPTIONS = ["grids enter through GridInv (np.array argument normalisation of the constructors not verified)", "Cartesian<->curvilinear conversions (trigonometry) are covered by the bounded native check only"]
NOT_COVERED = ["point_to/from_cartesian of curvilinear grids, get_random_point, ScalarField.project, Cuboid helpers: bounded native check only"]
