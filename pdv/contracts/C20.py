"""C20 -- in-memory storage returns what was stored, in order (DESIGN.md §4, C20).

The real methods of MemoryStorage / StorageBase run on an instance whose abstract view is the sequence
of (time, buffer) pairs.  Frame contents and time stamps are arbitrary (symbolic); the stores that the
operations start from hold up to two pre-existing frames (the list operations used -- append, indexing,
slicing, clear -- are length generic).  Buffers are heap objects: 'copy' means a different buffer id."""

from __future__ import annotations

import z3

from ..arrays import NDArr, sym_array
from ..objects import Instance
from ..values import Opaque, fresh_name, to_z3
from .common import explore_paths, prem_of

PROPERTY = "C20"
MEM = "pde.storage.memory"
N = z3.Int("n_cells")


def _storage(it, k, write_mode="append"):
    cls = it.module_attr(it.load_module(MEM), "MemoryStorage")
    frames = [sym_array(f"frame{i}", (N,)) for i in range(k)]
    times = [z3.Real(f"t{i}") for i in range(k)]
    grid = Instance(None, {"num_axes": 1, "__eq__": None}, name="grid")
    st = Instance(cls, {"times": list(times), "data": list(frames), "_data_shape": (N,), "_dtype": Opaque("float"), "_grid": grid,
                        "_field": None, "info": {}, "write_mode": write_mode, "_logger": Opaque("logger")})
    return st, frames, times, grid


def _same(a: NDArr, content_reader, j):
    return to_z3(a.read((j,))) == to_z3(content_reader((j,)))


def readonly_append_unit(U):
    """'readonly' disables writing completely: append on such a storage (also without start_writing) raises and
    leaves the frames alone"""
    def body(it):
        it.ctx.assume(N >= 1)
        st, frames, times, grid = _storage(it, 2, write_mode="readonly")
        field = Instance(None, {"data": sym_array("field_data", (N,)), "grid": grid}, name="field")
        try:
            it.call(it.getattr(st, "append"), [field, z3.Real("t_new")], {})
            outcome = "returned"
        except Exception as e:  # PyRaise
            outcome = getattr(e, "exc_type", type(e).__name__)
        return st, frames, outcome

    for p, res in enumerate(explore_paths(U, body)):
        P = prem_of(res.ctx)
        if res.outcome != "return":
            U.prove(f"readonly.append.path{p}.harness", P, z3.BoolVal(False), info={"exc": str(res.exc)})
            continue
        st, frames, outcome = res.value
        U.prove(f"readonly.append.path{p}.raises_RuntimeError", P, z3.BoolVal(outcome == "RuntimeError"), info={"outcome": outcome})
        U.prove(f"readonly.append.path{p}.frames_untouched", P, z3.BoolVal(len(st.attrs["data"]) == 2 and all(a is b for a, b in zip(st.attrs["data"], frames)) and len(st.attrs["times"]) == 2))


def from_fields_unit(U):
    """MemoryStorage.from_fields: the storage is built from the times, one frame per field in order holding the field's
    data at the moment of the call (later changes of the field do not alter it), the first field as template, the info and
    the REQUESTED write mode"""
    def body(it):
        cls = it.module_attr(it.load_module(MEM), "MemoryStorage")
        got = {}

        def ctor(interp, args, kw):
            got["args"], got["kw"] = list(args[1:]), dict(kw)

        it.contracts[(MEM, "MemoryStorage.__init__")] = ctor
        grid = Instance(None, {"__eq__": lambda o: True}, name="grid")
        it.ctx.assume(N >= 1)
        srcs = [sym_array(f"field{i}_data", (N,)) for i in range(3)]
        snaps = [a.frozen() for a in srcs]
        fields = [Instance(None, {"data": srcs[i], "grid": grid}, name=f"field{i}") for i in range(3)]
        times = [z3.Real(f"t{i}") for i in range(3)]
        info = {"key": "value"}
        mode = ("append", "truncate", "readonly", "truncate_once")[0]
        out = []
        for mode in ("append", "truncate", "readonly", "truncate_once"):
            it.call(it.getattr(cls, "from_fields"), [times, fields], {"info": info, "write_mode": mode})
            out.append((mode, got.get("args"), got.get("kw")))
        # later change of the source fields
        for i, a in enumerate(srcs):
            a.assign(slice(None), z3.Real(f"later_value{i}"))
        return out, fields, times, info, snaps

    for p, res in enumerate(explore_paths(U, body)):
        P = prem_of(res.ctx)
        if res.outcome != "return":
            U.prove(f"from_fields.path{p}.returns_normally", P, z3.BoolVal(False), info={"exc": str(res.exc)})
            continue
        out, fields, times, info, snaps = res.value
        for mode, args, kw in out:
            allkw = dict(kw or {})
            names = ["times", "data", "info", "field_obj", "write_mode"]
            for n_, v_ in zip(names, args or []):
                allkw.setdefault(n_, v_)
            U.prove(f"from_fields.path{p}.write_mode_{mode}_is_forwarded", P, z3.BoolVal(allkw.get("write_mode") == mode))
            data = allkw.get("data")
            ok = allkw.get("times") is times and isinstance(data, list) and len(data) == 3 and all(isinstance(d, NDArr) for d in data)
            U.prove(f"from_fields.path{p}[{mode}].times_template_info_and_one_frame_per_field", P,
                    z3.BoolVal(ok and allkw.get("field_obj") is fields[0] and allkw.get("info") is info))
            if ok:
                j = z3.Int("j")
                for i, d in enumerate(data):
                    # the frame is the field's data at the moment of the call, whatever happens to the field later
                    U.prove(f"from_fields.path{p}[{mode}].frame{i}==data_of_field{i}_at_the_call_(later_changes_of_the_field_do_not_alter_it)", P + [j >= 0, j < N],
                            to_z3(d.read((j,))) == to_z3(snaps[i]((j,))), info={"replay_payload": {"from_fields_alias": True}})


def append_unit(U):
    for k in (0, 1, 2):
        def body(it, k=k):
            it.ctx.assume(N >= 1)
            st, frames, times, grid = _storage(it, k)
            src = sym_array("field_data", (N,))
            field = Instance(None, {"data": src, "grid": grid}, name="field")
            snapshot = src.frozen()
            t = z3.Real("t_new")
            it.call(it.getattr(st, "append"), [field, t], {})
            # later change of the source field
            src.assign(slice(None), z3.Real("later_value"))
            return st, frames, times, src, snapshot, t

        for p, res in enumerate(explore_paths(U, body)):
            P = prem_of(res.ctx)
            nm = f"append[{k}_frames].path{p}"
            if res.outcome != "return":
                U.prove(f"{nm}.returns_normally", P, z3.BoolVal(False), info={"exc": str(res.exc)})
                continue
            st, frames, times, src, snapshot, t = res.value
            data, tms = st.attrs["data"], st.attrs["times"]
            j = z3.Int("j")
            Pj = P + [j >= 0, j < N]
            ok = len(data) == k + 1 and len(tms) == k + 1 and all(data[i] is frames[i] for i in range(k))
            U.prove(f"{nm}.view==old_view++[(t, data)]", P, z3.And(z3.BoolVal(ok), *[to_z3(tms[i]) == times[i] for i in range(min(k, len(tms)))], to_z3(tms[-1]) == t if tms else z3.BoolVal(False)))
            if ok and isinstance(data[-1], NDArr):
                U.prove(f"{nm}.stored_frame_is_a_fresh_buffer", P, z3.BoolVal(data[-1].buf is not src.buf and all(data[-1].buf is not f.buf for f in frames)))
                U.prove(f"{nm}.stored_frame_equals_data_at_the_moment_of_appending_even_after_later_writes", Pj, _same(data[-1], snapshot, j))


TMPL: dict = {}


def start_writing_unit(U):
    for mode in ("truncate", "truncate_once", "append", "readonly", "bogus"):
        def body(it, mode=mode):
            it.ctx.assume(N >= 1)
            st, frames, times, grid = _storage(it, 2, write_mode=mode)
            st.attrs["_field"] = Instance(None, {}, name="template_of_an_earlier_session")
            tmpl = Instance(None, {}, name="field_copy")
            field = Instance(None, {"data": sym_array("fd", (N,)), "grid": grid, "dtype": Opaque("float"), "copy": lambda: tmpl,
                                    "attributes_serialized": {"class": "ScalarField"}}, name="field")
            it.call(it.getattr(st, "start_writing"), [field], {})
            TMPL[id(st)] = tmpl
            return st, frames

        for p, res in enumerate(explore_paths(U, body)):
            P = prem_of(res.ctx)
            nm = f"start_writing[{mode}].path{p}"
            if mode in ("readonly", "bogus"):
                U.prove(f"{nm}.raises", P, z3.BoolVal(res.outcome == "raise" and res.exc.exc_type == ("RuntimeError" if mode == "readonly" else "ValueError")))
                continue
            if res.outcome != "return":
                U.prove(f"{nm}.returns_normally", P, z3.BoolVal(False), info={"exc": str(res.exc)})
                continue
            st, frames = res.value
            data, tms = st.attrs["data"], st.attrs["times"]
            U.prove(f"{nm}.template_for_reading_is_a_copy_of_this_session's_field", P, z3.BoolVal(st.attrs.get("_field") is TMPL.get(id(st))))
            if mode == "append":
                U.prove(f"{nm}.view_unchanged", P, z3.BoolVal(len(data) == 2 and data[0] is frames[0] and data[1] is frames[1] and len(tms) == 2 and st.attrs["write_mode"] == "append"))
            elif mode == "truncate":
                U.prove(f"{nm}.view_emptied", P, z3.BoolVal(len(data) == 0 and len(tms) == 0 and st.attrs["write_mode"] == "truncate"))
            else:
                U.prove(f"{nm}.view_emptied_and_mode_becomes_append", P, z3.BoolVal(len(data) == 0 and len(tms) == 0 and st.attrs["write_mode"] == "append"))


def get_field_unit(U):
    def body(it):
        it.ctx.assume(N >= 1)
        st, frames, times, grid = _storage(it, 2)
        fcls = it.module_attr(it.load_module("pde.fields.base"), "FieldBase")
        made = []

        def copy(dtype=None):
            f = Instance(fcls, {"_data_valid": sym_array(fresh_name("copy_buffer"), (N,)), "grid": grid})
            made.append(f)
            return f

        st.attrs["_field"] = Instance(None, {"copy": copy, "dtype": Opaque("float")}, name="template")
        idx = z3.Int("index")
        ci = None
        for cand in (0, 1, -1, -2):
            if it.ctx.branch(idx == cand):
                ci = cand
                break
        r = it.call(it.getattr(st, "_get_field"), [ci if ci is not None else idx], {})
        # later change of the field read back
        r.attrs["_data_valid"].assign(slice(None), z3.Real("later_value"))
        return st, frames, r, ci, made

    n_ok = 0
    for p, res in enumerate(explore_paths(U, body)):
        P = prem_of(res.ctx)
        nm = f"_get_field.path{p}"
        if res.outcome == "raise":
            U.prove(f"{nm}.IndexError_only_out_of_range", P, z3.And(z3.BoolVal(res.exc.exc_type == "IndexError"), z3.Or(z3.Int("index") >= 2, z3.Int("index") < -2)))
            continue
        n_ok += 1
        st, frames, r, ci, made = res.value
        want = frames[ci % 2]
        j = z3.Int("j")
        buf = r.attrs["_data_valid"].buf
        U.prove(f"{nm}.returned_field_has_its_own_buffer", P, z3.BoolVal(len(made) == 1 and r is made[0] and all(buf is not f.buf for f in frames)))
        U.prove(f"{nm}.stored_frames_survive_writes_to_the_field_read_back", P + [j >= 0, j < N],
                z3.And(*[to_z3(st.attrs["data"][i].read((j,))) == to_z3(sym_frame(i)(j)) for i in range(2)]))
        U.prove(f"{nm}.stored_frame_objects_unchanged", P, z3.BoolVal(st.attrs["data"][0] is frames[0] and st.attrs["data"][1] is frames[1]))
    U.prove("_get_field.has_normal_paths", [], z3.BoolVal(n_ok >= 4))


def sym_frame(i):
    f = z3.Function(f"frame{i}", z3.IntSort(), z3.RealSort())
    return lambda j: f(j)


def get_field_content_unit(U):
    """content of the field read back equals the stored frame (before any later write)"""
    def body(it):
        it.ctx.assume(N >= 1)
        st, frames, times, grid = _storage(it, 2)
        fcls = it.module_attr(it.load_module("pde.fields.base"), "FieldBase")
        st.attrs["_field"] = Instance(None, {"copy": lambda dtype=None: Instance(fcls, {"_data_valid": sym_array(fresh_name("copy_buffer"), (N,)), "grid": grid}), "dtype": Opaque("float")}, name="template")
        out = []
        for i in (0, 1, -1):
            out.append(it.call(it.getattr(st, "__getitem__"), [i], {}))
        sl = it.call(it.getattr(st, "__getitem__"), [slice(None)], {})
        n = it.call(it.getattr(st, "__len__"), [], {})
        return out, sl, n

    for p, res in enumerate(explore_paths(U, body)):
        P = prem_of(res.ctx)
        nm = f"__getitem__.path{p}"
        if res.outcome != "return":
            U.prove(f"{nm}.returns_normally", P, z3.BoolVal(False), info={"exc": str(res.exc)})
            continue
        out, sl, n = res.value
        j = z3.Int("j")
        Pj = P + [j >= 0, j < N]
        for i, f in zip((0, 1, -1), out):
            U.prove(f"{nm}.storage[{i}]_has_the_content_of_frame_{i % 2}", Pj, to_z3(f.attrs["_data_valid"].read((j,))) == sym_frame(i % 2)(j))
        U.prove(f"{nm}.slice_returns_all_frames_in_order", Pj,
                z3.And(z3.BoolVal(isinstance(sl, list) and len(sl) == 2), *[to_z3(sl[i].attrs["_data_valid"].read((j,))) == sym_frame(i)(j) for i in range(2)]) if isinstance(sl, list) and len(sl) == 2 else z3.BoolVal(False))
        U.prove(f"{nm}.len==number_of_frames", P, z3.BoolVal(n == 2))


def clear_unit(U):
    def body(it):
        st, frames, times, grid = _storage(it, 2)
        it.call(it.getattr(st, "clear"), [], {})
        return st

    for p, res in enumerate(explore_paths(U, body)):
        P = prem_of(res.ctx)
        st = res.value
        U.prove(f"clear.path{p}.view_emptied_shape_kept", P, z3.BoolVal(st.attrs["data"] == [] and st.attrs["times"] == [] and st.attrs["_data_shape"] is not None))


def extract_time_range_unit(U):
    """every documented way of giving the range: (t_start, t_end), a single number (= everything up to it), a missing bound
    given as None (= unbounded on that side) and no argument at all (= everything); the time stamps are arbitrary (appended
    sessions may restart the clock), so nothing may depend on the first / last stored time being the smallest / largest"""
    for form in ("(t_start,t_end)", "t_end", "(None,t_end)", "(t_start,None)", "no_argument"):
        def body(it, form=form):
            it.ctx.assume(N >= 1)
            st, frames, times, grid = _storage(it, 2)
            made = []

            def MemoryStorage(times=None, data=None, field_obj=None, info=None, **kw):
                made.append((times, data))
                return Instance(None, {"times": times, "data": data}, name="MemoryStorage")

            it.overrides["MemoryStorage"] = MemoryStorage
            a, b = z3.Real("t_start"), z3.Real("t_end")
            it.ctx.assume(a <= b)
            args = {"(t_start,t_end)": [(a, b)], "t_end": [b], "(None,t_end)": [(None, b)], "(t_start,None)": [(a, None)], "no_argument": []}[form]
            it.call(it.getattr(st, "extract_time_range"), args, {})
            return made, frames, times, a, b

        for p, res in enumerate(explore_paths(U, body)):
            P = prem_of(res.ctx)
            nm = f"extract_time_range[{form}].path{p}"
            if res.outcome != "return":
                U.prove(f"{nm}.returns_normally", P, z3.BoolVal(False), info={"exc": str(res.exc)})
                continue
            made, frames, times, a, b = res.value
            (tms, data), = made if len(made) == 1 else ((None, None),)
            if tms is None:
                U.prove(f"{nm}.builds_one_storage", P, z3.BoolVal(False))
                continue
            # frame i is kept  <=>  it lies inside the requested range ; order preserved
            for i in range(2):
                kept = any(d is frames[i] for d in data)
                lo_ok = times[i] >= a if form in ("(t_start,t_end)", "(t_start,None)") else z3.BoolVal(True)
                hi_ok = times[i] <= b if form in ("(t_start,t_end)", "t_end", "(None,t_end)") else z3.BoolVal(True)
                U.prove(f"{nm}.frame{i}_kept<=>inside_the_requested_range", P, z3.BoolVal(kept) == z3.And(lo_ok, hi_ok), info={"replay_payload": {"extract_time_range_form": form}})
            U.prove(f"{nm}.times_and_frames_stay_paired_in_order", P,
                    z3.BoolVal(len(tms) == len(data) and [next(i for i in range(2) if d is frames[i]) for d in data] == sorted(next(i for i in range(2) if d is frames[i]) for d in data))
                    if all(any(d is f for f in frames) for d in data) else z3.BoolVal(False))


def _field_factory(it, grid, made=None):
    """fields as the storage code uses them: real FieldBase.data property/setter on an own buffer; copy()
    yields a field with a fresh buffer of equal content"""
    fcls = it.module_attr(it.load_module("pde.fields.base"), "FieldBase")

    def make(content=None, name="copy_buffer"):
        buf = sym_array(fresh_name(name), (N,))
        if content is not None:
            buf.assign(slice(None), content)
        f = Instance(fcls, {"_data_valid": buf, "grid": grid, "dtype": Opaque("float"), "attributes_serialized": {"class": "ScalarField"}})
        f.attrs["copy"] = lambda dtype=None, label=None, f=f: make(f.attrs["_data_valid"])
        if made is not None:
            made.append(f)
        return f

    return make


def _install_stubs(it):
    it.stub_names["display_progress"] = lambda iterator, total=None, enabled=True, **kw: iterator

    def signature(fn):
        from ..objects import BoundMethod, Function
        if isinstance(fn, BoundMethod):
            a = fn.func.node.args
            return Instance(None, {"parameters": [x.arg for x in a.posonlyargs + a.args][1:]}, name="signature")
        if isinstance(fn, Function):
            a = fn.node.args
            return Instance(None, {"parameters": [x.arg for x in a.posonlyargs + a.args]}, name="signature")
        import inspect
        return Instance(None, {"parameters": list(inspect.signature(fn).parameters)}, name="signature")

    it.stub_names["signature"] = signature


def items_unit(U):
    def body(it):
        it.ctx.assume(N >= 1)
        st, frames, times, grid = _storage(it, 3)
        st.attrs["_field"] = _field_factory(it, grid)()
        items = it.call(it.getattr(st, "items"), [], {})
        fields = it.iterate(st)
        return list(items), list(fields), times

    for p, res in enumerate(explore_paths(U, body)):
        P = prem_of(res.ctx)
        nm = f"items.path{p}"
        if res.outcome != "return":
            U.prove(f"{nm}.returns_normally", P, z3.BoolVal(False), info={"exc": str(res.exc)})
            continue
        items, fields, times = res.value
        j = z3.Int("j")
        Pj = P + [j >= 0, j < N]
        ok = len(items) == 3 and all(isinstance(x, tuple) and len(x) == 2 for x in items)
        U.prove(f"{nm}.one_pair_per_frame", P, z3.BoolVal(ok and len(fields) == 3))
        if ok:
            for i in range(3):
                U.prove(f"{nm}.pair{i}==(time_{i}, frame_{i})", Pj, z3.And(to_z3(items[i][0]) == times[i], to_z3(items[i][1].attrs["_data_valid"].read((j,))) == sym_frame(i)(j)))
                U.prove(f"{nm}.iter{i}==frame_{i}", Pj, to_z3(fields[i].attrs["_data_valid"].read((j,))) == sym_frame(i)(j))
    U.assume_note("generators (items, __iter__) are evaluated eagerly: the consumer does not modify the storage between two yields")


def copy_apply_unit(which):
    def unit(U):
        def body(it):
            it.ctx.assume(N >= 1)
            _install_stubs(it)
            st, frames, times, grid = _storage(it, 2)
            make = _field_factory(it, grid)
            st.attrs["_field"] = make()
            shift = z3.Real("shift")
            if which == "copy":
                out = it.call(it.getattr(st, "copy"), [], {})
            else:
                def func(field, t):
                    from ..arrays import elementwise
                    return make(elementwise(lambda v: to_z3(v) * to_z3(t) + shift, field.attrs["_data_valid"]), name="transformed")
                out = it.call(it.getattr(st, "apply"), [func], {})
            # later change of the source storage's frames
            frames[0].assign(slice(None), z3.Real("later_value"))
            return out, frames, times, shift

        for p, res in enumerate(explore_paths(U, body)):
            P = prem_of(res.ctx)
            nm = f"{which}.path{p}"
            if res.outcome != "return":
                U.prove(f"{nm}.returns_normally", P, z3.BoolVal(False), info={"exc": str(res.exc)})
                continue
            out, frames, times, shift = res.value
            data, tms = out.attrs.get("data"), out.attrs.get("times")
            j = z3.Int("j")
            Pj = P + [j >= 0, j < N]
            ok = isinstance(data, list) and isinstance(tms, list) and len(data) == 2 and len(tms) == 2 and all(isinstance(d, NDArr) for d in data)
            U.prove(f"{nm}.result_has_one_frame_per_source_frame", P, z3.BoolVal(ok))
            if not ok:
                continue
            U.prove(f"{nm}.times_carried_over_in_order", P, z3.And(*[to_z3(tms[i]) == times[i] for i in range(2)]))
            U.prove(f"{nm}.frames_are_fresh_buffers", P, z3.BoolVal(all(d.buf is not f.buf for d in data for f in frames) and data[0].buf is not data[1].buf))
            for i in range(2):
                want = sym_frame(i)(j) if which == "copy" else sym_frame(i)(j) * times[i] + shift
                U.prove(f"{nm}.frame{i}=={'source frame' if which == 'copy' else 'func(source frame, time)'}_even_after_later_writes_to_the_source", Pj, to_z3(data[i].read((j,))) == want)
        U.assume_note("generators (items, __iter__) are evaluated eagerly: the consumer does not modify the storage between two yields")

    return unit


def extract_field_unit(U):
    """collection storage with members scalar (1 component) and vector (2 components): frames of shape (3, N)"""
    def body(it):
        it.ctx.assume(N >= 1)
        cls = it.module_attr(it.load_module(MEM), "MemoryStorage")
        frames = [sym_array(f"cframe{i}", (3, N)) for i in range(2)]
        times = [z3.Real(f"t{i}") for i in range(2)]
        grid = Instance(None, {"num_axes": 1, "__eq__": None}, name="grid")
        member_shapes = [(N,), (2, N)]

        def member(k):
            def copy(dtype=None, label=None):
                return Instance(None, {"data": sym_array(fresh_name("member_copy"), member_shapes[k]), "grid": grid, "label": f"m{k}", "member": k,
                                       "copy": copy}, name=f"member{k}")
            return Instance(None, {"copy": copy, "label": f"m{k}"}, name=f"member{k}")

        coll = Instance(None, {"labels": ["m0", "m1"], "_slices": [slice(0, 1), slice(1, 3)], "__getitem__": lambda k: member(k),
                               "__isinstance__": ("FieldCollection", "FieldBase")}, name="collection_template")
        st = Instance(cls, {"times": list(times), "data": list(frames), "_data_shape": (3, N), "_dtype": Opaque("float"), "_grid": grid,
                            "_field": coll, "info": {}, "write_mode": "append", "_logger": Opaque("logger")})
        which = z3.Int("field_index")
        k = 0 if it.ctx.branch(which == 0) else 1
        key = ("m0", "m1")[k] if it.ctx.branch(z3.Bool("by_label")) else k
        out = it.call(it.getattr(st, "extract_field"), [key], {})
        st.attrs["times"].append(z3.Real("t_later"))
        frames[0].assign((slice(None), slice(None)), z3.Real("later_value"))
        return out, k, times

    for p, res in enumerate(explore_paths(U, body)):
        P = prem_of(res.ctx)
        nm = f"extract_field.path{p}"
        if res.outcome != "return":
            U.prove(f"{nm}.returns_normally", P, z3.BoolVal(False), info={"exc": str(res.exc)})
            continue
        out, k, times = res.value
        data, tms = out.attrs.get("data"), out.attrs.get("times")
        ok = isinstance(data, list) and isinstance(tms, list) and len(data) == 2 and len(tms) == 2 and all(isinstance(d, NDArr) for d in data)
        U.prove(f"{nm}.one_frame_per_source_frame_and_times_unaffected_by_later_appends_to_the_source", P, z3.BoolVal(ok))
        if not ok:
            continue
        U.prove(f"{nm}.times_carried_over_in_order", P, z3.And(*[to_z3(tms[i]) == times[i] for i in range(2)]))
        j, c = z3.Int("j"), z3.Int("c")
        off, ncomp = (0, 1) if k == 0 else (1, 2)
        for i in range(2):
            src = z3.Function(f"cframe{i}", z3.IntSort(), z3.IntSort(), z3.RealSort())
            d = data[i]
            if k == 0:
                U.prove(f"{nm}.frame{i}==rows_of_member_{k}_of_the_stored_frame", P + [j >= 0, j < N],
                        z3.And(z3.BoolVal(d.ndim == 1), to_z3(d.read((j,))) == src(0, j)) if d.ndim == 1 else z3.BoolVal(False))
            else:
                U.prove(f"{nm}.frame{i}==rows_of_member_{k}_of_the_stored_frame", P + [j >= 0, j < N, c >= 0, c < 2],
                        z3.And(z3.BoolVal(d.ndim == 2), to_z3(d.read((c, j))) == src(c + 1, j)) if d.ndim == 2 else z3.BoolVal(False))
        U.prove(f"{nm}.template_is_a_copy_of_member_{k}", P, z3.BoolVal(isinstance(out.attrs.get("_field"), Instance) and out.attrs["_field"].attrs.get("member") == k))


UNITS = [
    ("from_fields", from_fields_unit), ("append", append_unit), ("append[readonly]", readonly_append_unit), ("start_writing", start_writing_unit), ("_get_field.isolation", get_field_unit),
    ("__getitem__.content", get_field_content_unit), ("clear", clear_unit), ("extract_time_range", extract_time_range_unit),
    ("items_and_iteration", items_unit), ("copy", copy_apply_unit("copy")), ("apply", copy_apply_unit("apply")), ("extract_field", extract_field_unit),
]


def bounded(tier, seed):
    from ..runner import native

    n = 60 if tier == "quick" else 600
    res = native("storage.py", {"seed": seed, "n": n}, timeout=3000)
    if not res.get("ok"):
        raise RuntimeError(f"native driver failed: {res}")
    return [{"name": "random_operation_sequences_vs_reference_model", "bound": f"storages built by from_fields from fields and collections (later changes of the sources and of frames read back); {n} random sequences (<= 12 operations) of start_writing/append/end_writing/clear/read/extract on MemoryStorage, single fields and collections, all write modes, mixed dtypes",
             "cases": res["cases"], "failures": res["failures"]}]


TRUSTED = ["heap model: np.array(x) is a fresh buffer, `field._data_valid[...] = x` copies values into the field's own buffer", "Python list operations are length generic"]
ASSUMPTIONS = ["stores of up to two pre-existing frames in the symbolic runs; frame contents, sizes and time stamps arbitrary", "extract_time_range may share buffers with the source (documented)"]
NOT_COVERED = ["StorageView (view_field: storage[key][field_index], a one-line delegation to FieldCollection indexing, C15), from_fields / from_collection constructors, FileStorage / MovieStorage: bounded native check only or out of scope", "dtype casting on append and on reading back (values are mathematical reals in the model; the data type of a frame read back is promoted by _get_field): bounded native check with mixed-dtype sessions only"]
