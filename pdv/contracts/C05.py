"""C05 -- discrete conservation (DESIGN.md §4, C05): lemma over the contracts of C01 (stencils), C02
(ghost relations) and C12 (cell volumes).

 (V) the real cell_volume_data of every grid class is the exact cell measure;
 (K) the real kernels involved equal their stencil specification (the C01 obligations, re-checked here);
 (T) vol_i * Laplace_i(u) = F_{i+1/2} - F_{i-1/2} with the face flux F named below (per axis), and
     vol_i * div_i(A) = G_{i+1/2} - G_{i-1/2};  hence the volume-weighted sum telescopes to boundary fluxes;
 (B) the boundary fluxes vanish under the ghost relation of a zero-derivative (resp. zero normal value)
     condition, at r = 0, and cancel on periodic axes;
 (S) a step of every scheme leaves a linear functional I unchanged when I(rhs(x, t)) = 0 for all x.
"""

from __future__ import annotations

from fractions import Fraction

import z3

from ..objects import Instance
from ..specs import operators as S
from ..specs import steppers as ST
from ..values import PI, to_z3
from . import C01
from .common import CellGeom, SymGrid, explore_paths, prem_of

PROPERTY = "C05"

GRID_MOD = {"cartesian": ("pde.grids.cartesian", "CartesianGrid"), "polar": ("pde.grids.spherical", "PolarSymGrid"),
            "spherical": ("pde.grids.spherical", "SphericalSymGrid"), "cylindrical": ("pde.grids.cylindrical", "CylindricalSymGrid")}


def exact_volume(kind, g: SymGrid, idx, axis=None):
    """exact measure of cell idx (product over axes; per-axis factors as cell_volume_data returns them)"""
    if kind == "cartesian":
        return [g.h[a] for a in range(g.num_axes)]
    r, h = g.coord(0, idx[0]), g.h[0]
    rl, rh = r - h / 2, r + h / 2
    if kind == "polar":
        return [PI * (rh * rh - rl * rl)]
    if kind == "spherical":
        return [4 * PI / 3 * (rh * rh * rh - rl * rl * rl)]
    return [PI * (rh * rh - rl * rl), g.h[1]]


def cellvol_unit(kind, dim):
    def unit(U):
        def body(it):
            num_axes = dim if kind == "cartesian" else S.grid_layout(kind)[0]
            g = SymGrid(kind, num_axes)
            for f in g.facts:
                it.ctx.assume(f)
            mod, cls = GRID_MOD[kind]
            klass = it.module_attr(it.load_module(mod), cls)
            inst = g.instance()
            obj = Instance(klass, dict(inst.attrs))
            obj.attrs.pop("__isinstance__", None)
            vols = it.getattr(obj, "cell_volume_data")
            return g, vols, num_axes

        for p, res in enumerate(explore_paths(U, body)):
            P = prem_of(res.ctx)
            if res.outcome != "return":
                U.prove(f"cell_volume_data.path{p}.returns_normally", P, z3.BoolVal(False), info={"exc": str(res.exc)})
                continue
            g, vols, num_axes = res.value
            idx = [z3.Int(f"i{a}") for a in range(num_axes)]
            Pi = P + [z3.And(idx[a] >= 0, idx[a] < g.N[a]) for a in range(num_axes)] + g.cell_facts(idx)
            want = exact_volume(kind, g, idx)
            vols = list(vols)
            U.prove(f"cell_volume_data.path{p}.one_factor_per_axis", P, z3.BoolVal(len(vols) == num_axes))
            for a in range(min(num_axes, len(vols))):
                v = vols[a]
                from ..arrays import NDArr
                got = v.read((idx[a],)) if isinstance(v, NDArr) and v.ndim == 1 else (v.read(()) if isinstance(v, NDArr) else v)
                U.prove(f"cell_volume_data.path{p}.axis{a}==exact_cell_measure", Pi, to_z3(got) == to_z3(want[a]), info={"prefer": "ratnf"})

    return unit


def _vol(kind, g, r):
    """cell volume as a function of the cell-centre radius (angular factors dropped: common to all cells)"""
    h = g.h[0]
    if kind == "cartesian":
        v = 1
        for hh in g.h:
            v = v * hh
        return v
    rl, rh = r - h / 2, r + h / 2
    if kind == "polar":
        return rh * rh - rl * rl
    if kind == "spherical":
        return (rh * rh * rh - rl * rl * rl) / 3
    return (rh * rh - rl * rl) * g.h[1]


def telescoping_laplace(kind, dim):
    def unit(U):
        num_axes = dim if kind == "cartesian" else S.grid_layout(kind)[0]
        g = SymGrid(kind, num_axes)
        u = z3.Function("u", *([z3.IntSort()] * num_axes), z3.RealSort())
        idx = [z3.Int(f"i{a}") for a in range(num_axes)]
        r = z3.Real("r")  # centre radius of cell idx (per-cell abstraction); neighbours are r +- h
        prem = list(g.facts)
        if kind != "cartesian":
            prem.append(r >= g.h[0] / 2)
        geom = CellGeom(g.h, r=r if kind != "cartesian" else None)

        def samp(comp, off):
            return u(*[idx[a] + off[a] for a in range(num_axes)])

        lap = S.operator_spec(kind, "laplace", samp, geom, dim=dim, conservative=(kind == "spherical"))[()]
        vol = _vol(kind, g, r)

        def flux(a, shift):
            """flux through the lower face of cell idx + shift*e_a along axis a"""
            hi = [idx[b] + (shift if b == a else 0) for b in range(num_axes)]
            lo = [idx[b] + (shift - 1 if b == a else 0) for b in range(num_axes)]
            d = (u(*hi) - u(*lo)) / g.h[a]
            if kind == "cartesian":
                area = vol / g.h[a]
            elif a == 0:
                rf = r + shift * g.h[0] - g.h[0] / 2
                area = 2 * rf if kind == "polar" else (rf * rf if kind == "spherical" else 2 * rf * g.h[1])
            else:  # cylindrical z
                area = vol / g.h[1]
            return area * d

        total = 0
        for a in range(num_axes):
            total = total + flux(a, 1) - flux(a, 0)
        U.prove("vol*laplace==sum_of_face_flux_differences", prem, vol * lap == total, info={"prefer": "ratnf"})
        # boundary fluxes
        for a in range(num_axes):
            gcell, c = z3.Real("ghost"), z3.Real("cell")
            # zero-derivative ghost relation (C02): (ghost - cell)/h = 0  =>  flux through that face is 0
            U.prove(f"axis{a}.zero_derivative_ghost=>zero_flux", prem + [(gcell - c) / g.h[a] == 0], (gcell - c) / g.h[a] * z3.Real("area") == 0)
        if kind != "cartesian":
            # inner face of a grid without hole: r_0 - h/2 = 0, the flux area vanishes whatever the ghost value
            rf = r - g.h[0] / 2
            area = 2 * rf if kind == "polar" else (rf * rf if kind == "spherical" else 2 * rf * g.h[1])
            U.prove("face_at_r=0_has_zero_area", prem + [r == g.h[0] / 2], area == 0)
        U.assume_note("finite telescoping sum: sum_i (F_{i+1} - F_i) = F_N - F_0 (induction on N; meta-level), interchange of sums over several axes")
        U.assume_note("periodic axes: ghost = opposite cell, so the two boundary fluxes are the same face flux and cancel")

    return unit


def telescoping_divergence(kind, dim):
    def unit(U):
        num_axes = dim if kind == "cartesian" else 1
        g = SymGrid(kind, num_axes)
        ncomp = dim if kind == "cartesian" else 3
        A = z3.Function("A", z3.IntSort(), *([z3.IntSort()] * num_axes), z3.RealSort())
        idx = [z3.Int(f"i{a}") for a in range(num_axes)]
        r = z3.Real("r")
        prem = list(g.facts) + ([r >= g.h[0] / 2] if kind != "cartesian" else [])
        geom = CellGeom(g.h, r=r if kind != "cartesian" else None)

        def samp(comp, off):
            return A(comp[0], *[idx[a] + off[a] for a in range(num_axes)])

        div = S.operator_spec(kind, "divergence", samp, geom, dim=dim, conservative=True)[()]
        vol = _vol(kind, g, r)

        def flux(a, shift):
            hi = [idx[b] + (shift if b == a else 0) for b in range(num_axes)]
            lo = [idx[b] + (shift - 1 if b == a else 0) for b in range(num_axes)]
            face_val = (A(a, *hi) + A(a, *lo)) / 2
            if kind == "cartesian":
                return vol / g.h[a] * face_val
            rf = r + shift * g.h[0] - g.h[0] / 2
            return rf * rf * face_val

        total = 0
        for a in range(num_axes):
            total = total + flux(a, 1) - flux(a, 0)
        U.prove("vol*divergence==sum_of_face_flux_differences", prem, vol * div == total, info={"prefer": "ratnf"})
        gcell, c = z3.Real("ghost"), z3.Real("cell")
        U.prove("zero_normal_value_ghost=>zero_flux", prem + [(gcell + c) / 2 == 0], (gcell + c) / 2 * z3.Real("area") == 0)

    return unit


def lemma_steps_conserve(U):
    """(S): with a linear functional I and I(F(x,t)) = 0 for all x, t, every scheme keeps I(state)"""
    I = z3.Function("I", z3.RealSort(), z3.RealSort())
    F = z3.Function("F", z3.RealSort(), z3.RealSort(), z3.RealSort())
    x, y, c, t = z3.Reals("x y c t")
    u, dt, tt, up, al = z3.Reals("u dt tt u_prev alpha")
    Ff = lambda a, b: F(a, b)
    # linearity instantiated where needed (ground instances of  I(a + c*b) = I(a) + c*I(b))
    def lin(a, cc, b):
        return I(a + cc * b) == I(a) + cc * I(b)

    zero = lambda a, b: I(F(a, b)) == 0
    k1 = F(u, tt)
    U.prove("euler", [lin(u, dt, k1), zero(u, tt)], I(ST.euler(u, tt, dt, Ff)) == I(u))
    # implicit fixed point x = u + dt F(x, t+dt)
    U.prove("implicit_fixed_point", [x == ST.implicit_map(x, u, tt, dt, Ff), lin(u, dt, F(x, tt + dt)), zero(x, tt + dt)], I(x) == I(u))
    # AB2
    comb = 3 * F(u, tt) / 2 - F(up, tt - dt) / 2
    U.prove("adams_bashforth", [I(u + dt * comb) == I(u) + dt * I(comb), I(comb) == 3 * I(F(u, tt)) / 2 - I(F(up, tt - dt)) / 2, zero(u, tt), zero(up, tt - dt)],
            I(ST.ab2(u, up, tt, dt, Ff)) == I(u))
    # RK4: the update is u + dt * (weighted sum of rate evaluations)
    k2 = F(u + dt * k1 / 2, tt + dt / 2)
    k3 = F(u + dt * k2 / 2, tt + dt / 2)
    k4 = F(u + dt * k3, tt + dt)
    s = (k1 + 2 * k2 + 2 * k3 + k4) / 6
    U.prove("runge_kutta", [I(u + dt * s) == I(u) + dt * I(s), I(s) == (I(k1) + 2 * I(k2) + 2 * I(k3) + I(k4)) / 6,
                            I(k1) == 0, I(k2) == 0, I(k3) == 0, I(k4) == 0], I(ST.rk4(u, tt, dt, Ff)) == I(u))
    # CN fixed point
    rhs_cn = u + dt / 2 * (F(x, tt + dt) + F(u, tt))
    U.prove("crank_nicolson_fixed_point", [al != 1, x == ST.cn_map(x, u, tt, dt, Ff, al), I(x) == al * I(x) + (1 - al) * I(rhs_cn),
                                            I(rhs_cn) == I(u) + dt / 2 * (I(F(x, tt + dt)) + I(F(u, tt))), zero(x, tt + dt), zero(u, tt)], I(x) == I(u))
    U.assume_note("the integral is a linear functional of the state (volume-weighted sum); linearity is instantiated at the combinations the schemes form")
    U.assume_note("Cahn-Hilliard: rhs = Laplace(mu) has zero integral whatever its argument, by (T)+(B)")


def _units():
    units = []
    for kind, dims in (("cartesian", (1, 2, 3)), ("polar", (None,)), ("spherical", (None,)), ("cylindrical", (None,))):
        for d in dims:
            units.append((f"{kind}{d or ''}.cell_volume_data", cellvol_unit(kind, d)))
            units.append((f"{kind}{d or ''}.laplace.telescopes", telescoping_laplace(kind, d)))
            # (K): the real kernels equal the specification used in (T)
            for opts in C01.OPTIONS[(kind, "laplace")]:
                if opts.get("conservative") is False:
                    continue
                units.append((f"{kind}{d or ''}.laplace.kernel[{C01._optstr(opts)}]", C01.kernel_unit(kind, d, "laplace", opts)))
    for d in (1, 2, 3):
        units.append((f"cartesian{d}.divergence.telescopes", telescoping_divergence("cartesian", d)))
        units.append((f"cartesian{d}.divergence.kernel[central]", C01.kernel_unit("cartesian", d, "divergence", {"method": "central"})))
    units.append(("spherical.divergence.telescopes", telescoping_divergence("spherical", None)))
    units.append(("spherical.divergence.kernel[conservative,central]", C01.kernel_unit("spherical", None, "divergence", {"conservative": True, "method": "central", "safe": False})))
    units.append(("lemma.steps_conserve_linear_functionals", lemma_steps_conserve))
    from . import nine_point
    units.extend(nine_point.units_C05())
    return units


def lemma_lean_telescoping(U):
    """(T)/(B)/(S) summed over the cells: Lean 4 + Mathlib (lean/Telescoping.lean), replacing the meta-level step"""
    import os

    from ..runner import VERIF
    U.lean_file(os.path.join(VERIF, "lean", "Telescoping.lean"))


UNITS = _units() + [("lemma.lean.telescoping", lemma_lean_telescoping)]
# the Lean file loads Mathlib (seconds when cached, minutes from a cold disk): thorough tier
THOROUGH_ONLY = {"lemma.lean.telescoping"}


def replay(o):
    cfg = (o.get("info") or {}).get("replay_payload") or {}
    if "corner" in cfg:
        from ..runner import native

        res = native("conservation.py", {"seed": 1, "only_corner_points": True, "periodicities": [cfg["periodic"]], "n9": 4})
        if not res.get("ok"):
            return {"reproduced": None, "error": res}
        hit = [f for f in res["failures"] if f["id"] == f"corner_point_{cfg['corner']}"] or res["failures"]
        if hit:
            return {"reproduced": True, "native": hit[0]}
        return {"reproduced": False, "note": "the real corner-point setter matched the extension on 4 random grids"}
    return C01.replay(o)


def bounded(tier, seed):
    from ..runner import native

    n = 1 if tier == "quick" else 5
    extra = {"sim_grids": 2, "solvers": ["euler", "runge-kutta"]} if tier == "quick" else {}
    res = native("conservation.py", {"seed": seed, "n": n, **extra}, timeout=3000)
    if not res.get("ok"):
        raise RuntimeError(f"native driver failed: {res}")
    return [{"name": "zero_flux_integrals_and_mass_along_simulations", "bound": f"{n} random grids per class (with/without hole, anisotropic), random fields; 9-point Laplacian (corner weights 1/3, 1/2) and its corner-point setter for the 4 periodicity patterns; diffusion and Cahn-Hilliard runs with 3 solvers",
             "cases": res["cases"], "failures": res["failures"]}]


TRUSTED = ["pdv/specs/operators.py stencils (tied to the kernels by the (K) obligations)", "face-flux formulas of the contract (they only need to exist for the telescoping argument)"]
ASSUMPTIONS = ["finite telescoping sums / interchange of finite sums: proved in Lean 4 + Mathlib (lean/Telescoping.lean, thorough tier); instantiating its hypotheses with the per-cell identities the solver proves for an arbitrary cell is the remaining meta-level step",
               "ghost relations of zero-derivative / zero-value / periodic conditions as proved in C02",
               "GridBase.integrate = sum(data * outer product of cell_volume_data) (NumPy sum/outer trusted)", "round-off ('to round-off' in the statement)"]
NOT_COVERED = ["non-conservative spherical operators (the statement says conservative)", "one-sided divergences (method='forward' / 'backward'): their boundary flux does not vanish under zero-value conditions (reported by a round-3 agent; non-default option, not claimed)", "9-point Laplacian (corner_weight != 0): kernel, corner-point setter and diagonal flux form are proved; corner points next to boundaries with non-zero derivative or value conditions do not conserve anything (not claimed by the statement)", "MaterialConservationTracker itself"]
