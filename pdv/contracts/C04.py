"""C04 -- results never depend on what was computed earlier: proof of the cache discipline (DESIGN.md §4, C04).

(K) key injectivity: the real `hash_mutable` (and `_hash_iter`) are executed on an algebraic model in which
    `hash` is an injective constructor (no collisions): objects = (class, attribute dict); classes that
    define __eq__ without __hash__ are unhashable (read from the source).  For every pair of distinct
    boundary-condition classes with identical attributes -- alone, inside a BoundaryPair and inside a
    BoundariesList -- the keys must differ.
(R) reads frame: re-binding a field's padded array must invalidate the per-instance method cache
    (the cached interpolator is bound to the address of the array).
(W) the cache wrapper returns, for a key, the value computed by the first call with that key.
"""

from __future__ import annotations

import z3

from ..arrays import NDArr, sym_array
from ..ctx import PyRaise
from ..objects import Class, Instance
from ..values import Opaque, is_sym, to_real, to_z3
from .common import explore_paths, prem_of

PROPERTY = "C04"
CACHE = "pde.tools.cache"
LOCAL = "pde.grids.boundaries.local"


class H:
    """hash value as a term: injective constructor"""

    def __init__(self, payload):
        self.payload = payload

    def __eq__(self, other):
        return isinstance(other, H) and _canon(self.payload) == _canon(other.payload)

    def __hash__(self):
        return hash(_canon(self.payload))

    def __lt__(self, other):
        return repr(_canon(self.payload)) < repr(_canon(other.payload))

    def __repr__(self):
        return f"H({_canon(self.payload)!r})"


def _canon(x):
    if isinstance(x, H):
        return ("H", _canon(x.payload))
    if isinstance(x, (tuple, list)):
        return tuple(_canon(v) for v in x)
    if isinstance(x, (set, frozenset)):
        return ("set", tuple(sorted((_canon(v) for v in x), key=repr)))
    if isinstance(x, dict):
        return ("dict", tuple(sorted(((_canon(a), _canon(b)) for a, b in x.items()), key=repr)))
    if isinstance(x, Instance):
        return ("object", id(x))
    if is_sym(x):
        return ("sym", x.sexpr())
    return x


def _install(it):
    def defines_eq(cls: Class):
        m, owner = cls.lookup("__eq__")
        h, howner = cls.lookup("__hash__")
        return m is not None and (h is None or cls.mro.index(howner) > cls.mro.index(owner))

    def hash_(x):
        if isinstance(x, Instance):
            if x.cls is not None and defines_eq(x.cls):
                raise PyRaise("TypeError", ("unhashable type",))
            return H(("object-identity", id(x)))
        if isinstance(x, (list, dict, set)):
            raise PyRaise("TypeError", ("unhashable type",))
        if isinstance(x, NDArr):
            raise PyRaise("TypeError", ("unhashable type: ndarray",))
        from fractions import Fraction
        if isinstance(x, (int, Fraction)) and not isinstance(x, bool) and x == -1:
            # CPython reserves the hash value -1 (error code of the C API): hash(-1) == hash(-2) for ints and floats
            return H(-2)
        return H(x)

    def repr_(x):
        from fractions import Fraction
        if isinstance(x, bool) or isinstance(x, int):
            return str(x)
        if isinstance(x, Fraction):
            return f"float:{x}"
        if isinstance(x, str):
            return "'" + x + "'"
        if is_sym(x):
            return ("repr-of-number", x)  # an injective rendering of the (symbolic) value
        return Opaque("repr")

    it.builtins["repr"] = repr_

    def sha1(x, **kw):
        raise PyRaise("TypeError", ("object supporting the buffer API required",))

    it.builtins["hash"] = hash_
    it.builtins["int"] = lambda x: x
    it.overrides["sha1"] = sha1
    from ..builtins_model import StubModule, TypeTag

    never = lambda n: TypeTag(f"collections.{n}", None)
    for n in ("OrderedDict", "defaultdict", "Counter", "MutableMapping"):
        TypeTag.check  # noqa
    class Never(TypeTag):
        def check(self, obj):
            return False
    it.stub_modules["collections"] = StubModule("collections", {"OrderedDict": Never("OrderedDict", None), "defaultdict": Never("defaultdict", None),
                                                                "Counter": Never("Counter", None), "abc": StubModule("collections.abc", {"MutableMapping": Never("MutableMapping", None)})})
    it.stub_modules["collections.abc"] = it.stub_modules["collections"].attrs["abc"]


def _bc(it, clsname, grid):
    cls = it.module_attr(it.load_module(LOCAL), clsname)
    attrs = {"grid": grid, "axis": 0, "upper": z3.Bool("upper"), "rank": 0, "normal": clsname.startswith("Normal"), "homogeneous": True,
             "value": z3.Real("value"), "value_is_linked": False, "_logger_unused": None}
    return Instance(cls, attrs)


PAIRS = [("DirichletBC", "NeumannBC"), ("DirichletBC", "CurvatureBC"), ("NeumannBC", "CurvatureBC"), ("NormalDirichletBC", "NormalNeumannBC"),
         ("DirichletBC", "NormalDirichletBC")]


def key_unit(a, b, wrap):
    def unit(U):
        def body(it):
            _install(it)
            grid = Instance(None, {"num_axes": 1, "periodic": [False], "axes": ["x"]}, name="grid")
            hm = it.get_function(CACHE, "hash_mutable")
            objs = []
            for name in (a, b):
                bc = _bc(it, name, grid)
                other = _bc(it, "DirichletBC", grid)
                if wrap == "bare":
                    o = bc
                else:
                    # containers are created by their real __init__ (attributes the code adds are present)
                    bc.attrs["upper"], other.attrs["upper"] = False, True
                    pcls = it.module_attr(it.load_module("pde.grids.boundaries.axis"), "BoundaryPair")
                    pair = it.instantiate(pcls, [bc, other], {})
                    if wrap == "pair":
                        o = pair
                    else:
                        lcls = it.module_attr(it.load_module("pde.grids.boundaries.axes"), "BoundariesList")
                        o = it.instantiate(lcls, [[pair]], {})
                # the key of a cached call:  hash_key(((grid, operator, bcs), kwargs))
                objs.append(it.call(hm, [((grid, "laplace", o), {"backend": "numba"})], {}))
            return objs

        for p, res in enumerate(explore_paths(U, body)):
            P = prem_of(res.ctx)
            nm = f"path{p}"
            if res.outcome != "return":
                U.prove(f"{nm}.hash_mutable_returns_normally", P, z3.BoolVal(False), info={"exc": str(res.exc)})
                continue
            k1, k2 = res.value
            U.prove(f"{nm}.equal_keys=>same_boundary_condition_class", P, z3.BoolVal(not (k1 == k2)),
                    info={"witness": f"{a} and {b} with identical attributes ({wrap})"})
        U.assume_note("hash() is collision free on the values that reach cache keys (injective constructor)")

    return unit


def mutation_unit(wrap):
    """the key of an operator request is computed from the conditions as they are at the time of the request: after
    the value stored in a condition object changed (value setter, link_value, ...), the same container object gets a
    different key.  Containers are created by their real __init__ (so attributes the code adds are present)."""
    def unit(U):
        def body(it):
            _install(it)
            grid = Instance(None, {"num_axes": 1, "periodic": [False], "axes": ["x"]}, name="grid")
            hm = it.get_function(CACHE, "hash_mutable")
            bc = _bc(it, "DirichletBC", grid)
            other = _bc(it, "DirichletBC", grid)
            for b, up in ((bc, False), (other, True)):
                b.attrs["upper"] = up
            del bc.attrs["value"]
            bc.attrs["_value"] = z3.Real("value_at_first_request")
            o = bc
            if wrap != "bare":
                pcls = it.module_attr(it.load_module("pde.grids.boundaries.axis"), "BoundaryPair")
                o = it.instantiate(pcls, [bc, other], {})
                if wrap == "list":
                    lcls = it.module_attr(it.load_module("pde.grids.boundaries.axes"), "BoundariesList")
                    o = it.instantiate(lcls, [[o]], {})
            k1 = it.call(hm, [((grid, "laplace", o), {"backend": "numba"})], {})
            k1b = it.call(hm, [((grid, "laplace", o), {"backend": "numba"})], {})
            bc.attrs["_value"] = z3.Real("value_at_second_request")
            k2 = it.call(hm, [((grid, "laplace", o), {"backend": "numba"})], {})
            return k1, k1b, k2

        n = 0
        for p, res in enumerate(explore_paths(U, body)):
            P = prem_of(res.ctx)
            nm = f"path{p}"
            if res.outcome != "return":
                U.prove(f"{nm}.returns_normally", P, z3.BoolVal(False), info={"exc": str(res.exc)})
                continue
            n += 1
            k1, k1b, k2 = res.value
            v1, v2 = z3.Real("value_at_first_request"), z3.Real("value_at_second_request")
            U.prove(f"{nm}.unchanged_conditions=>same_key", P, z3.BoolVal(k1 == k1b))
            U.prove(f"{nm}.changed_value=>key_computed_from_the_current_value", P + [v1 != v2], z3.Not(_payload_eq(k1, k2)),
                    info={"replay_payload": {"mutated_container": wrap}})
            U.cover(f"{nm}.pre.cover", P + [v1 != v2])
        U.prove("has_normal_paths", [], z3.BoolVal(n >= 1))
        U.assume_note("hash() is collision free on the values that reach cache keys (injective constructor)")

    return unit


NUMBER_PAIRS = [(-1, -2), (0, -1), (1, 2), (-1, 1), (-2, 2)]


def numeric_key_unit(where):
    """requests that differ in one numeric argument (e.g. interpolate(.., fill=-1) / fill=-2) get different keys;
    CPython's hash(-1) == hash(-2) is part of the model of `hash`"""
    def unit(U):
        def body(it):
            _install(it)
            hm = it.get_function(CACHE, "hash_mutable")
            from fractions import Fraction
            out = []
            for a, b in NUMBER_PAIRS:
                for conv in (int, Fraction):
                    ks = []
                    for v in (conv(a), conv(b)):
                        if where == "keyword":
                            key = ((), {"fill": v, "with_ghost_cells": False})
                        elif where == "positional":
                            key = (("laplace", v), {})
                        else:
                            key = (((0, v), [v, 2]), {"value": {"x": v}})
                        ks.append(it.call(hm, [key], {}))
                    out.append(((a, b, conv.__name__), ks))
            return out

        for p, res in enumerate(explore_paths(U, body)):
            P = prem_of(res.ctx)
            if res.outcome != "return":
                U.prove(f"path{p}.hash_mutable_returns_normally", P, z3.BoolVal(False), info={"exc": str(res.exc)})
                continue
            for (a, b, tn), (k1, k2) in res.value:
                U.prove(f"path{p}.keys_differ[{tn} {a} vs {b}]", P, z3.BoolVal(not (k1 == k2)), info={"replay_payload": {"numeric_keys": [a, b]}})
        U.assume_note("hash() of CPython: injective on the values that reach cache keys except hash(-1) == hash(-2) (modelled)")

    return unit


def grid_hash_unit(kind):
    """GridBase._cache_hash keys the backend-level operator cache (through the grid argument and the grid of every
    boundary condition): two grids of one class whose keys are equal must be equal grids, i.e. agree in shape,
    bounds and periodicity -- everything an operator implementation may depend on"""
    num_axes = {"CartesianGrid": 2, "PolarSymGrid": 1, "SphericalSymGrid": 1, "CylindricalSymGrid": 2}[kind]

    def unit(U):
        def body(it):
            _install(it)
            mod = {"CartesianGrid": "pde.grids.cartesian", "CylindricalSymGrid": "pde.grids.cylindrical"}.get(kind, "pde.grids.spherical")
            cls = it.module_attr(it.load_module(mod), kind)
            grids, states = [], []
            for tag in ("a", "b"):
                N = [z3.Int(f"N{a}_{tag}") for a in range(num_axes)]
                lo = [z3.Real(f"lo{a}_{tag}") for a in range(num_axes)]
                hi = [z3.Real(f"hi{a}_{tag}") for a in range(num_axes)]
                per = [z3.Bool(f"periodic{a}_{tag}") for a in range(num_axes)]
                for a in range(num_axes):
                    it.ctx.assume(z3.And(N[a] >= 1, hi[a] > lo[a]))
                if kind != "CartesianGrid":
                    it.ctx.assume(lo[0] >= 0)  # radial axis
                from ..arrays import fresh_array
                dx = [(hi[a] - lo[a]) / z3.ToReal(N[a]) for a in range(num_axes)]
                disc = fresh_array(f"discretization_{tag}", (num_axes,), lambda idx, dx=dx: dx[idx[0]] if isinstance(idx[0], int) else (dx[0] if num_axes == 1 else z3.If(to_z3(idx[0]) == 0, dx[0], dx[1])))
                g = Instance(cls, {"_shape": tuple(N), "shape": tuple(N), "_axes_bounds": tuple((lo[a], hi[a]) for a in range(num_axes)),
                                   "axes_bounds": tuple((lo[a], hi[a]) for a in range(num_axes)), "_periodic": list(per), "periodic": list(per),
                                   "_discretization": disc, "discretization": disc, "num_axes": num_axes})
                grids.append(g)
                states.append((N, lo, hi, per))
            keys = [it.call(it.getattr(g, "_cache_hash"), [], {}) for g in grids]
            return keys, states

        for p, res in enumerate(explore_paths(U, body)):
            P = prem_of(res.ctx)
            if res.outcome != "return":
                U.prove(f"path{p}.returns_normally", P, z3.BoolVal(False), info={"exc": str(res.exc)})
                continue
            (k1, k2), ((N1, lo1, hi1, per1), (N2, lo2, hi2, per2)) = res.value
            same_key = _payload_eq(k1, k2)
            same_grid = z3.And(*[z3.And(N1[a] == N2[a], lo1[a] == lo2[a], hi1[a] == hi2[a], per1[a] == per2[a]) for a in range(num_axes)])
            U.prove(f"path{p}.equal_keys=>same_shape_bounds_and_periodicity", P + [same_key], same_grid,
                    info={"witness": "two grids of one class that differ e.g. only by a shift of their bounds", "replay_payload": {"grid_hash": kind}})
            U.prove(f"path{p}.equal_grids=>equal_keys", P + [same_grid], same_key)

    return unit


def _payload_eq(a, b):
    """equality of two hash terms of the injective model as a formula over their symbolic leaves"""
    if isinstance(a, H) and isinstance(b, H):
        return _payload_eq(a.payload, b.payload)
    if isinstance(a, tuple) and isinstance(b, tuple) and len(a) == 2 and len(b) == 2 and isinstance(a[0], str) and isinstance(b[0], str) and a[0] == "repr-of-number" and b[0] == "repr-of-number":
        return to_z3(a[1]) == to_z3(b[1])  # numbers hashed through their representation: no collisions
    if isinstance(a, (tuple, list)) and isinstance(b, (tuple, list)):
        if len(a) != len(b):
            return z3.BoolVal(False)
        return z3.And(*[_payload_eq(x, y) for x, y in zip(a, b)]) if a else z3.BoolVal(True)
    if isinstance(a, tuple) and isinstance(b, tuple) and len(a) == 2 and len(b) == 2 and isinstance(a[0], str) and isinstance(b[0], str) and a[0] == b[0] == "repr-of-number":
        return to_z3(a[1]) == to_z3(b[1])  # numbers hashed through their representation: no collisions
    if isinstance(a, (set, frozenset)) and isinstance(b, (set, frozenset)):
        # hashed dictionaries: sets of (key, hash of value) with concrete keys -> match by key
        da, db = ({e[0]: e[1] for e in x if isinstance(e, tuple) and len(e) == 2 and isinstance(e[0], str)} for x in (a, b))
        if len(da) == len(a) and len(db) == len(b):
            if set(da) != set(db):
                return z3.BoolVal(False)
            return z3.And(*[_payload_eq(da[k], db[k]) for k in sorted(da)]) if da else z3.BoolVal(True)
        return z3.BoolVal(a == b)
    if is_sym(a) or is_sym(b):
        # numbers that reach the builtin hash(): equal hashes for equal numbers and for the pair -1 / -2 (CPython)
        from fractions import Fraction
        if not all(is_sym(v) or isinstance(v, (int, float, Fraction, bool)) for v in (a, b)):
            return z3.BoolVal(False)  # a number against a string / None / object
        x, y = to_z3(a), to_z3(b)
        if z3.is_bool(x) or z3.is_bool(y):
            return x == y
        return z3.Or(x == y, z3.And(x == -1, y == -2), z3.And(x == -2, y == -1))
    if isinstance(a, H) or isinstance(b, H):
        return z3.BoolVal(False)
    return z3.BoolVal(a == b)


def fresh_conditions_unit(U):
    """the real GridBase.get_boundary_conditions (cache decorators interpreted with their real semantics): every
    request returns its own BoundariesList object, so customising the conditions one request returned (they are
    mutable: bcs[axis] = ..., bc.value = ...) cannot change what a later request with the same arguments gets"""
    def body(it):
        cls = it.module_attr(it.load_module("pde.grids.base"), "GridBase")
        grid = Instance(cls, {"_mesh": None, "_cache_methods": {}})
        made = []

        def from_data(interp, args, kw):
            obj = Instance(None, {"spec": args[-1] if args else kw.get("data"), "customised": False}, name=f"BoundariesList#{len(made)}")
            made.append(obj)
            return obj

        for qual in ("BoundariesBase.from_data", "BoundariesList.from_data"):
            it.contracts[("pde.grids.boundaries.axes", qual)] = from_data
        out = []
        for spec in ("auto_periodic_neumann", "auto_periodic_neumann", {"x": "periodic"}, {"x": "periodic"}):
            r = it.call(it.getattr(grid, "get_boundary_conditions"), [spec], {"rank": 0})
            out.append(r)
            if isinstance(r, Instance):
                r.attrs["customised"] = True  # the caller modifies what it got
                fresh_view = r
        return out, made

    for p, res in enumerate(explore_paths(U, body)):
        P = prem_of(res.ctx)
        if res.outcome != "return":
            U.prove(f"path{p}.returns_normally", P, z3.BoolVal(False), info={"exc": str(res.exc)})
            continue
        out, made = res.value
        ok = all(isinstance(r, Instance) for r in out)
        U.prove(f"path{p}.every_request_returns_conditions", P, z3.BoolVal(ok))
        U.prove(f"path{p}.no_two_requests_share_one_mutable_object", P, z3.BoolVal(ok and len({id(r) for r in out}) == len(out)),
                info={"witness": "bcs = grid.get_boundary_conditions('auto_periodic_neumann'); bcs[axis] = {...}; a later request by the same name", "replay_payload": {"shared_bcs": True}})

    U.assume_note("BoundariesBase.from_data builds a new object on every call (its own parsing is C02)")


def same_object_same_key(U):
    def body(it):
        _install(it)
        grid = Instance(None, {}, name="grid")
        hm = it.get_function(CACHE, "hash_mutable")
        b1, b2 = _bc(it, "MixedBC", grid), _bc(it, "MixedBC", grid)
        b1.attrs["const"] = b2.attrs["const"] = z3.Real("const")
        b3 = _bc(it, "MixedBC", grid)
        b3.attrs["const"] = z3.Real("other_const")
        return [it.call(hm, [x], {}) for x in (b1, b2, b3)]

    for p, res in enumerate(explore_paths(U, body)):
        P = prem_of(res.ctx)
        if res.outcome != "return":
            U.prove(f"path{p}.returns_normally", P, z3.BoolVal(False), info={"exc": str(res.exc)})
            continue
        k1, k2, k3 = res.value
        U.prove(f"path{p}.equal_objects_share_a_key", P, z3.BoolVal(k1 == k2))
        U.prove(f"path{p}.different_parameters_give_different_keys", P, z3.BoolVal(not (k1 == k3)))


def rebinding_unit(U):
    def body(it):
        fcls = it.module_attr(it.load_module("pde.fields.base"), "FieldBase")
        n = z3.Int("n")
        it.ctx.assume(n >= 1)
        grid = Instance(None, {"num_axes": 1, "_shape_full": (n + 2,), "_idx_valid": (slice(1, -1),)}, name="grid")
        old = sym_array("old_padded", (n + 2,))
        f = Instance(fcls, {"grid": grid, "__data_full": old, "_data_valid": old.index(slice(1, -1)), "writeable": True,
                            "_cache_methods": {"make_interpolator": {"key": Opaque("interpolator bound to the old array")}}})
        new = sym_array("new_padded", (n + 2,))
        it.setattr(f, "_data_full", new)
        return f, old, new

    for p, res in enumerate(explore_paths(U, body)):
        P = prem_of(res.ctx)
        if res.outcome != "return":
            U.prove(f"path{p}.returns_normally", P, z3.BoolVal(False), info={"exc": str(res.exc)})
            continue
        f, old, new = res.value
        cm = f.attrs.get("_cache_methods")
        stale = bool(cm) and any(v for v in cm.values())
        U.prove(f"path{p}.field_uses_the_new_array", P, z3.BoolVal(f.attrs.get("__data_full") is new and isinstance(f.attrs.get("_data_valid"), NDArr) and f.attrs["_data_valid"].buf is new.buf))
        U.prove(f"path{p}.no_cached_helper_survives_that_is_bound_to_the_abandoned_array", P, z3.BoolVal(not stale))


def wrapper_unit(U):
    """cached_method wrapper: a miss computes and stores, a hit returns the stored value (first call wins)"""
    def body(it):
        _install(it)
        ccls = it.load_module(CACHE).get("cached_method")
        calls = []

        def func(obj, x):
            calls.append(x)
            return ("result", len(calls))

        it.overrides["make_serializer"] = lambda name: (lambda v: H(v))
        it.stub_modules["functools"].attrs["wraps"] = lambda f: (lambda g: g)
        dec = Instance(ccls, {"name": "f", "hash_function": "hash_mutable", "factory": None, "ignore_args": None, "extra_args": None})
        fn_stub = Instance(None, {"__name__": "f", "__call__": func}, name="func")
        w = it.call(it.getattr(dec, "_get_wrapped_function"), [fn_stub], {})
        obj = Instance(None, {"__closed__": True}, name="self")
        a, b = z3.Real("a"), z3.Real("b")
        r1 = it.call(w, [obj, a], {})
        r2 = it.call(w, [obj, b], {})
        r3 = it.call(w, [obj, a], {})
        return r1, r2, r3, calls

    for p, res in enumerate(explore_paths(U, body)):
        P = prem_of(res.ctx)
        if res.outcome != "return":
            U.prove(f"wrapper.path{p}.returns_normally", P, z3.BoolVal(False), info={"exc": str(res.exc)})
            continue
        r1, r2, r3, calls = res.value
        U.prove(f"wrapper.path{p}.hit_returns_value_of_first_call_with_that_key_and_misses_compute", P, z3.BoolVal(r3 == r1 and r2 != r1 and len(calls) == 2))


def solver_reuse_unit(adaptive, dt_given):
    """a solver object that was used before (arbitrary leftovers in solver.info: last optimal dt, step count, flags) is
    asked for a new stepper: the real AdaptiveSolverBase.make_stepper / SolverBase.make_stepper hand the backend a
    solver whose per-run state is what a new solver object would have -- info['dt'] = the dt given, else dt_default;
    info['steps'] = 0 -- whatever the earlier run left behind"""
    def unit(U):
        def body(it):
            cls = it.module_attr(it.load_module("pde.solvers.base"), "AdaptiveSolverBase")
            seen = []
            info = {"dt": z3.Real("dt_left_by_the_earlier_run"), "steps": z3.Int("steps_of_the_earlier_run"), "dt_adaptive": True,
                    "stochastic": Opaque("earlier"), "post_step_data": Opaque("earlier"), "dt_statistics": Opaque("earlier")}

            def backend_make_stepper(solver, state):
                seen.append(dict(solver.attrs["info"]))
                return "stepper"

            backend = Instance(None, {"make_stepper": backend_make_stepper, "name": "numpy"}, name="backend")
            dflt = z3.Real("dt_default")
            it.ctx.assume(dflt > 0)
            solver = Instance(cls, {"info": info, "adaptive": adaptive, "dt_default": dflt, "backend": backend, "pde": Instance(None, {"is_sde": False}, name="pde"),
                                    "_select_backend": lambda state: None, "_logger": Instance(None, {"warning": lambda *a, **k: None, "info": lambda *a, **k: None}, name="logger")})
            dt = z3.Real("dt_requested") if dt_given else None
            if dt_given:
                it.ctx.assume(dt > 0)
            r = it.call(it.getattr(solver, "make_stepper"), [Instance(None, {}, name="state")], {"dt": dt} if dt_given else {})
            return r, seen, dt, dflt

        n = 0
        for p, res in enumerate(explore_paths(U, body)):
            P = prem_of(res.ctx)
            nm = f"path{p}"
            if res.outcome != "return":
                U.prove(f"{nm}.returns_normally", P, z3.BoolVal(False), info={"exc": str(res.exc)})
                continue
            n += 1
            r, seen, dt, dflt = res.value
            U.prove(f"{nm}.backend_builds_exactly_one_stepper", P, z3.BoolVal(len(seen) == 1 and r == "stepper"))
            if len(seen) != 1:
                continue
            want = dt if dt is not None else dflt
            U.prove(f"{nm}.initial_dt_is_the_requested_one_else_dt_default_whatever_ran_before", P, to_z3(to_real(seen[0]["dt"])) == want,
                    info={"replay_payload": {"reused_solver": True}})
            U.prove(f"{nm}.step_count_starts_at_zero", P, to_z3(seen[0]["steps"]) == 0)
        U.prove("has_normal_paths", [], z3.BoolVal(n >= 1))

    return unit


UNITS = [(f"key_injectivity[{a}|{b},{w}]", key_unit(a, b, w)) for a, b in PAIRS for w in ("bare", "pair", "list")] + [
    *[(f"numeric_arguments_get_distinct_keys[{w}]", numeric_key_unit(w)) for w in ("keyword", "positional", "nested")],
    *[(f"grid_cache_hash[{k}]", grid_hash_unit(k)) for k in ("CartesianGrid", "PolarSymGrid", "SphericalSymGrid", "CylindricalSymGrid")],
    *[(f"mutated_conditions_get_a_new_key[{w}]", mutation_unit(w)) for w in ("bare", "pair", "list")],
    *[(f"reused_solver_object.make_stepper[adaptive={a},dt={'given' if d else 'None'}]", solver_reuse_unit(a, d)) for a in (False, True) for d in (False, True)],
    ("get_boundary_conditions_returns_fresh_objects", fresh_conditions_unit),
    ("key_determinism", same_object_same_key), ("rebinding_data_invalidates_cached_helpers", rebinding_unit), ("cache_wrapper", wrapper_unit)]


def bounded(tier, seed):
    from ..runner import native

    res = native("history.py", {"seed": seed, "n": 2 if tier == "quick" else 20}, timeout=3000)
    if not res.get("ok"):
        raise RuntimeError(f"native driver failed: {res}")
    return [{"name": "histories_vs_fresh_interpreter", "bound": "random histories (<= 6 earlier requests: operators with BCs coinciding in some attributes, interpolations, collection constructions, PDE rates on other grids) followed by a probe request; probe result compared with a fresh interpreter; 8 solver kinds (fixed and adaptive) used for a second simulation vs a new solver object (bit-identical); a conditions object changed through its public interface between two requests for the same compiled operator",
             "cases": res["cases"], "failures": res["failures"]}]


TRUSTED = ["hash() collision free (injective constructor) except CPython's hash(-1) == hash(-2), which is modelled", "class table (which classes define __eq__ / __hash__) read from the source"]
ASSUMPTIONS = ["global configuration fixed within a history", "numba's own dispatch caches and functools caches of dependencies are not covered"]
NOT_COVERED = ["static reads-frame analysis of all 20 cache sites (only the interpolator / re-binding site is under contract)", "PDE._prepare_cache key (state.attributes): bounded native check only", "per-run state of solver objects other than info['dt'] / info['steps'] (e.g. the history flag of Adams-Bashforth steppers, which lives in the stepper closure): bounded native check of second runs only"]
