"""C06 (A) -- adaptive stepping: error control loops (python and numba), step-doubling and RKF45 error
estimators, time-step adjustment.  One-cell state model as in C06."""

from __future__ import annotations

from fractions import Fraction

import z3

from ..arrays import NDArr, fresh_array, sym_array
from ..builtins_model import StubModule
from ..ctx import PyRaise
from ..interp import LoopSpec
from ..objects import Instance
from ..values import POW_FN, Opaque, fresh_name, to_real, to_z3
from .common import explore_paths, prem_of

NS = z3.Function("new_state", z3.RealSort(), z3.RealSort(), z3.RealSort(), z3.RealSort())
ER = z3.Function("error_estimate", z3.RealSort(), z3.RealSort(), z3.RealSort(), z3.RealSort())
FT = z3.Function("f", z3.RealSort(), z3.RealSort(), z3.RealSort())  # time-dependent right-hand side
FA = z3.Function("F_autonomous", z3.RealSort(), z3.RealSort())
F2 = z3.Function("F", z3.RealSort(), z3.RealSort(), z3.RealSort())


def _solver(it, mod, cls, extra=None):
    dt0, dmin, dmax, tol = z3.Real("dt_initial"), z3.Real("dt_min"), z3.Real("dt_max"), z3.Real("tolerance")
    for c in (dmin > 0, dmax >= dmin, tol > 0, dt0 > 0):
        it.ctx.assume(c)
    s0 = z3.Int("steps0")
    info = {"dt": dt0, "steps": s0, "post_step_data": None}
    pde = Instance(None, {"is_sde": False}, name="pde")
    backend = Instance(None, {"make_mpi_synchronizer": lambda **k: (lambda x: x), "compile_function": lambda f: f, "name": "numpy"}, name="backend")
    klass = it.load_module(mod).get(cls)
    attrs = {"pde": pde, "backend": backend, "info": info, "_logger": Opaque("logger"), "_use_post_step_hook": False, "mpi_run": False,
             "adaptive": True, "dt_min": dmin, "dt_max": dmax, "tolerance": tol}
    attrs.update(extra or {})
    solver = Instance(klass, attrs)
    it.overrides["OnlineStatistics"] = lambda: Instance(None, {"add": lambda x: None}, name="dt_statistics")
    it.stub_modules["numba"].attrs["config"] = StubModule("numba.config", {"DISABLE_JIT": True})
    adj_log = []

    def make_adjuster(a, b):
        def adjust(dt, err):
            adj_log.append((dt, err))
            if it.ctx.branch(z3.Bool(fresh_name("dt_falls_below_dt_min"))):
                raise PyRaise("RuntimeError", ("Time step below dt_min",))
            d = z3.Real(fresh_name("dt_adjusted"))
            it.ctx.assume_pc(z3.And(d >= dmin, d <= dmax))
            return d
        return adjust

    it.overrides["_make_dt_adjuster"] = make_adjuster
    state_field = Instance(None, {"data": sym_array("template", (1,))}, name="state")
    return solver, info, state_field, dict(dt0=dt0, dmin=dmin, dmax=dmax, tol=tol, s0=s0, adj_log=adj_log)


def general_loop_unit(which):
    def unit(U):
        def body(it):
            solver, info, sf, par = _solver(it, "pde.solvers.base", "AdaptiveSolverBase")
            ghost = {"iter": None, "n_est": 0}
            u = sym_array("u", (1,))
            t0, t1 = z3.Real("t_start"), z3.Real("t_end")
            it.ctx.assume(t1 > t0)

            def estimator(arr, t, dt):
                x, t, dt = to_z3(arr.read((0,))), to_z3(to_real(t)), to_z3(to_real(dt))
                ghost["iter"] = dict(x=x, t=t, dt=dt, steps=ghost.get("steps_now"), dt_opt=ghost.get("dt_opt_now"), same_buffer=arr.buf is u.buf)
                ghost["n_est"] += 1
                it.ctx.assume_pc(ER(x, t, dt) >= 0)
                v = NS(x, t, dt)
                return (fresh_array("new_state", (1,), lambda idx: v), ER(x, t, dt))

            solver.attrs["_make_single_step_error_estimate"] = lambda state: estimator
            if which == "python":
                stepper = it.call(it.get_function("pde.solvers.base", "AdaptiveSolverBase._make_inner_stepper"), [solver, sf], {})
                loopq = "AdaptiveSolverBase._make_inner_stepper.adaptive_stepper"
            else:
                stepper = it.call(it.get_function("pde.backends.numba._solvers", "_make_adaptive_stepper_general"), [solver, sf], {})
                loopq = "_make_adaptive_stepper_general.compiled_stepper"

            def inv(interp, fr):
                t = to_z3(to_real(fr.locals["t"]))
                steps = to_z3(fr.locals["steps"])
                dt_opt = to_z3(to_real(fr.locals["dt_opt"]))
                ghost["steps_now"], ghost["dt_opt_now"], ghost["t_now"] = steps, dt_opt, t
                c = [steps >= 0, t >= t0]
                st = fr.locals.get("state_data")
                c.append(z3.BoolVal(isinstance(st, NDArr) and st.buf is u.buf))
                g = ghost["iter"]
                if g is None:
                    c.append(t < t1)  # the loop is only (re-)entered before the end
                else:
                    # postcondition of one iteration (accepted iff relative error <= 1)
                    acc = ER(g["x"], g["t"], g["dt"]) / par["tol"] <= 1
                    cur = to_z3(u.read((0,)))
                    c += [z3.BoolVal(g["same_buffer"]), g["dt"] > 0, z3.Or(g["dt"] <= t1 - g["t"], z3.And(t1 - g["t"] < par["dmin"], g["dt"] == par["dmin"])),  # a step passes the requested end only when the gap is below dt_min, and then by less than dt_min
                          cur == z3.If(acc, NS(g["x"], g["t"], g["dt"]), g["x"]), t == z3.If(acc, g["t"] + g["dt"], g["t"]),
                          steps == z3.If(acc, g["steps"] + 1, g["steps"]), t < t1, dt_opt >= par["dmin"], dt_opt <= par["dmax"]]
                return z3.And(*c)

            def havoc(interp, fr):
                u.assign(slice(None), z3.Real(fresh_name("state")))
                fr.locals["t"] = z3.Real(fresh_name("t"))
                fr.locals["steps"] = z3.Int(fresh_name("steps"))
                fr.locals["dt_opt"] = z3.Real(fresh_name("dt_opt"))
                for k in ("dt_step", "new_state", "error", "error_rel"):
                    fr.locals.pop(k, None)
                ghost["iter"] = None

            it.loop_specs[(loopq, 1)] = LoopSpec(inv, havoc, f"adaptive_loop[{which}]")
            r = it.call(stepper, [u, t0, t1], {})
            return solver, info, par, ghost, u, t0, t1, r

        n_ret = n_raise = 0
        for p, res in enumerate(explore_paths(U, body)):
            P = prem_of(res.ctx)
            nm = f"adaptive_stepper[{which}].path{p}"
            if res.outcome == "cut":
                continue
            if res.outcome == "raise":
                n_raise += 1
                U.prove(f"{nm}.only_the_dt_min_error_is_raised", P, z3.BoolVal(res.exc.exc_type == "RuntimeError"))
                continue
            n_ret += 1
            solver, info, par, ghost, u, t0, t1, r = res.value
            g = ghost["iter"]
            r = to_z3(to_real(r))
            acc = ER(g["x"], g["t"], g["dt"]) / par["tol"] <= 1
            U.prove(f"{nm}.ends_at_or_after_t_end", P, r >= t1)
            U.prove(f"{nm}.last_step_was_accepted_with_error<=tolerance", P, z3.And(acc, ER(g["x"], g["t"], g["dt"]) <= par["tol"]))
            U.prove(f"{nm}.ends_exactly_at_t_end", P, r == t1)
            U.prove(f"{nm}.ends_at_t_end_or_less_than_dt_min_later", P, z3.Or(r == t1, z3.And(t1 - g["t"] < par["dmin"], r - t1 < par["dmin"])))
            U.prove(f"{nm}.final_state_is_the_accepted_estimate", P, to_z3(u.read((0,))) == NS(g["x"], g["t"], g["dt"]))
            U.prove(f"{nm}.returned_time==time_before_last_step+dt_step", P, r == g["t"] + g["dt"])
            U.prove(f"{nm}.info_steps_and_dt_updated", P, z3.And(to_z3(info["steps"]) == par["s0"] + g["steps"] + 1, to_z3(to_real(info["dt"])) == g["dt_opt"]))
            U.cover(f"{nm}.cover", P)
        U.prove(f"adaptive_stepper[{which}].has_return_and_error_paths", [], z3.BoolVal(n_ret >= 1 and n_raise >= 1))
        U.assume_note("loop invariant: every iteration either accepts (relative error <= 1: state := estimate, t += dt_step, steps += 1) or rejects (state, t, steps unchanged); 0 < dt_step, and dt_step <= t_end - t unless that gap is below dt_min (then dt_step = dt_min); termination is not proved")

    return unit


def euler_loop_unit(which):
    def unit(U):
        def body(it):
            rhs_log = []

            def rhs(arr, t):
                x = to_z3(arr.read((0,)))
                rhs_log.append((x, t))
                v = FT(x, to_z3(to_real(t)))
                return fresh_array("rate", (1,), lambda idx: v)

            solver, info, sf, par = _solver(it, "pde.solvers.euler", "EulerSolver")
            solver.attrs["backend"].attrs["make_pde_rhs"] = lambda eq, state: rhs
            solver.attrs["_make_single_step_error_estimate"] = lambda state: (lambda *a: None)
            u = sym_array("u", (1,))
            u0 = to_z3(u.read((0,)))
            t0, t1 = z3.Real("t_start"), z3.Real("t_end")
            it.ctx.assume(t1 > t0)
            ghost = {"iter": None}
            loopq = "EulerSolver._make_inner_stepper.adaptive_stepper" if which == "python" else "_make_adaptive_stepper_euler.compiled_stepper"

            def val(fr, name):
                a = fr.locals.get(name)
                return to_z3(a.read((0,))) if isinstance(a, NDArr) else None

            def inv(interp, fr):
                t = to_z3(to_real(fr.locals["t"]))
                steps = to_z3(fr.locals["steps"])
                dt_opt = to_z3(to_real(fr.locals["dt_opt"]))
                x, rate = val(fr, "state_cur"), val(fr, "rate")
                if x is None or rate is None:
                    return z3.BoolVal(False)
                c = [steps >= 0, rate == FT(x, t)]  # the cached rate is the right-hand side at the current state AND the current time
                g = ghost["iter"]
                if g is None:
                    c.append(t < t1)
                    ghost["entry"] = dict(x=x, t=t, steps=steps, dt_opt=dt_opt)
                else:
                    e = ghost["entry"]
                    dt = ghost["dt_code"]
                    mid = e["x"] + dt / 2 * FT(e["x"], e["t"])
                    small = mid + dt / 2 * FT(mid, e["t"] + dt / 2)
                    large = e["x"] + dt * FT(e["x"], e["t"])
                    err = z3.If(large - small >= 0, large - small, small - large)
                    acc = err / par["tol"] <= 1
                    c += [x == z3.If(acc, small, e["x"]), t == z3.If(acc, e["t"] + dt, e["t"]), steps == z3.If(acc, e["steps"] + 1, e["steps"]), t < t1,
                          dt > 0, z3.Or(dt <= t1 - e["t"], z3.And(t1 - e["t"] < par["dmin"], dt == par["dmin"]))]  # a step passes the end only when the gap is below dt_min
                    ghost["last"] = dict(dt=dt, small=small, err=err, acc=acc, **{"t": e["t"], "x": e["x"]})
                return z3.And(*c)

            def havoc(interp, fr):
                fr.locals["state_cur"] = sym_array(fresh_name("state_cur"), (1,))
                xr = to_z3(fr.locals["state_cur"].read((0,)))
                rate_v = z3.Real(fresh_name("rate"))
                fr.locals["rate"] = fresh_array("rate", (1,), lambda idx: rate_v)
                fr.locals["t"] = z3.Real(fresh_name("t"))
                fr.locals["steps"] = z3.Int(fresh_name("steps"))
                fr.locals["dt_opt"] = z3.Real(fresh_name("dt_opt"))
                ghost["iter"] = None

            spec = LoopSpec(inv, havoc, f"euler_adaptive_loop[{which}]")
            it.loop_specs[(loopq, 1)] = spec
            # the iteration marker: the first rhs call inside the loop body belongs to the arbitrary iteration
            def rhs_marking(arr, t, _rhs=rhs):
                if ghost.get("entry") is not None:
                    if ghost["iter"] is None:
                        # the step of this iteration as the code chose it: the midpoint evaluation is at t + dt_step / 2
                        ghost["dt_code"] = 2 * (to_z3(to_real(t)) - ghost["entry"]["t"])
                    ghost["iter"] = True
                return _rhs(arr, t)
            solver.attrs["backend"].attrs["make_pde_rhs"] = lambda eq, state: rhs_marking
            if which == "python":
                stepper = it.call(it.getattr(solver, "_make_inner_stepper"), [sf], {})
            else:
                stepper = it.call(it.get_function("pde.backends.numba._solvers", "_make_adaptive_stepper_euler"), [solver, sf], {})
            r = it.call(stepper, [u, t0, t1], {})
            return solver, info, par, ghost, u, t0, t1, r

        n_ret = 0
        for p, res in enumerate(explore_paths(U, body)):
            P = prem_of(res.ctx)
            nm = f"euler_adaptive[{which}].path{p}"
            if res.outcome == "cut":
                continue
            if res.outcome == "raise":
                U.prove(f"{nm}.only_the_dt_min_error_is_raised", P, z3.BoolVal(res.exc.exc_type == "RuntimeError"))
                continue
            n_ret += 1
            solver, info, par, ghost, u, t0, t1, r = res.value
            r = to_z3(to_real(r))
            e = ghost.get("entry")
            if e is None:
                U.prove(f"{nm}.iteration_ghost_recorded", P, z3.BoolVal(False))
                continue
            dt = ghost.get("dt_code")
            if dt is None:
                U.prove(f"{nm}.iteration_ghost_recorded", P, z3.BoolVal(False))
                continue
            mid = e["x"] + dt / 2 * FT(e["x"], e["t"])
            small = mid + dt / 2 * FT(mid, e["t"] + dt / 2)
            large = e["x"] + dt * FT(e["x"], e["t"])
            err = z3.If(large - small >= 0, large - small, small - large)
            U.prove(f"{nm}.ends_at_or_after_t_end", P, r >= t1)
            U.prove(f"{nm}.last_step_accepted_with_step_doubling_error<=tolerance", P, err <= par["tol"])
            U.prove(f"{nm}.final_state==two_half_steps", P, to_z3(u.read((0,))) == small)
            U.prove(f"{nm}.ends_exactly_at_t_end", P, r == t1)
            U.prove(f"{nm}.ends_at_t_end_or_less_than_dt_min_later", P, z3.Or(r == t1, z3.And(t1 - e["t"] < par["dmin"], r - t1 < par["dmin"])))
            U.prove(f"{nm}.info_steps", P, to_z3(info["steps"]) == par["s0"] + e["steps"] + 1)
        U.prove(f"euler_adaptive[{which}].has_return_path", [], z3.BoolVal(n_ret >= 1))
        U.assume_note("Euler adaptive loop: arbitrary time-dependent right-hand side f(u, t); loop invariant: the rate carried into an iteration is f(state, t) at the current time (stage times of the step-doubling scheme: t, t + dt/2, and t + dt for the rate that is reused by the next step)")

    return unit


def step_doubling_unit(U):
    """AdaptiveSolverBase._make_single_step_error_estimate / _make_single_step_variable_dt"""
    def body(it):
        def rhs(arr, t):
            v = F2(to_z3(arr.read((0,))), to_z3(to_real(t)))
            return fresh_array("rhs", (1,), lambda idx: v)
        solver, info, sf, par = _solver(it, "pde.solvers.base", "AdaptiveSolverBase")
        solver.attrs["backend"].attrs["make_pde_rhs"] = lambda eq, state: rhs
        est = it.call(it.get_function("pde.solvers.base", "AdaptiveSolverBase._make_single_step_error_estimate"), [solver, sf], {})
        u = sym_array("u", (1,))
        t, dt = z3.Real("t"), z3.Real("dt")
        new, err = it.call(est, [u, t, dt], {})
        return u, t, dt, new, err

    for p, res in enumerate(explore_paths(U, body)):
        P = prem_of(res.ctx)
        nm = f"step_doubling.path{p}"
        if res.outcome != "return":
            U.prove(f"{nm}.returns_normally", P, z3.BoolVal(False), info={"exc": str(res.exc)})
            continue
        u, t, dt, new, err = res.value
        x = to_z3(u.read((0,)))
        full = x + dt * F2(x, t)
        half = x + dt / 2 * F2(x, t)
        two = half + dt / 2 * F2(half, t + dt / 2)
        U.prove(f"{nm}.new_state==two_half_steps_with_second_stage_at_t+dt/2", P, to_z3(new.read((0,))) == two)
        U.prove(f"{nm}.error==|full_step-two_half_steps|", P, to_z3(to_real(err)) == z3.If(full - two >= 0, full - two, two - full))
        U.prove(f"{nm}.input_state_untouched", P, z3.BoolVal(new.buf is not u.buf))
        a = z3.Real("a")
        zz = a * dt
        U.prove(f"{nm}.lemma:on_du/dt=a*u_estimate==|z|^2/4|u|_and_state==(1+z/2)^2u", [],
                z3.And((x + dt / 2 * a * x) + dt / 2 * a * (x + dt / 2 * a * x) == (1 + zz / 2) * (1 + zz / 2) * x,
                       (x + dt * a * x) - ((x + dt / 2 * a * x) + dt / 2 * a * (x + dt / 2 * a * x)) == -(zz * zz / 4) * x))


def rkf45_unit(U):
    def body(it):
        calls = []
        ks = []

        def rhs(arr, t):
            k = z3.Real(f"K{len(calls) + 1}")
            calls.append((to_z3(arr.read((0,))), to_z3(to_real(t))))
            ks.append(k)
            return fresh_array("rhs", (1,), lambda idx: k)

        solver, info, sf, par = _solver(it, "pde.solvers.runge_kutta", "RungeKuttaSolver")
        solver.attrs["backend"].attrs["make_pde_rhs"] = lambda eq, state: rhs
        it.stub_names["get_array_namespace"] = lambda x: it.stub_modules["numpy"]
        est = it.call(it.getattr(solver, "_make_single_step_error_estimate"), [sf], {})
        u = sym_array("u", (1,))
        t, dt = z3.Real("t"), z3.Real("dt")
        it.ctx.assume(dt > 0)
        new, err = it.call(est, [u, t, dt], {})
        return u, t, dt, new, err, calls, ks

    for p, res in enumerate(explore_paths(U, body)):
        P = prem_of(res.ctx)
        nm = f"rkf45.path{p}"
        if res.outcome != "return":
            U.prove(f"{nm}.returns_normally", P, z3.BoolVal(False), info={"exc": str(res.exc)})
            continue
        u, t, dt, new, err, calls, ks = res.value
        x = to_z3(u.read((0,)))
        U.prove(f"{nm}.six_stages", P, z3.BoolVal(len(calls) == 6))
        if len(calls) != 6:
            continue
        A = [0, Fraction(1, 4), Fraction(3, 8), Fraction(12, 13), 1, Fraction(1, 2)]
        B = [[], [Fraction(1, 4)], [Fraction(3, 32), Fraction(9, 32)], [Fraction(1932, 2197), Fraction(-7200, 2197), Fraction(7296, 2197)],
             [Fraction(439, 216), -8, Fraction(3680, 513), Fraction(-845, 4104)], [Fraction(-8, 27), 2, Fraction(-3544, 2565), Fraction(1859, 4104), Fraction(-11, 40)]]
        C4 = [Fraction(25, 216), 0, Fraction(1408, 2565), Fraction(2197, 4104), Fraction(-1, 5), 0]
        C5 = [Fraction(16, 135), 0, Fraction(6656, 12825), Fraction(28561, 56430), Fraction(-9, 50), Fraction(2, 55)]
        for i in range(6):
            want_u = x + sum((z3.RealVal(B[i][j]) * dt * ks[j] for j in range(i)), z3.RealVal(0))
            U.prove(f"{nm}.stage{i + 1}_argument_and_time_follow_the_Fehlberg_tableau", P, z3.And(calls[i][0] == want_u, calls[i][1] == t + z3.RealVal(A[i]) * dt))
        U.prove(f"{nm}.new_state==fourth_order_combination", P, to_z3(new.read((0,))) == x + sum((z3.RealVal(C4[i]) * dt * ks[i] for i in range(6)), z3.RealVal(0)))
        el = sum((z3.RealVal(C4[i] - C5[i]) * dt * ks[i] for i in range(6)), z3.RealVal(0))
        U.prove(f"{nm}.error==|fourth_minus_fifth_order_combination|", P, z3.Or(to_z3(to_real(err)) == el, to_z3(to_real(err)) == -el))
        U.prove(f"{nm}.error_nonnegative", P, to_z3(to_real(err)) >= 0)
    # tableau lemmas (exact rationals): consistency and order conditions
    A = [0, Fraction(1, 4), Fraction(3, 8), Fraction(12, 13), 1, Fraction(1, 2)]
    B = [[], [Fraction(1, 4)], [Fraction(3, 32), Fraction(9, 32)], [Fraction(1932, 2197), Fraction(-7200, 2197), Fraction(7296, 2197)],
         [Fraction(439, 216), -8, Fraction(3680, 513), Fraction(-845, 4104)], [Fraction(-8, 27), 2, Fraction(-3544, 2565), Fraction(1859, 4104), Fraction(-11, 40)]]
    C4 = [Fraction(25, 216), 0, Fraction(1408, 2565), Fraction(2197, 4104), Fraction(-1, 5), 0]
    C5 = [Fraction(16, 135), 0, Fraction(6656, 12825), Fraction(28561, 56430), Fraction(-9, 50), Fraction(2, 55)]
    ok_rows = all(sum(B[i], Fraction(0)) == A[i] for i in range(6))
    Bf = [[B[i][j] if j < len(B[i]) else Fraction(0) for j in range(6)] for i in range(6)]

    def order_conditions(c, upto):
        s = lambda f: sum((f(i) for i in range(6)), Fraction(0))
        conds = [s(lambda i: c[i]) == 1, s(lambda i: c[i] * A[i]) == Fraction(1, 2), s(lambda i: c[i] * A[i] ** 2) == Fraction(1, 3),
                 s(lambda i: c[i] * sum(Bf[i][j] * A[j] for j in range(6))) == Fraction(1, 6), s(lambda i: c[i] * A[i] ** 3) == Fraction(1, 4),
                 s(lambda i: c[i] * A[i] * sum(Bf[i][j] * A[j] for j in range(6))) == Fraction(1, 8),
                 s(lambda i: c[i] * sum(Bf[i][j] * A[j] ** 2 for j in range(6))) == Fraction(1, 12),
                 s(lambda i: c[i] * sum(Bf[i][j] * sum(Bf[j][k] * A[k] for k in range(6)) for j in range(6))) == Fraction(1, 24)]
        return all(conds[:upto])

    U.prove("rkf45.tableau.row_sums_equal_stage_times", [], z3.BoolVal(ok_rows))
    U.prove("rkf45.tableau.fourth_order_weights_satisfy_the_8_order_conditions", [], z3.BoolVal(order_conditions(C4, 8)))
    U.prove("rkf45.tableau.fifth_order_weights_satisfy_the_order_4_conditions_too", [], z3.BoolVal(order_conditions(C5, 8)))
    U.prove("rkf45.tableau.error_weights_sum_to_zero", [], z3.BoolVal(sum((C4[i] - C5[i] for i in range(6)), Fraction(0)) == 0))
    U.assume_note("RKF45 tableau written in the contract from Fehlberg's table; the code's constants are tied to it by the stage obligations")


def adjust_dt_unit(U):
    def body(it):
        dmin, dmax, dt, err = z3.Real("dt_min"), z3.Real("dt_max"), z3.Real("dt"), z3.Real("error_rel")
        for c in (dmin > 0, dmax >= dmin, dt > 0, err >= 0):
            it.ctx.assume(c)
        f = it.call(it.get_function("pde.solvers.base", "_make_dt_adjuster"), [dmin, dmax], {})
        r = it.call(f, [dt, err], {})
        return r, dmin, dmax, dt, err

    n_ret = n_raise = 0
    for p, res in enumerate(explore_paths(U, body)):
        P = prem_of(res.ctx)
        nm = f"adjust_dt.path{p}"
        dmin, dmax, dt, err = z3.Real("dt_min"), z3.Real("dt_max"), z3.Real("dt"), z3.Real("error_rel")
        grow = POW_FN(err, z3.RealVal(Fraction(-1, 5)))
        factor = z3.If(err < z3.RealVal("0.00057665"), z3.RealVal(4), z3.If(z3.RealVal(Fraction(9, 10)) * grow >= z3.RealVal(Fraction(1, 10)), z3.RealVal(Fraction(9, 10)) * grow, z3.RealVal(Fraction(1, 10))))
        prop = dt * factor
        if res.outcome == "raise":
            n_raise += 1
            U.prove(f"{nm}.RuntimeError_only_when_the_proposal_falls_below_dt_min", P, z3.And(z3.BoolVal(res.exc.exc_type == "RuntimeError"), prop < dmin, prop <= dmax))
            continue
        n_ret += 1
        r = to_z3(to_real(res.value[0]))
        U.prove(f"{nm}.result_within_[dt_min,dt_max]", P, z3.And(r >= dmin, r <= dmax))
        U.prove(f"{nm}.result==min(proposal,dt_max)_with_proposal=dt*4_or_dt*max(0.9*err^-0.2,0.1)", P, r == z3.If(prop > dmax, dmax, prop))
        U.prove(f"{nm}.never_shrinks_by_more_than_a_factor_10_nor_grows_by_more_than_4", P + [grow >= 0, grow <= z3.RealVal(Fraction(40, 9))], z3.And(r >= z3.If(dt / 10 <= dmax, dt / 10, dmax), r <= 4 * dt))
    U.prove("adjust_dt.has_return_and_error_paths", [], z3.BoolVal(n_ret >= 2 and n_raise >= 1))
    U.assume_note("x^(-0.2) uninterpreted; NaN branch of adjust_dt outside the real model")


UNITS = [
    ("adaptive.loop.python", general_loop_unit("python")),
    ("adaptive.loop.numba", general_loop_unit("numba")),
    ("adaptive.euler_loop.python", euler_loop_unit("python")),
    ("adaptive.euler_loop.numba", euler_loop_unit("numba")),
    ("adaptive.step_doubling_estimate", step_doubling_unit),
    ("adaptive.rkf45_estimate", rkf45_unit),
    ("adaptive.adjust_dt", adjust_dt_unit),
]
