"""C03 -- every route to the same operator-with-BC result agrees: proof by transitivity (DESIGN.md §4, C03).

No route is compared with another one.  Each route wrapper gets the same postcondition
    result = K_op(G_bc(pad(arr)))        (K_op: C01 stencil contract, G_bc: C02 ghost-cell contract)
with K and G entering through their contracts (uninterpreted array transformers that log their calls):
the padded array's valid region is the input, the ghost-cell setter runs exactly once on it WITH the
caller's `args`, the raw operator runs once on the result and writes `out`, and `out` is the caller's array
when given and a fresh array of the output shape otherwise.  Schedule independence of every prange kernel
(multi-threaded = serial) and order independence of the per-face setters are the C01/C02 obligations
(iterations_independent / frame), re-checked here for the prange kernels."""

from __future__ import annotations

import z3

from ..arrays import NDArr, fresh_array, sym_array
from ..builtins_model import StubModule, TypeTag
from ..objects import Instance
from ..values import Opaque, Unsupported, fresh_name, to_z3
from . import C01
from .common import explore_paths, make_backend_stub, prem_of

PROPERTY = "C03"
G = z3.Function("ghost_cells_set", z3.IntSort(), z3.RealSort())   # content after G_bc, by call number and index is abstracted
N = z3.Int("N")


class TagType(TypeTag):
    def check(self, obj):
        return isinstance(obj, Instance) and self.name in obj.attrs.get("__isinstance__", ())


class Env:
    def __init__(self, it):
        self.it = it
        self.log = []
        self.args_token = Instance(None, {}, name="args")
        it.ctx.assume(N >= 1)
        grid = Instance(None, {"dim": 1, "shape": (N,), "_shape_full": (N + 2,), "_idx_valid": (slice(1, -1),)}, name="grid")
        self.grid = grid

        def set_ghost_cells(arr_full, args=None):
            self.log.append(("ghost", arr_full, args, arr_full.buf.content))
            # G_bc: writes the two ghost cells with values that depend on the valid cells (uninterpreted)
            arr_full.assign(0, z3.Real(fresh_name("ghost_lo")))
            arr_full.assign(-1, z3.Real(fresh_name("ghost_hi")))

        self.bcs = Instance(None, {"set_ghost_cells": set_ghost_cells, "grid": grid, "rank": 0}, name="bcs")
        OP = z3.Function("K_op", z3.RealSort(), z3.RealSort(), z3.RealSort(), z3.RealSort())

        def operator_raw(arr_full, out):
            self.log.append(("operator", arr_full, out))
            rd = arr_full.frozen()
            j = z3.Int(fresh_name("j"))
            from ..arrays import MapLayer
            out.buf.push(MapLayer(out.buf.content, [(j, 0, N)], True, out.base_index((j,)), OP(to_z3(rd((j,))), to_z3(rd((j + 1,))), to_z3(rd((j + 2,))))))

        self.OP = OP
        self.operator_raw = operator_raw
        info = Instance(None, {"factory": lambda grid, backend=None, **kw: operator_raw, "rank_in": 0, "rank_out": 0}, name="operator_info")

        def set_valid_and_bcs(arr_full, arr, args=None):
            self.log.append(("setter", arr_full, arr, args))
            arr_full.assign(slice(1, -1), arr)
            set_ghost_cells(arr_full, args=args)

        cls = it.load_module("pde.backends.numba.backend").get("NumbaBackend")
        self.backend = Instance(cls, {"get_operator_info": lambda grid, op: info, "make_full_data_setter": lambda bcs=None: set_valid_and_bcs,
                                      "compile_function": lambda f: f, "_logger": Opaque("logger")})
        it.stub_modules["numba"].attrs["types"] = StubModule("numba.types", {"NoneType": TagType("NoneType", None), "Omitted": TagType("Omitted", None)})
        self.captured = {}
        for nm in ("apply_op", "apply_op_ol"):
            it.local_def_overrides[("NumbaBackend.make_operator", nm)] = (lambda f, nm=nm: self.captured.setdefault(nm, f))
        try:
            it.call(it.getattr(self.backend, "make_operator"), [grid, "laplace"], {"bcs": self.bcs})
        except Unsupported:
            if "apply_op" not in self.captured or "apply_op_ol" not in self.captured:
                raise


def _post(U, nm, P, env, arr, out_given, result):
    log = env.log
    ghosts = [e for e in log if e[0] == "ghost"]
    ops = [e for e in log if e[0] == "operator"]
    U.prove(f"{nm}.ghost_cells_set_exactly_once_and_operator_applied_once_after_it", P, z3.BoolVal(len(ghosts) == 1 and len(ops) == 1 and log.index(ghosts[0]) < log.index(ops[0])))
    if len(ghosts) != 1 or len(ops) != 1:
        return
    full = ghosts[0][1]
    U.prove(f"{nm}.caller_args_reach_the_ghost_cell_setter", P, z3.BoolVal(ghosts[0][2] is env.args_token))
    U.prove(f"{nm}.operator_reads_the_padded_array_whose_ghost_cells_were_set", P, z3.BoolVal(ops[0][1].buf is full.buf and tuple(full.shape) == (N + 2,) or ops[0][1].buf is full.buf))
    j = z3.Int("j")
    # valid region of the padded array = the input (read from the content the ghost-cell setter saw)
    U.prove(f"{nm}.padded_valid_region==input", P + [j >= 0, j < N], to_z3(ghosts[0][3].read(full.base_index((j + 1,)))) == to_z3(arr.read((j,))))
    U.prove(f"{nm}.result_is_out_when_given_else_a_fresh_array", P, z3.BoolVal(isinstance(result, NDArr) and ops[0][2].buf is result.buf and ((result.buf is out_given.buf) if out_given is not None else (result.buf is not arr.buf and result.buf is not full.buf))))
    if isinstance(result, NDArr):
        U.prove(f"{nm}.result_shape", P, to_z3(result.shape[0]) == N)


def route_unit(route):
    def unit(U):
        def body(it):
            env = Env(it)
            arr = sym_array("arr", (N,))
            out = sym_array("out", (N,)) if "with_out" in route else None
            if route.startswith("python"):
                fn = env.captured["apply_op"]
            else:
                marker = Instance(None, {"__isinstance__": ("NoneType",) if out is None else ("Array",)}, name="numba type of out")
                fn = it.call(env.captured["apply_op_ol"], [Opaque("type of arr"), marker, Opaque("type of args")], {})
            env.log.clear()
            r = it.call(fn, [arr, out, env.args_token], {})
            return env, arr, out, r

        for p, res in enumerate(explore_paths(U, body)):
            P = prem_of(res.ctx)
            nm = f"{route}.path{p}"
            if res.outcome != "return":
                U.prove(f"{nm}.returns_normally", P, z3.BoolVal(False), info={"exc": str(res.exc)})
                continue
            env, arr, out, r = res.value
            _post(U, nm, P, env, arr, out, r)

    return unit


def numpy_setter_unit(U):
    """numpy backend: make_ghost_cell_setter / make_full_data_setter forward args to bcs.set_ghost_cells"""
    def body(it):
        calls = []
        token = Instance(None, {}, name="args")

        def set_ghost_cells(data_full, *pos, **kw):
            if pos:
                from ..ctx import PyRaise
                raise PyRaise("TypeError", ("set_ghost_cells() takes 2 positional arguments",))
            calls.append((data_full, kw.get("args")))

        bcs = Instance(None, {"set_ghost_cells": set_ghost_cells}, name="bcs")
        cls = it.load_module("pde.backends.numpy.backend").get("NumpyBackend")
        be = Instance(cls, {})
        setter = it.call(it.getattr(be, "make_ghost_cell_setter"), [bcs], {})
        full = sym_array("full", (N + 2,))
        it.call(setter, [full], {})
        it.call(setter, [full, token], {})
        return calls, full, token

    for p, res in enumerate(explore_paths(U, body)):
        P = prem_of(res.ctx)
        if res.outcome != "return":
            U.prove(f"numpy.ghost_cell_setter.path{p}.route_returns_normally_with_and_without_args", P, z3.BoolVal(False), info={"exc": str(res.exc)})
            continue
        calls, full, token = res.value
        U.prove(f"numpy.ghost_cell_setter.path{p}.args_are_forwarded", P, z3.BoolVal(len(calls) == 2 and calls[0][1] is None and calls[1][1] is token and all(c[0] is full for c in calls)))


def _prange_units():
    out = []
    for (kind, op), optlist in C01.OPTIONS.items():
        if kind in ("cartesian", "cylindrical"):
            dims = (2, 3) if kind == "cartesian" else (None,)
            for d in dims:
                opts = optlist[0]
                out.append((f"schedule_independence.{kind}{d or ''}.{op}[{C01._optstr(opts)}]", C01.kernel_unit(kind, d, op, opts)))
    return out


def field_method_unit(out_given, bc_given):
    """the field-method route (DataFieldBase.apply_operator, behind field.laplace(bc) etc.): result = K_op(G_bc(padded
    array of the field)) -- the caller's bc and args reach set_ghost_cells exactly once before the raw operator is
    applied to the field's own padded array; the raw operator is built from the looked-up operator and the caller's
    options; the result is the caller's `out` when given (of the class the output rank prescribes) and otherwise a new
    field of that class on the same grid"""
    from ..objects import Instance
    from ..values import Opaque

    def unit(U):
        def body(it):
            cls = it.module_attr(it.load_module("pde.fields.datafield_base"), "DataFieldBase")
            log = []
            rank_out = 1 if it.ctx.branch(z3.Bool("operator_maps_to_a_vector")) else 0
            info = Instance(None, {"rank_out": rank_out, "rank_in": 0, "name": "op"}, name="OperatorInfo")
            backend = Instance(None, {"get_operator_info": lambda g, name: (log.append(("info", g, name)), info)[1],
                                      "_apply_operator": lambda op, full, out=None: log.append(("apply", op, full, out))}, name="backend")
            it.stub_names["get_backend"] = lambda name=None: (log.append(("backend", name)), backend)[1]
            op_token = Instance(None, {}, name="raw operator")
            grid = Instance(None, {"make_operator_no_bc": lambda oi, backend=None, **kw: (log.append(("make_no_bc", oi, backend, kw)), op_token)[1],
                                   "assert_grid_compatible": lambda g: log.append(("grid_check", g))}, name="grid")
            full = Instance(None, {}, name="padded array of the field")
            made = []

            def out_class(rank):
                def ctor(g, data=None, label=None, dtype=None, **kw):
                    f = Instance(None, {"grid": g, "data": Instance(None, {}, name="data of the new field"), "label": label, "dtype": dtype, "rank": rank, "made_with": data}, name=f"new field rank {rank}")
                    made.append(f)
                    return f
                return Instance(None, {"__call__": ctor, "__name__": f"FieldRank{rank}", "rank": rank}, name=f"FieldClass{rank}")

            classes = {0: out_class(0), 1: out_class(1)}
            dtype = Opaque("dtype")
            field = Instance(cls, {"_grid": grid, "__data_full": full, "dtype": dtype, "get_class_by_rank": lambda r: classes[r],
                                   "set_ghost_cells": lambda bc, args=None, **kw: log.append(("ghost", bc, args, kw))})
            bc, args = (Instance(None, {}, name="caller's bc") if bc_given else None), Instance(None, {}, name="caller's args")
            out = None
            if out_given:
                out = Instance(None, {"grid": Instance(None, {}, name="grid of out"), "data": Instance(None, {}, name="data of out"), "label": "old", "rank": rank_out}, name="caller's out")
                it.builtins["isinstance"] = (lambda orig: (lambda o, c: True if (o is out and c is classes[rank_out]) else (False if o is out else orig(o, c))))(it.builtins["isinstance"])
            # whether the output array may overlap the padded input (e.g. out is the field itself) is arbitrary
            overlap = {"asked": [], "answer": None}

            def may_share(a, b):
                overlap["asked"].append((a, b))
                overlap["answer"] = bool(it.ctx.branch(z3.Bool("output_array_may_overlap_the_padded_input")))
                return overlap["answer"]

            it.stub_modules["numpy"].attrs["may_share_memory"] = may_share
            it.stub_modules["numpy"].attrs["shares_memory"] = may_share
            it.stub_modules["numpy"].attrs["empty_like"] = lambda a, **kw: Instance(None, {}, name="temporary array")
            out_data_before = out.attrs["data"] if out is not None else None
            r = it.call(it.getattr(field, "apply_operator"), ["the_operator"], {"bc": bc, "out": out, "label": "lbl", "args": args, "backend": "some backend", "option": 7})
            return r, log, made, field, grid, full, info, op_token, backend, bc, args, out, rank_out, dtype, overlap, out_data_before

        for p, res in enumerate(explore_paths(U, body)):
            P = prem_of(res.ctx)
            nm = f"path{p}"
            if res.outcome != "return":
                U.prove(f"{nm}.returns_normally", P, z3.BoolVal(False), info={"exc": str(res.exc)})
                continue
            r, log, made, field, grid, full, info, op_token, backend, bc, args, out, rank_out, dtype, overlap, out_data_before = res.value
            kinds = [e[0] for e in log]
            ghosts = [e for e in log if e[0] == "ghost"]
            applies = [e for e in log if e[0] == "apply"]
            U.prove(f"{nm}.ghost_cells_set_exactly_once_with_the_caller's_bc_and_args_iff_bc_is_given", P,
                    z3.BoolVal((len(ghosts) == 1 and ghosts[0][1] is bc and ghosts[0][2] is args) if bc_given else len(ghosts) == 0))
            U.prove(f"{nm}.raw_operator_applied_once_after_the_ghost_cells_were_set", P,
                    z3.BoolVal(len(applies) == 1 and (not bc_given or kinds.index("ghost") < kinds.index("apply"))))
            mk = [e for e in log if e[0] == "make_no_bc"]
            inf = [e for e in log if e[0] == "info"]
            U.prove(f"{nm}.operator_looked_up_for_this_grid_and_name_and_built_with_the_caller's_options", P,
                    z3.BoolVal(len(inf) == 1 and inf[0][1] is grid and inf[0][2] == "the_operator" and len(mk) == 1 and mk[0][1] is info and mk[0][2] is backend and mk[0][3] == {"option": 7}))
            ok_apply = len(applies) == 1 and applies[0][1] is op_token and applies[0][2] is full and isinstance(r, Instance) and applies[0][3] is r.attrs.get("data")
            U.prove(f"{nm}.operator_reads_the_field's_padded_array_and_writes_the_data_of_the_returned_field", P, z3.BoolVal(bool(ok_apply)))
            if out_given:
                # the kernels read neighbours of cells they have already written: never in place
                U.prove(f"{nm}.operator_never_writes_an_array_that_may_overlap_its_input", P,
                        z3.BoolVal(len(overlap["asked"]) >= 1 and len(applies) == 1 and (not overlap["answer"] or applies[0][3] is not out_data_before)),
                        info={"replay_payload": {"out_alias": True}})
                U.prove(f"{nm}.result_is_the_caller's_out_with_the_new_label_after_the_grid_check", P,
                        z3.BoolVal(r is out and not made and out.attrs.get("label") == "lbl" and any(e[0] == "grid_check" and e[1] is out.attrs["grid"] for e in log)))
            else:
                U.prove(f"{nm}.result_is_a_new_field_of_the_output_rank_on_the_same_grid", P,
                        z3.BoolVal(len(made) == 1 and r is made[0] and r.attrs["rank"] == rank_out and r.attrs["grid"] is grid and r.attrs["label"] == "lbl" and r.attrs["dtype"] is dtype))

    return unit


def grid_make_operator_unit(U):
    """GridBase.make_operator / make_operator_no_bc: the caller's bc becomes conditions OF THIS GRID with the input
    rank of the looked-up operator, and operator, conditions, dtype and options are handed to the backend unchanged"""
    from ..objects import Instance

    def body(it):
        cls = it.module_attr(it.load_module("pde.grids.base"), "GridBase")
        log = []
        rank_in = z3.Int("rank_in")
        info = Instance(None, {"rank_in": rank_in, "rank_out": 0}, name="OperatorInfo")
        result, result2 = Instance(None, {}, name="operator with bc"), Instance(None, {}, name="operator without bc")
        backend = Instance(None, {"get_operator_info": lambda g, name: (log.append(("info", g, name)), info)[1],
                                  "make_operator": lambda g, oi, **kw: (log.append(("make", g, oi, kw)), result)[1],
                                  "make_operator_no_bc": lambda g, **kw: (log.append(("make_no_bc", g, kw)), result2)[1]}, name="backend")
        it.stub_names["get_backend"] = lambda name=None: (log.append(("backend", name)), backend)[1]
        bcs = Instance(None, {}, name="conditions of this grid")
        grid = Instance(cls, {"get_boundary_conditions": lambda bc, rank=None: (log.append(("bcs", bc, rank)), bcs)[1]})
        bc, dtype = Instance(None, {}, name="caller's bc"), Instance(None, {}, name="dtype")
        r = it.call(it.getattr(grid, "make_operator"), ["the_operator", bc], {"backend": "b", "dtype": dtype, "option": 7})
        r2 = it.call(it.getattr(grid, "make_operator_no_bc"), ["the_operator"], {"backend": "b", "dtype": dtype, "option": 7})
        return r, r2, log, grid, bc, bcs, info, dtype, result, result2, rank_in

    for p, res in enumerate(explore_paths(U, body)):
        P = prem_of(res.ctx)
        nm = f"path{p}"
        if res.outcome != "return":
            U.prove(f"{nm}.returns_normally", P, z3.BoolVal(False), info={"exc": str(res.exc)})
            continue
        r, r2, log, grid, bc, bcs, info, dtype, result, result2, rank_in = res.value
        b = [e for e in log if e[0] == "bcs"]
        m = [e for e in log if e[0] == "make"]
        n = [e for e in log if e[0] == "make_no_bc"]
        U.prove(f"{nm}.caller's_bc_is_parsed_for_this_grid_with_the_operator's_input_rank", P, z3.And(z3.BoolVal(len(b) == 1 and b[0][1] is bc), to_z3(b[0][2]) == rank_in) if len(b) == 1 else z3.BoolVal(False))
        U.prove(f"{nm}.backend_gets_grid_operator_conditions_dtype_and_options", P,
                z3.BoolVal(len(m) == 1 and m[0][1] is grid and m[0][2] is info and m[0][3].get("bcs") is bcs and m[0][3].get("dtype") is dtype and m[0][3].get("option") == 7 and r is result))
        U.prove(f"{nm}.no_bc_variant_forwards_grid_operator_dtype_and_options", P,
                z3.BoolVal(len(n) == 1 and n[0][1] is grid and n[0][2].get("operator") == "the_operator" and n[0][2].get("dtype") is dtype and n[0][2].get("option") == 7 and r2 is result2))


UNITS = [("grid.make_operator_dispatch", grid_make_operator_unit)]
UNITS += [(f"field_method.apply_operator[out={'given' if o else 'None'},bc={'given' if b else 'None'}]", field_method_unit(o, b)) for o in (False, True) for b in (True, False)]
UNITS += [(r, route_unit(r)) for r in ("python.apply_op", "python.apply_op.with_out", "compiled.apply_op_impl", "compiled.apply_op_impl.with_out")] + [
    ("numpy.ghost_cell_setter", numpy_setter_unit)] + _prange_units()


def replay(o):
    return C01.replay(o)


def bounded(tier, seed):
    from ..runner import native

    res = native("routes.py", {"seed": seed, "n": 2 if tier == "quick" else 12}, timeout=3000)
    if not res.get("ok"):
        raise RuntimeError(f"native driver failed: {res}")
    return [{"name": "all_routes_on_random_instances", "bound": "random grids of every class x operators x BC kinds (incl. time-dependent callables with args): field methods, make_operator on numba/scipy with and without out, make_operator_no_bc after set_ghost_cells, compiled vs interpreted setters, matrix route, 1 vs many threads; scipy vs numba on grids with tiny cells of different size per axis (refused or equal)",
             "cases": res["cases"], "failures": res["failures"]}]


TRUSTED = ["K_op and G_bc enter through their contracts (C01, C02)", "numba overload dispatch on the type of `out` (NoneType/Omitted vs array) modelled by type tags"]
ASSUMPTIONS = ["prange executes each iteration exactly once; iterations_independent obligations make the result schedule independent", "round-off differences between routes are below the model"]
NOT_COVERED = ["scipy backend kernels (ndimage), the per-operator convenience methods (laplace, gradient, ...: one-line calls of apply_operator) and the backend registry lookup: bounded native check only"]
