"""C03 -- every route to the same operator-with-BC result agrees: proof by transitivity (DESIGN.md §4, C03).

No route is compared with another one.  Each route wrapper gets the same postcondition
    result = K_op(G_bc(pad(arr)))        (K_op: C01 stencil contract, G_bc: C02 ghost-cell contract)
with K and G entering through their contracts (uninterpreted array transformers that log their calls):
the padded array's valid region is the input, the ghost-cell setter runs exactly once on it WITH the
caller's `args`, the raw operator runs once on the result and writes `out`, and `out` is the caller's array
when given and a fresh array of the output shape otherwise.  Schedule independence of every prange kernel
(multi-threaded = serial) and order independence of the per-face setters are the C01/C02 obligations
(iterations_independent / frame), re-checked here for the prange kernels."""

from __future__ import annotations

import z3

from ..arrays import NDArr, fresh_array, sym_array
from ..builtins_model import StubModule, TypeTag
from ..objects import Instance
from ..values import Opaque, Unsupported, fresh_name, to_z3
from . import C01
from .common import explore_paths, make_backend_stub, prem_of

PROPERTY = "C03"
G = z3.Function("ghost_cells_set", z3.IntSort(), z3.RealSort())   # content after G_bc, by call number and index is abstracted
N = z3.Int("N")


class TagType(TypeTag):
    def check(self, obj):
        return isinstance(obj, Instance) and self.name in obj.attrs.get("__isinstance__", ())


class Env:
    def __init__(self, it):
        self.it = it
        self.log = []
        self.args_token = Instance(None, {}, name="args")
        it.ctx.assume(N >= 1)
        grid = Instance(None, {"dim": 1, "shape": (N,), "_shape_full": (N + 2,), "_idx_valid": (slice(1, -1),)}, name="grid")
        self.grid = grid

        def set_ghost_cells(arr_full, args=None):
            self.log.append(("ghost", arr_full, args, arr_full.buf.content))
            # G_bc: writes the two ghost cells with values that depend on the valid cells (uninterpreted)
            arr_full.assign(0, z3.Real(fresh_name("ghost_lo")))
            arr_full.assign(-1, z3.Real(fresh_name("ghost_hi")))

        self.bcs = Instance(None, {"set_ghost_cells": set_ghost_cells, "grid": grid, "rank": 0}, name="bcs")
        OP = z3.Function("K_op", z3.RealSort(), z3.RealSort(), z3.RealSort(), z3.RealSort())

        def operator_raw(arr_full, out):
            self.log.append(("operator", arr_full, out))
            rd = arr_full.frozen()
            j = z3.Int(fresh_name("j"))
            from ..arrays import MapLayer
            out.buf.push(MapLayer(out.buf.content, [(j, 0, N)], True, out.base_index((j,)), OP(to_z3(rd((j,))), to_z3(rd((j + 1,))), to_z3(rd((j + 2,))))))

        self.OP = OP
        self.operator_raw = operator_raw
        info = Instance(None, {"factory": lambda grid, backend=None, **kw: operator_raw, "rank_in": 0, "rank_out": 0}, name="operator_info")

        def set_valid_and_bcs(arr_full, arr, args=None):
            self.log.append(("setter", arr_full, arr, args))
            arr_full.assign(slice(1, -1), arr)
            set_ghost_cells(arr_full, args=args)

        cls = it.load_module("pde.backends.numba.backend").get("NumbaBackend")
        self.backend = Instance(cls, {"get_operator_info": lambda grid, op: info, "make_full_data_setter": lambda bcs=None: set_valid_and_bcs,
                                      "compile_function": lambda f: f, "_logger": Opaque("logger")})
        it.stub_modules["numba"].attrs["types"] = StubModule("numba.types", {"NoneType": TagType("NoneType", None), "Omitted": TagType("Omitted", None)})
        self.captured = {}
        for nm in ("apply_op", "apply_op_ol"):
            it.local_def_overrides[("NumbaBackend.make_operator", nm)] = (lambda f, nm=nm: self.captured.setdefault(nm, f))
        try:
            it.call(it.getattr(self.backend, "make_operator"), [grid, "laplace"], {"bcs": self.bcs})
        except Unsupported:
            if "apply_op" not in self.captured or "apply_op_ol" not in self.captured:
                raise


def _post(U, nm, P, env, arr, out_given, result):
    log = env.log
    ghosts = [e for e in log if e[0] == "ghost"]
    ops = [e for e in log if e[0] == "operator"]
    U.prove(f"{nm}.ghost_cells_set_exactly_once_and_operator_applied_once_after_it", P, z3.BoolVal(len(ghosts) == 1 and len(ops) == 1 and log.index(ghosts[0]) < log.index(ops[0])))
    if len(ghosts) != 1 or len(ops) != 1:
        return
    full = ghosts[0][1]
    U.prove(f"{nm}.caller_args_reach_the_ghost_cell_setter", P, z3.BoolVal(ghosts[0][2] is env.args_token))
    U.prove(f"{nm}.operator_reads_the_padded_array_whose_ghost_cells_were_set", P, z3.BoolVal(ops[0][1].buf is full.buf and tuple(full.shape) == (N + 2,) or ops[0][1].buf is full.buf))
    j = z3.Int("j")
    # valid region of the padded array = the input (read from the content the ghost-cell setter saw)
    U.prove(f"{nm}.padded_valid_region==input", P + [j >= 0, j < N], to_z3(ghosts[0][3].read(full.base_index((j + 1,)))) == to_z3(arr.read((j,))))
    U.prove(f"{nm}.result_is_out_when_given_else_a_fresh_array", P, z3.BoolVal(isinstance(result, NDArr) and ops[0][2].buf is result.buf and ((result.buf is out_given.buf) if out_given is not None else (result.buf is not arr.buf and result.buf is not full.buf))))
    if isinstance(result, NDArr):
        U.prove(f"{nm}.result_shape", P, to_z3(result.shape[0]) == N)


def route_unit(route):
    def unit(U):
        def body(it):
            env = Env(it)
            arr = sym_array("arr", (N,))
            out = sym_array("out", (N,)) if "with_out" in route else None
            if route.startswith("python"):
                fn = env.captured["apply_op"]
            else:
                marker = Instance(None, {"__isinstance__": ("NoneType",) if out is None else ("Array",)}, name="numba type of out")
                fn = it.call(env.captured["apply_op_ol"], [Opaque("type of arr"), marker, Opaque("type of args")], {})
            env.log.clear()
            r = it.call(fn, [arr, out, env.args_token], {})
            return env, arr, out, r

        for p, res in enumerate(explore_paths(U, body)):
            P = prem_of(res.ctx)
            nm = f"{route}.path{p}"
            if res.outcome != "return":
                U.prove(f"{nm}.returns_normally", P, z3.BoolVal(False), info={"exc": str(res.exc)})
                continue
            env, arr, out, r = res.value
            _post(U, nm, P, env, arr, out, r)

    return unit


def numpy_setter_unit(U):
    """numpy backend: make_ghost_cell_setter / make_full_data_setter forward args to bcs.set_ghost_cells"""
    def body(it):
        calls = []
        token = Instance(None, {}, name="args")

        def set_ghost_cells(data_full, *pos, **kw):
            if pos:
                from ..ctx import PyRaise
                raise PyRaise("TypeError", ("set_ghost_cells() takes 2 positional arguments",))
            calls.append((data_full, kw.get("args")))

        bcs = Instance(None, {"set_ghost_cells": set_ghost_cells}, name="bcs")
        cls = it.load_module("pde.backends.numpy.backend").get("NumpyBackend")
        be = Instance(cls, {})
        setter = it.call(it.getattr(be, "make_ghost_cell_setter"), [bcs], {})
        full = sym_array("full", (N + 2,))
        it.call(setter, [full], {})
        it.call(setter, [full, token], {})
        return calls, full, token

    for p, res in enumerate(explore_paths(U, body)):
        P = prem_of(res.ctx)
        if res.outcome != "return":
            U.prove(f"numpy.ghost_cell_setter.path{p}.route_returns_normally_with_and_without_args", P, z3.BoolVal(False), info={"exc": str(res.exc)})
            continue
        calls, full, token = res.value
        U.prove(f"numpy.ghost_cell_setter.path{p}.args_are_forwarded", P, z3.BoolVal(len(calls) == 2 and calls[0][1] is None and calls[1][1] is token and all(c[0] is full for c in calls)))


def _prange_units():
    out = []
    for (kind, op), optlist in C01.OPTIONS.items():
        if kind in ("cartesian", "cylindrical"):
            dims = (2, 3) if kind == "cartesian" else (None,)
            for d in dims:
                opts = optlist[0]
                out.append((f"schedule_independence.{kind}{d or ''}.{op}[{C01._optstr(opts)}]", C01.kernel_unit(kind, d, op, opts)))
    return out


UNITS = [(r, route_unit(r)) for r in ("python.apply_op", "python.apply_op.with_out", "compiled.apply_op_impl", "compiled.apply_op_impl.with_out")] + [
    ("numpy.ghost_cell_setter", numpy_setter_unit)] + _prange_units()


def replay(o):
    return C01.replay(o)


def bounded(tier, seed):
    from ..runner import native

    res = native("routes.py", {"seed": seed, "n": 2 if tier == "quick" else 12}, timeout=3000)
    if not res.get("ok"):
        raise RuntimeError(f"native driver failed: {res}")
    return [{"name": "all_routes_on_random_instances", "bound": "random grids of every class x operators x BC kinds (incl. time-dependent callables with args): field methods, make_operator on numba/scipy with and without out, make_operator_no_bc after set_ghost_cells, compiled vs interpreted setters, matrix route, 1 vs many threads",
             "cases": res["cases"], "failures": res["failures"]}]


TRUSTED = ["K_op and G_bc enter through their contracts (C01, C02)", "numba overload dispatch on the type of `out` (NoneType/Omitted vs array) modelled by type tags"]
ASSUMPTIONS = ["prange executes each iteration exactly once; iterations_independent obligations make the result schedule independent", "round-off differences between routes are below the model"]
NOT_COVERED = ["scipy backend kernels (ndimage), fields/datafield_base.apply_operator and grids/base.make_operator dispatch: bounded native check only"]
