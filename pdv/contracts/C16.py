"""C16 -- interpolation exact where it must be; insertion conserves (DESIGN.md §4, C16)."""

from __future__ import annotations

import itertools
from fractions import Fraction

import z3

from ..arrays import MapLayer, NDArr, PointLayer, sym_array
from ..objects import Instance
from ..values import Opaque, fresh_name, to_real, to_z3
from .common import explore_paths, make_backend_stub, prem_of

PROPERTY = "C16"
MOD = "pde.backends.numba.grids"
EPS = Fraction(1, 10**15)


def axis_data_unit(periodic, with_ghost, cell_coords):
    tag = f"periodic={periodic},ghost={with_ghost},cell_coords={cell_coords}"

    def unit(U):
        def body(it):
            N, lo, dx, coord = z3.Int("N"), z3.Real("lo"), z3.Real("dx"), z3.Real("coord")
            it.ctx.assume(N >= 1)
            it.ctx.assume(dx > 0)
            grid = Instance(None, {"shape": (N,), "periodic": [periodic], "axes_bounds": ((lo, lo + z3.ToReal(N) * dx),), "discretization": [dx]}, name="grid")
            f = it.call(it.get_function(MOD, "make_interpolation_axis_data"), [grid, 0], {"with_ghost_cells": with_ghost, "cell_coords": cell_coords})
            r = it.call(f, [coord], {})
            # position in units of cell centres; cell coordinates put the centre of cell i at i + 1/2 (GridBase.transform, C12)
            x = (coord if cell_coords else (coord - lo) / dx) - Fraction(1, 2)
            return r, N, x

        n_code = n_ok = 0
        for p, res in enumerate(explore_paths(U, body)):
            P = prem_of(res.ctx)
            nm = f"get_axis_data[{tag}].path{p}"
            if res.outcome != "return":
                U.prove(f"{nm}.returns_normally", P, z3.BoolVal(False), info={"exc": str(res.exc)})
                continue
            (c_li, c_hi, w_l, w_h), N, x = res.value
            c_li, c_hi, w_l, w_h = to_z3(c_li), to_z3(c_hi), to_z3(to_real(w_l)), to_z3(to_real(w_h))
            inside = z3.And(x >= -Fraction(1, 2), x <= z3.ToReal(N) - Fraction(1, 2))
            from ..values import concrete
            if concrete(c_li) == -42:
                n_code += 1
                U.prove(f"{nm}.out_of_domain_code_only_outside", P, z3.And(z3.Not(inside), z3.BoolVal(not periodic)))
                U.prove(f"{nm}.out_of_domain_code_is_complete", P, z3.And(c_hi == -42, w_l == 0, w_h == 0))
                continue
            n_ok += 1
            shift = 1 if with_ghost else 0
            if not periodic:
                U.prove(f"{nm}.normal_result_only_inside", P, inside)
            hi_bound = N + 2 if with_ghost else N
            U.prove(f"{nm}.indices_in_range", P, z3.And(c_li >= 0, c_li < hi_bound, c_hi >= 0, c_hi < hi_bound))
            U.prove(f"{nm}.weights_nonnegative", P, z3.And(w_l >= 0, w_h >= 0))
            U.prove(f"{nm}.weights_sum_to_one_up_to_clipping", P, z3.And(w_l + w_h <= 1, w_l + w_h > 1 - EPS))
            fl = z3.ToInt(x)
            # at a cell centre: that cell with weight one
            U.prove(f"{nm}.cell_centre_gets_weight_one", P + [x == z3.ToReal(fl)],
                    z3.And(w_l == 1, w_h == 0, c_li - shift == (fl % N if periodic else fl)))
            # linear in between: the support cells are floor(x), floor(x)+1 (wrapped / nearest neighbour in the strips)
            if periodic:
                U.prove(f"{nm}.support_cells_wrap_periodically", P, z3.And(c_li - shift == fl % N, c_hi - shift == (fl + 1) % N))
                U.prove(f"{nm}.weight_is_fraction", P + [w_l >= EPS, w_h >= EPS], w_h == x - z3.ToReal(fl))
            elif with_ghost:
                U.prove(f"{nm}.support_cells_are_floor_and_next", P, z3.And(c_li - shift == fl, c_hi - shift == fl + 1))
                U.prove(f"{nm}.weight_is_fraction", P + [w_l >= EPS, w_h >= EPS], w_h == x - z3.ToReal(fl))
            else:
                bulk = z3.And(x >= 0, x < z3.ToReal(N) - 1)
                U.prove(f"{nm}.bulk:support_cells_are_floor_and_next", P + [bulk], z3.And(c_li == fl, c_hi == fl + 1))
                U.prove(f"{nm}.bulk:weight_is_fraction", P + [bulk, w_l >= EPS, w_h >= EPS], w_h == x - z3.ToReal(fl))
                U.prove(f"{nm}.strips:nearest_boundary_cell_twice", P + [z3.Not(bulk)],
                        z3.And(c_li == c_hi, z3.Or(c_li == 0, c_li == N - 1), z3.Implies(x < 0, c_li == 0), z3.Implies(x >= z3.ToReal(N) - 1, c_li == N - 1)))
            U.cover(f"{nm}.cover", P)
        U.prove(f"get_axis_data[{tag}].path_structure", [], z3.BoolVal(n_ok >= 1 and (periodic or n_code >= 1)))
        U.assume_note("clipping constant 1e-15 taken literally; points within round-off of the domain boundary are excluded as in the statement")

    return unit


def _axis_stub(log):
    """contract of make_interpolation_axis_data: the closure for axis a returns arbitrary support data"""
    def make(grid=None, axis=None, with_ghost_cells=False, cell_coords=False):
        out = (z3.Int(f"c_l{axis}"), z3.Int(f"c_h{axis}"), z3.Real(f"w_l{axis}"), z3.Real(f"w_h{axis}"))

        def get(coord):
            log.append((axis, coord, with_ghost_cells, cell_coords))
            return out

        return get
    return make


def interpolator_unit(num_axes):
    def unit(U):
        def body(it):
            log = []
            it.overrides["make_interpolation_axis_data"] = _axis_stub(log)
            N = [z3.Int(f"N{a}") for a in range(num_axes)]
            grid = Instance(None, {"num_axes": num_axes, "shape": tuple(N)}, name="grid")
            fill = z3.Real("fill")
            f = it.call(it.get_function(MOD, "make_single_interpolator"), [grid], {"fill": fill, "with_ghost_cells": True, "cell_coords": False, "backend": make_backend_stub()})
            data = sym_array("data", tuple(n + 2 for n in N))
            point = sym_array("point", (num_axes,))
            for a in range(num_axes):
                it.ctx.assume(z3.And(z3.Int(f"c_l{a}") >= -42, z3.Int(f"c_h{a}") >= 0))
                it.ctx.assume(z3.Or(z3.Int(f"c_l{a}") == -42, z3.And(z3.Int(f"c_l{a}") >= 0, z3.Int(f"c_l{a}") < N[a] + 2, z3.Int(f"c_h{a}") < N[a] + 2)))
            r = it.call(f, [data, point], {})
            return r, log, data, point, fill

        for p, res in enumerate(explore_paths(U, body)):
            P = prem_of(res.ctx)
            nm = f"interpolate_single[{num_axes}d].path{p}"
            if res.outcome != "return":
                U.prove(f"{nm}.returns_normally", P, z3.BoolVal(False), info={"exc": str(res.exc)})
                continue
            r, log, data, point, fill = res.value
            U.prove(f"{nm}.axis_k_is_queried_with_coordinate_k", P,
                    z3.And(z3.BoolVal(sorted(a for a, *_ in log) == list(range(num_axes))),
                           *[to_z3(to_real(c)) == to_z3(point.read((a,))) for a, c, *_ in log], *[z3.BoolVal(g is True and cc is False) for _, _, g, cc in log]))
            outside = z3.Or(*[z3.Int(f"c_l{a}") == -42 for a in range(num_axes)])
            want = 0
            for corner in itertools.product((0, 1), repeat=num_axes):
                w = 1
                idx = []
                for a, c in enumerate(corner):
                    w = w * (z3.Real(f"w_h{a}") if c else z3.Real(f"w_l{a}"))
                    idx.append(z3.Int(f"c_h{a}") if c else z3.Int(f"c_l{a}"))
                want = want + w * to_z3(data.read(tuple(idx)))
            U.prove(f"{nm}.value==tensor_product_interpolant_or_fill", P, to_z3(to_real(r)) == z3.If(outside, fill, want))
        U.assume_note("axis-data closures enter through their contract (proved in the get_axis_data units); convexity and exactness lift through the tensor product")

    return unit


VOL = {n: z3.Function(f"vol{n}", *([z3.IntSort()] * n), z3.RealSort()) for n in (1, 2, 3)}


def _volume_getter_stub(num_axes):
    """contract of make_cell_volume_getter: volume of cell idx; with_ghost_cells=True: idx refers to the padded array,
    i.e. the volume of cell idx - 1 (ghost cells carry some positive number)"""
    def make(grid=None, flat_index=False, with_ghost_cells=False, backend=None):
        shift = 1 if with_ghost_cells else 0
        return lambda *idx: VOL[num_axes](*[to_z3(i) - shift for i in idx])
    return make


def inserter_unit(num_axes, with_ghost=False):
    """with_ghost: the inserter works on the padded array (index k + 1 holds cell k); the statement is about
    points whose support cells are all valid cells (ghost cells do not count towards the integral)"""
    off = 1 if with_ghost else 0

    def unit(U):
        def body(it):
            log = []
            grids_mod = it.load_module(MOD)
            it.overrides["make_interpolation_axis_data"] = _axis_stub(log)
            stub_grids = Instance(None, {"make_interpolation_axis_data": _axis_stub(log),
                                         "make_cell_volume_getter": _volume_getter_stub(num_axes)}, name="grids")
            it.overrides["grids"] = stub_grids
            N = [z3.Int(f"N{a}") for a in range(num_axes)]
            grid = Instance(None, {"num_axes": num_axes, "shape": tuple(N)}, name="grid")
            cls = it.module_attr(it.load_module("pde.backends.numba.backend"), "NumbaBackend")
            be = Instance(cls, {"compile_function": lambda f: f})
            f = it.call(it.getattr(be, "make_inserter"), [grid], {"with_ghost_cells": with_ghost})
            data = sym_array("data", tuple(n + 2 * off for n in N))
            point = sym_array("point", (num_axes,))
            amount = z3.Real("amount")
            for a in range(num_axes):
                it.ctx.assume(z3.Or(z3.Int(f"c_l{a}") == -42, z3.And(z3.Int(f"c_l{a}") >= off, z3.Int(f"c_l{a}") < N[a] + off, z3.Int(f"c_h{a}") >= off, z3.Int(f"c_h{a}") < N[a] + off)))
            base = data.buf.content
            idxs = z3.Ints(" ".join(f"q{a}" for a in range(num_axes)))
            it.ctx.assume(z3.ForAll(list(idxs), VOL[num_axes](*idxs) > 0))
            it.call(f, [data, point, amount], {})
            return data, base, log, point, amount

        for p, res in enumerate(explore_paths(U, body)):
            P = prem_of(res.ctx)
            nm = f"insert[{num_axes}d{',padded' if with_ghost else ''}].path{p}"
            outside = z3.Or(*[z3.Int(f"c_l{a}") == -42 for a in range(num_axes)])
            if res.outcome == "raise":
                U.prove(f"{nm}.DomainError_only_outside", P, z3.And(outside, z3.BoolVal(res.exc.exc_type == "DomainError")))
                continue
            data, base, log, point, amount = res.value
            U.prove(f"{nm}.normal_return_only_inside", P, z3.Not(outside))
            U.prove(f"{nm}.axis_k_is_queried_with_coordinate_k", P,
                    z3.And(z3.BoolVal(sorted(a for a, *_ in log) == list(range(num_axes))),
                           *[to_z3(to_real(c)) == to_z3(point.read((a,))) for a, c, *_ in log]))
            # change of the volume-weighted sum: each `data[k] += d` changes it by vol(k) * d (additive, also for coinciding cells)
            layers = []
            c = data.buf.content
            while c is not base:
                layers.append(c)
                c = c.parent
            delta = z3.RealVal(0)
            ok = True
            for layer in layers:
                if not isinstance(layer, PointLayer):
                    ok = False
                    break
                d = to_z3(layer.val) - to_z3(layer.parent.read(layer.idx))
                delta = delta + VOL[num_axes](*[to_z3(i) - off for i in layer.idx]) * d
            U.prove(f"{nm}.writes_are_point_updates", P, z3.BoolVal(ok and len(layers) == 2**num_axes))
            tot = amount
            for a in range(num_axes):
                tot = tot * (z3.Real(f"w_l{a}") + z3.Real(f"w_h{a}"))
            vol_pos = [VOL[num_axes](*[to_z3(i) - k for i in layer.idx]) > 0 for layer in layers if isinstance(layer, PointLayer) for k in (0, off)]
            U.prove(f"{nm}.integral_increases_by_amount_times_weight_sums", P + vol_pos, delta == tot,
                    info={"prefer": "ratnf", "replay_payload": {"inserter": True, "with_ghost_cells": with_ghost, "num_axes": num_axes}})
        U.assume_note("with weights summing to one per axis (get_axis_data contract: 1 - 1e-15 < sum <= 1) the integral changes by amount*(1 - eps), 0 <= eps <= num_axes*1e-15")

    return unit


UNITS = (
    [(f"get_axis_data[periodic={p},ghost={g},cell_coords={c}]", axis_data_unit(p, g, c)) for p in (True, False) for g in (True, False) for c in (True, False)]
    + [(f"interpolate_single[{n}d]", interpolator_unit(n)) for n in (1, 2, 3)]
    + [(f"insert[{n}d]", inserter_unit(n)) for n in (1, 2, 3)]
    + [(f"insert[{n}d,padded]", inserter_unit(n, True)) for n in (1, 2, 3)]
)


def bounded(tier, seed):
    from ..runner import native

    n = 8 if tier == "quick" else 80
    res = native("interpolation.py", {"seed": seed, "n": n}, timeout=3000)
    if not res.get("ok"):
        raise RuntimeError(f"native driver failed: {res}")
    return [{"name": "interpolate_and_insert_on_random_grids", "bound": f"{n} random grids (all classes, 1-3 axes, periodic or not) x points at centres / interior / seams; affine fields; compiled vs interpreted insert; fixed witnesses: wall values next to corners, anti-periodic seam, integer-typed field",
             "cases": res["cases"], "failures": res["failures"]}]


TRUSTED = ["divmod / int() / % exact over ToInt", "cell-volume getter enters as an uninterpreted positive function (volumes proved in C05/C12)"]
ASSUMPTIONS = ["clipping constant 1e-15 literal", "interpolation with boundary conditions approaches the imposed value linearly: follows from the ghost-cell branch (support cells floor/next incl. ghost) and the C02 ghost relation (cell+ghost)/2 = value"]
NOT_COVERED = ["DataFieldBase.interpolate / insert wrappers and interpolate_to_grid (bounded native check only)", "fill / raise wiring above interpolate_single"]
