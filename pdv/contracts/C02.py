"""C02 -- boundary conditions hold exactly at the discrete boundary (DESIGN.md §4, C02).

Interpreted route (grids/boundaries/local.py): get_virtual_point_data of every constant-BC class, the
slicing in ConstBC1stOrderBase / ConstBC2ndOrderBase.set_ghost_cells (all axes/sides of 1- and 2-axis
grids, scalar and normal-component variants, homogeneous and per-face-cell values), and
get_sparse_matrix_data (the contract C18 assumes).  The conditions are taken from the statement:
value (g+c)/2 = v, derivative (g-c)/dx = d, mixed (g-c)/dx + gamma (g+c)/2 = beta,
curvature (g - 2 c1 + c2)/dx^2 = k, periodic g = +-opposite cell.  Frame: every other entry unchanged.
"""

from __future__ import annotations

import itertools
from fractions import Fraction

import z3

from ..arrays import NDArr, fresh_array, sym_array
from ..objects import Instance
from ..values import Opaque, concrete, fresh_name, to_real, to_z3
from .common import explore_paths, prem_of

PROPERTY = "C02"
LOCAL = "pde.grids.boundaries.local"

KINDS = {
    "DirichletBC": "value", "NeumannBC": "derivative", "MixedBC": "mixed", "CurvatureBC": "curvature", "_PeriodicBC": "periodic",
}


def condition(kind, g, c1, c2, dx, par):
    """the requested condition at one face cell (from the statement)"""
    if kind == "value":
        return (g + c1) / 2 == par["value"]
    if kind == "derivative":
        return (g - c1) / dx == par["value"]
    if kind == "mixed":
        return (g - c1) / dx + par["value"] * (g + c1) / 2 == par["const"]
    if kind == "curvature":
        return (g - 2 * c1 + c2) / (dx * dx) == par["value"]
    if kind == "periodic":
        return g == (-c1 if par["flip"] else c1)
    raise KeyError(kind)


def _grid(num_axes):
    N = [z3.Int(f"N{a}") for a in range(num_axes)]
    dx = [z3.Real(f"dx{a}") for a in range(num_axes)]
    facts = [n >= 1 for n in N] + [d > 0 for d in dx]
    g = Instance(None, {"num_axes": num_axes, "shape": tuple(N), "dim": num_axes,
                        "discretization": fresh_array("dx", (num_axes,), lambda idx: dx[concrete(idx[0])] if concrete(idx[0]) is not None else z3.If(to_z3(idx[0]) == 0, dx[0], dx[-1]))}, name="grid")
    return g, N, dx, facts


def _bc(it, clsname, grid, axis, upper, rank=0, normal=False, value=None, homogeneous=True, flip=False):
    cls = it.module_attr(it.load_module(LOCAL), clsname)
    attrs = {"grid": grid, "axis": axis, "upper": upper, "rank": rank, "normal": normal, "homogeneous": homogeneous,
             "value_is_linked": False, "_logger": Opaque("logger")}
    par = {}
    if clsname == "_PeriodicBC":
        attrs["flip_sign"] = flip
        par["flip"] = flip
    else:
        par["value"] = value if value is not None else z3.Real("bc_value")
        attrs["value"] = par["value"]
        if clsname == "MixedBC":
            par["const"] = z3.Real("bc_const")
            attrs["const"] = par["const"]
    return Instance(cls, attrs), par


def ghost_symbolic(it, clsname, num_axes, axis, upper, normal=False, inhomogeneous=False, flip=False, route="interpreted"):
    """the real ghost-cell setter of one condition (interpreted or compiled route) on a symbolic padded array"""
    kind = KINDS[clsname]
    grid, N, dx, facts = _grid(num_axes)
    for f in facts:
        it.ctx.assume(f)
    if kind == "curvature":
        it.ctx.assume(N[axis] >= 2)
    rank = 1 if normal else 0
    value = None
    other = [a for a in range(num_axes) if a != axis]
    if inhomogeneous:
        vf = z3.Function("bc_value_at", *([z3.IntSort()] * len(other)), z3.RealSort())
        value = fresh_array("value", tuple(N[a] for a in other), lambda idx: vf(*[to_z3(i) for i in idx]))
    bc, par = _bc(it, clsname, grid, axis, upper, rank=rank, normal=normal, value=value, homogeneous=not inhomogeneous, flip=flip)
    if inhomogeneous:
        par["value_fn"] = vf
    if kind == "mixed":
        # finite Robin coefficient with 2 + dx*gamma != 0 (the statement's gamma is finite)
        it.ctx.assume(2 + dx[axis] * to_z3(par["value"]) != 0)
    comps = (num_axes,) if normal else ()
    data = sym_array("data_full", comps + tuple(n + 2 for n in N))
    before = data.buf.content
    if route == "interpreted":
        it.call(it.getattr(bc, "set_ghost_cells"), [data], {})
    else:
        # compiled route: NumbaBackend._make_local_ghost_cell_setter + the virtual-point evaluators of _boundaries.py
        be = Instance(it.load_module("pde.backends.numba.backend").get("NumbaBackend"), {})
        setter = it.call(it.getattr(be, "_make_local_ghost_cell_setter"), [bc], {})
        it.call(setter, [data], {})
    return data, before, N, dx, par, comps, other


def ghost_unit(clsname, num_axes, axis, upper, normal=False, inhomogeneous=False, flip=False, route="interpreted"):
    kind = KINDS[clsname]
    second = kind == "curvature"

    def unit(U):
        def body(it):
            r = ghost_symbolic(it, clsname, num_axes, axis, upper, normal=normal, inhomogeneous=inhomogeneous, flip=flip, route=route)
            if route != "interpreted":
                U.absorb(it)
            return r

        for p, res in enumerate(explore_paths(U, body)):
            P = prem_of(res.ctx)
            nm = f"path{p}"
            if res.outcome != "return":
                U.prove(f"{nm}.returns_normally", P, z3.BoolVal(False), info={"exc": str(res.exc)})
                continue
            data, before, N, dx, par, comps, other = res.value
            # an arbitrary face cell b (valid indices on the other axes, padded index = b + 1)
            b = {a: z3.Int(f"b{a}") for a in other}
            Pb = P + [z3.And(b[a] >= 0, b[a] < N[a]) for a in other]

            def at(k_padded, comp=None):
                idx = [None] * num_axes
                idx[axis] = k_padded
                for a in other:
                    idx[a] = b[a] + 1
                pre = (comp,) if comps else ()
                return tuple(pre) + tuple(idx)

            gpos = N[axis] + 1 if upper else 0
            if kind == "periodic":
                c1pos = 1 if upper else N[axis]  # opposite valid cell
            else:
                c1pos = N[axis] if upper else 1
            c2pos = N[axis] - 1 if upper else 2
            comp = axis if comps else None
            g = to_z3(data.read(at(gpos, comp)))
            c1 = to_z3(before.read(at(c1pos, comp)))
            c2 = to_z3(before.read(at(c2pos, comp)))
            par2 = dict(par)
            if "value_fn" in par:
                par2["value"] = par["value_fn"](*[b[a] for a in other])
            U.prove(f"{nm}.condition_holds_at_every_face_cell", Pb, condition(kind, g, c1, c2, dx[axis], par2), info={"prefer": "ratnf"} if kind == "mixed" else None)
            # frame: everything that is not a virtual point of this face (of the affected component) is unchanged
            q = [z3.Int(f"q{a}") for a in range(len(comps) + num_axes)]
            Pq = P + [z3.And(q[len(comps) + a] >= 0, q[len(comps) + a] < N[a] + 2) for a in range(num_axes)] + [z3.And(q[i] >= 0, q[i] < comps[i]) for i in range(len(comps))]
            on_face = z3.And(q[len(comps) + axis] == gpos, *[z3.And(q[len(comps) + a] >= 1, q[len(comps) + a] <= N[a]) for a in other])
            if comps:
                on_face = z3.And(on_face, q[0] == axis)
            U.prove(f"{nm}.frame:only_the_virtual_points_of_this_face_change", Pq + [z3.Not(on_face)], to_z3(data.read(tuple(q))) == to_z3(before.read(tuple(q))))
            U.cover(f"{nm}.cover", Pb)

    return unit


def vpdata_unit(clsname, upper):
    """get_virtual_point_data / get_sparse_matrix_data: index structure and affine form (contract used by C18)"""
    kind = KINDS[clsname]

    def unit(U):
        def body(it):
            grid, N, dx, facts = _grid(1)
            for f in facts:
                it.ctx.assume(f)
            if kind == "curvature":
                it.ctx.assume(N[0] >= 2)
            bc, par = _bc(it, clsname, grid, 0, upper)
            if kind == "mixed":
                it.ctx.assume(2 + dx[0] * to_z3(par["value"]) != 0)
            const, entries = it.call(it.getattr(bc, "get_sparse_matrix_data"), [(N[0] if upper else -1,)], {})
            return const, entries, N, dx, par

        for p, res in enumerate(explore_paths(U, body)):
            P = prem_of(res.ctx)
            nm = f"path{p}"
            if res.outcome != "return":
                U.prove(f"{nm}.returns_normally", P, z3.BoolVal(False), info={"exc": str(res.exc)})
                continue
            const, entries, N, dx, par = res.value
            u = z3.Function("u", z3.IntSort(), z3.RealSort())

            def val(x):
                if isinstance(x, NDArr):
                    return to_z3(x.read(tuple(0 for _ in x.shape)))
                return to_z3(to_real(x))

            keys = list(entries.keys())
            g = val(const)
            for k in keys:
                g = g + val(entries[k]) * u(to_z3(k))
            near, far = (N[0] - 1, 0) if upper else (0, N[0] - 1)
            second = N[0] - 2 if upper else 1
            if kind == "periodic":
                U.prove(f"{nm}.one_entry_at_the_opposite_cell", P, z3.And(z3.BoolVal(len(keys) == 1), to_z3(keys[0]) == far))
                c1, c2 = u(far), u(far)
            elif kind == "curvature":
                U.prove(f"{nm}.two_entries_at_the_two_cells_next_to_the_boundary", P,
                        z3.And(z3.BoolVal(len(keys) == 2), to_z3(keys[0]) == near, to_z3(keys[1]) == second) if len(keys) == 2 else z3.BoolVal(False))
                c1, c2 = u(near), u(second)
            else:
                U.prove(f"{nm}.one_entry_at_the_adjacent_cell", P, z3.And(z3.BoolVal(len(keys) == 1), to_z3(keys[0]) == near))
                c1, c2 = u(near), u(near)
            U.prove(f"{nm}.virtual_point=const+sum(factor*u[column])_satisfies_the_condition", P, condition(kind, g, c1, c2, dx[0], par),
                    info={"prefer": "ratnf"} if kind == "mixed" else None)

    return unit


def _units():
    units = []
    for cls in KINDS:
        for upper in (False, True):
            units.append((f"{cls}.get_sparse_matrix_data[upper={upper}]", vpdata_unit(cls, upper)))
    for cls in KINDS:
        for num_axes in (1, 2):
            for axis in range(num_axes):
                for upper in (False, True):
                    flips = (False, True) if cls == "_PeriodicBC" else (False,)
                    for flip in flips:
                        nm = f"{cls}.set_ghost_cells[axes={num_axes},axis={axis},upper={upper}" + (",anti" if flip else "") + "]"
                        units.append((nm, ghost_unit(cls, num_axes, axis, upper, flip=flip)))
        if cls != "_PeriodicBC":
            # normal-component variants on vector fields (2 axes) and per-face-cell values
            for axis in (0, 1):
                for upper in (False, True):
                    units.append((f"Normal{cls}.set_ghost_cells[axes=2,axis={axis},upper={upper}]", ghost_unit(cls, 2, axis, upper, normal=True)))
                    if cls != "MixedBC":
                        units.append((f"{cls}.set_ghost_cells[axes=2,axis={axis},upper={upper},inhomogeneous]", ghost_unit(cls, 2, axis, upper, inhomogeneous=True)))
    # compiled (numba) route: same contract object, same configurations (1-3 axes)
    for cls in KINDS:
        for num_axes in (1, 2, 3):
            for axis in range(num_axes):
                for upper in (False, True):
                    if num_axes == 3 and cls in ("NeumannBC", "_PeriodicBC") and not upper:
                        continue  # keep the quick tier short: 3-axis units for every class on one side, all sides for two classes
                    units.append((f"compiled.{cls}.ghost_cell_setter[axes={num_axes},axis={axis},upper={upper}]", ghost_unit(cls, num_axes, axis, upper, route="compiled")))
        if cls != "_PeriodicBC":
            for axis in (0, 1):
                units.append((f"compiled.Normal{cls}.ghost_cell_setter[axes=2,axis={axis},upper=True]", ghost_unit(cls, 2, axis, True, normal=True, route="compiled")))
                if cls != "MixedBC":
                    units.append((f"compiled.{cls}.ghost_cell_setter[axes=2,axis={axis},upper=False,inhomogeneous]", ghost_unit(cls, 2, axis, False, inhomogeneous=True, route="compiled")))
    return units


UNITS = _units()


def engine_crosscheck(tier, seed):
    """validation of the trusted base (NOT a proof): the symbolic result of the interpreter for a ghost-cell setter,
    evaluated at a concrete random grid / condition / padded array, against the same real setter run under CPython
    (numba JIT disabled) -- every entry of the padded array, both routes"""
    import itertools as _it
    import random
    from fractions import Fraction as Q

    from ..ctx import Ctx
    from ..interp import Interp
    from ..runner import native
    from ..values import Unsupported

    rnd = random.Random(2000 + seed)
    configs = []
    for cls in KINDS:
        for route, axes_list in (("interpreted", (1, 2)), ("compiled", (1, 2, 3))):
            for num_axes in axes_list:
                for axis in range(num_axes):
                    for upper in (False, True):
                        for flip in ((False, True) if cls == "_PeriodicBC" else (False,)):
                            configs.append(dict(cls=cls, route=route, num_axes=num_axes, axis=axis, upper=upper, flip=flip))
    if tier == "quick":
        configs = rnd.sample(configs, 30)
    cases, engine = [], {}
    for n, cfg in enumerate(configs):
        it = Interp(Ctx())
        try:
            data, before, N, dx, par, comps, other = ghost_symbolic(it, cfg["cls"], cfg["num_axes"], cfg["axis"], cfg["upper"], flip=cfg["flip"], route=cfg["route"])
        except Unsupported as e:
            engine[n] = {"error": f"unsupported: {e}"}
            continue
        shape = [rnd.randint(2, 4) for _ in range(cfg["num_axes"])]
        h = [Q(rnd.randint(1, 9), rnd.randint(2, 7)) for _ in range(cfg["num_axes"])]
        value, const = Q(rnd.randint(-9, 9), rnd.randint(1, 5)), Q(rnd.randint(-9, 9), rnd.randint(1, 5))
        if KINDS[cfg["cls"]] == "mixed" and 2 + h[cfg["axis"]] * value == 0:
            value += 1
        full_shape = tuple(k + 2 for k in shape)
        vals = {idx: Q(rnd.randint(-20, 20), rnd.randint(1, 8)) for idx in _it.product(*[range(d) for d in full_shape])}
        s = z3.Solver()
        for a in range(cfg["num_axes"]):
            s.add(N[a] == shape[a], dx[a] == to_z3(h[a]))
        if "value" in par and not isinstance(par["value"], NDArr):
            s.add(to_z3(par["value"]) == to_z3(value))
        if "const" in par:
            s.add(to_z3(par["const"]) == to_z3(const))
        fn = z3.Function("data_full", *([z3.IntSort()] * len(full_shape)), z3.RealSort())
        for idx, v in vals.items():
            s.add(fn(*idx) == to_z3(v))
        for c in list(it.ctx.assumptions) + list(it.ctx.pc):
            s.add(c)
        if s.check() != z3.sat:
            engine[n] = {"error": "concrete instance does not satisfy the preconditions"}
            continue
        m = s.model()
        got = {}
        try:
            for idx in vals:
                v = m.eval(to_z3(data.read(idx)), model_completion=True)
                got[idx] = float(v.numerator_as_long()) / float(v.denominator_as_long()) if z3.is_rational_value(v) else None
        except Exception as e:
            engine[n] = {"error": f"{type(e).__name__}: {e}"}
            continue
        engine[n] = got

        def nested(prefix, dims):
            if not dims:
                return float(vals[prefix])
            return [nested(prefix + (i,), dims[1:]) for i in range(dims[0])]

        cases.append({"id": n, **cfg, "shape": shape, "h": [float(x) for x in h], "value": float(value), "const": float(const), "data": nested((), full_shape)})
    res = native("boundaries.py", {"crosscheck": cases}, timeout=3000, disable_jit=True)
    if not res.get("ok"):
        raise RuntimeError(f"native cross-check driver failed: {res}")
    nat = {r["id"]: r for r in res["results"]}
    fails, compared = [], 0
    for n, cfg in enumerate(configs):
        tag = f"{cfg['cls']}[{cfg['route']},axes={cfg['num_axes']},axis={cfg['axis']},upper={cfg['upper']},flip={cfg['flip']}]"
        e, r = engine.get(n), nat.get(n)
        if e is None or "error" in e:
            fails.append({"id": "engine_could_not_evaluate", "config": tag, "error": (e or {}).get("error")})
            continue
        if r is None or "error" in r:
            fails.append({"id": "native_error", "config": tag, "error": (r or {}).get("error")})
            continue
        for idx, v in e.items():
            w = r["out"]
            for i in idx:
                w = w[i]
            compared += 1
            if v is None or abs(v - w) > 1e-9 * (1 + abs(w)):
                fails.append({"id": "engine_and_cpython_disagree", "config": tag, "cell": list(idx), "engine": v, "cpython": w})
                break
    return {"name": "engine_crosscheck_vs_cpython", "bound": f"{len(configs)} ghost-cell setter configurations (5 condition classes x both routes x axes x sides), one random concrete instance each, every entry of the padded array ({compared} entries): symbolic result of the interpreter vs the real setter under CPython with numba JIT disabled",
            "cases": len(configs), "failures": fails[:8]}


def replay(o):
    """replay of refuted obligations that have a native recipe: the same usage pattern on the real code"""
    from ..runner import native

    cfg = (o.get("info") or {}).get("replay_payload") or {}
    section = "value_update" if "value_update" in cfg else ("periodic_specs" if "periodic_spec" in cfg else ("precedence" if "precedence_keys" in cfg else None))
    if section is None:
        return {"reproduced": None, "note": "no native replay recipe for this obligation"}
    res = native("boundaries.py", {"seed": 1, "sections": [section]}, timeout=1200)
    if not res.get("ok"):
        return {"reproduced": None, "error": res}
    if res["failures"]:
        return {"reproduced": True, "native": res["failures"][0]}
    return {"reproduced": False, "note": f"the native {section} cases satisfied the conditions"}


def bounded(tier, seed):
    """bounded stand-in (NOT counted as proved): every BC type and alias, all accepted specification formats,
    ranks 0-2, both backends (interpreted setter and compiled setter), expression BCs, copies of BCs"""
    from ..runner import native

    n = 1 if tier == "quick" else 10
    res = native("boundaries.py", {"seed": seed, "n": n}, timeout=3000)
    if not res.get("ok"):
        raise RuntimeError(f"native driver failed: {res}")
    return [engine_crosscheck(tier, seed), {"name": "conditions_at_the_boundary_all_types_aliases_formats_backends", "bound": f"{n} random grids per class x every BC type/alias/format x ranks 0-2 x numpy and numba setters; precedence of a one-sided condition over the axis-wide and the '*' condition; coordinate-dependent value expressions on all six faces of a 3-d grid",
             "cases": res["cases"], "failures": res["failures"]}]


TRUSTED = ["conditions taken verbatim from the statement (pdv/contracts/C02.py: condition)"]
ASSUMPTIONS = ["finite Robin coefficient with 2 + dx*gamma != 0 (gamma = infinity special case outside the real model)", "NaN/Inf-free values: np.isfinite is true", "arrays of the model stand for floating-point arrays (np.issubdtype(dtype, np.integer) is false): integer-typed values and fields are covered by bounded native cases only"]
NOT_COVERED = [
    "UserBC, value_is_linked (value read through a memory address), gamma = infinity: bounded native check only",
    "the sympy meaning of expression texts (C11): only the arithmetic templates around the user text are proved",
    "BC specification parsing: the per-side precedence of the dictionary format (named boundary > one-sided key > axis key > '*') and the ways of writing periodic axes are proved; aliases of axis names, the legacy list format and the strings / single conditions applied to all axes: bounded native check only",
    "rank-2 fields and 3-axis grids on the interpreted route (the slicing code is rank/axis generic; the compiled route is proved for 1-3 axes)",
]


# ------------------------------------------------------------------ expression boundary conditions
def expression_function_unit(route, target):
    """callable flavour: virtual_from_value / _derivative / _mixed with the user functions uninterpreted"""
    kind = {"value": "value", "derivative": "derivative", "mixed": "mixed"}[target]

    def unit(U):
        def body(it):
            VF = z3.Function("user_value", z3.RealSort(), z3.RealSort(), z3.RealSort(), z3.RealSort(), z3.RealSort())
            CF = z3.Function("user_const", z3.RealSort(), z3.RealSort(), z3.RealSort(), z3.RealSort(), z3.RealSort())
            calls = []

            def wrap(F):
                def f(*args):
                    calls.append(args)
                    a = [to_z3(to_real(x)) for x in args]
                    while len(a) < 4:
                        a.insert(1, z3.RealVal(0))
                    return F(*a[:4])
                return f

            vf, cf = wrap(VF), wrap(CF)
            cls = it.load_module(LOCAL).get("ExpressionBC")
            bc = Instance(cls, {"_is_func": True, "_input": {"target": target, "value_expr": vf, "const_expr": cf, "user_funcs": None}})
            if route == "interpreted":
                fn = it.call(it.getattr(bc, "_make_function"), [], {})
            else:
                it.overrides["_prepare_function"] = lambda bc_, func, backend=None: func
                fn = it.call(it.get_function("pde.backends.numba._boundaries", "_make_expression_function_from_userfunc"), [bc], {"backend": Opaque("backend")})
            c, dx, x, t = z3.Real("adjacent_value"), z3.Real("dx"), z3.Real("x"), z3.Real("t")
            it.ctx.assume(dx > 0)
            g = it.call(fn, [c, dx, x, t], {})
            return g, c, dx, x, t, VF, CF, calls

        for p, res in enumerate(explore_paths(U, body)):
            P = prem_of(res.ctx)
            nm = f"path{p}"
            if res.outcome != "return":
                U.prove(f"{nm}.returns_normally", P, z3.BoolVal(False), info={"exc": str(res.exc)})
                continue
            g, c, dx, x, t, VF, CF, calls = res.value
            g = to_z3(to_real(g))
            # the user functions receive (adjacent value, dx, coordinates.., t)
            U.prove(f"{nm}.user_functions_receive_(value,dx,x,t)", P,
                    z3.And(*[z3.And(z3.BoolVal(len(a) == 4), to_z3(to_real(a[0])) == c, to_z3(to_real(a[1])) == dx, to_z3(to_real(a[2])) == x, to_z3(to_real(a[3])) == t) if len(a) == 4 else z3.BoolVal(False) for a in calls]) if calls else z3.BoolVal(False))
            par = {"value": VF(c, dx, x, t), "const": CF(c, dx, x, t)}
            extra = [2 + dx * par["value"] != 0] if kind == "mixed" else []
            U.prove(f"{nm}.virtual_point_satisfies_the_{kind}_condition_for_arbitrary_user_functions", P + extra, condition(kind, g, c, c, dx, par), info={"prefer": "ratnf"} if kind == "mixed" else None)

    return unit


def _term_from_text(text, env):
    """evaluate the arithmetic text (valid Python: + - * / parentheses, names, numbers) on z3 terms"""
    import ast as _ast

    def ev(n):
        if isinstance(n, _ast.Expression):
            return ev(n.body)
        if isinstance(n, _ast.BinOp):
            a, b = ev(n.left), ev(n.right)
            if isinstance(n.op, _ast.Add):
                return a + b
            if isinstance(n.op, _ast.Sub):
                return a - b
            if isinstance(n.op, _ast.Mult):
                return a * b
            if isinstance(n.op, _ast.Div):
                return a / b
        if isinstance(n, _ast.UnaryOp) and isinstance(n.op, _ast.USub):
            return -ev(n.operand)
        if isinstance(n, _ast.Name):
            return env[n.id]
        if isinstance(n, _ast.Constant):
            return z3.RealVal(n.value)
        raise ValueError(f"unsupported syntax in expression template: {_ast.dump(n)[:80]}")

    return ev(_ast.parse(text, mode="eval"))


def expression_template_unit(target):
    """string flavour: the text handed to the expression parser.  The user texts are placeholders WITH a
    top-level operator (`V1 + V2`, `K1 - K2`), so a missing pair of parentheses changes the meaning."""
    def unit(U):
        def body(it):
            cls = it.load_module(LOCAL).get("ExpressionBC")
            N = z3.Int("N")
            it.ctx.assume(N >= 1)
            caxes = Instance(None, {"_axes_alt_repl": {}}, name="coordinates")
            grid = Instance(None, {"axes": ["x"], "dim": 1, "num_axes": 1, "shape": (N,), "c": caxes,
                                   "discretization": fresh_array("dx", (1,), lambda idx: z3.Real("dx")),
                                   "_boundary_coordinates": lambda axis=None, upper=None: sym_array("coords", (1,))}, name="grid")
            texts = []

            def ScalarExpression(expression, signature=None, user_funcs=None, repl=None, **kw):
                texts.append((expression, signature))
                return Instance(None, {"__call__": lambda *a: 0, "depends_on": lambda v: False}, name="ScalarExpression")

            it.overrides["ScalarExpression"] = ScalarExpression
            it.contracts[(LOCAL, "BCBase.__init__")] = lambda interp, args, kw: (args[0].attrs.update({"grid": args[1], "axis": args[2], "upper": args[3], "rank": kw.get("rank", 0), "normal": False}), None)[1]
            bc = it.instantiate(cls, [grid, 0, True], {"rank": 0, "value": "V1 + V2", "const": "K1 - K2", "target": target})
            return texts

        for p, res in enumerate(explore_paths(U, body)):
            P = prem_of(res.ctx)
            nm = f"path{p}"
            if res.outcome != "return":
                U.prove(f"{nm}.constructor_returns_normally", P, z3.BoolVal(False), info={"exc": str(res.exc)})
                continue
            texts = res.value
            ok = len(texts) == 1 and isinstance(texts[0][0], str) and list(texts[0][1] or []) == ["value", "dx", "x", "t"]
            U.prove(f"{nm}.one_expression_with_signature_(value,dx,x,t)", P, z3.BoolVal(ok))
            if not ok:
                continue
            env = {k: z3.Real(k) for k in ("V1", "V2", "K1", "K2", "dx", "value", "x", "t")}
            try:
                g = _term_from_text(texts[0][0], env)
            except Exception as e:
                U.prove(f"{nm}.template_is_plain_arithmetic", P, z3.BoolVal(False), info={"text": texts[0][0], "error": str(e)})
                continue
            par = {"value": env["V1"] + env["V2"], "const": env["K1"] - env["K2"]}
            c, dx = env["value"], env["dx"]
            extra = [dx > 0] + ([2 + dx * par["value"] != 0] if target == "mixed" else [])
            U.prove(f"{nm}.template_text_satisfies_the_{target}_condition_with_the_user_text_as_a_whole", P + extra, condition(target, g, c, c, dx, par),
                    info={"text": texts[0][0], "prefer": "ratnf"} if target == "mixed" else {"text": texts[0][0]})
        U.assume_note("sympy evaluates + - * / and parentheses of the template as written; what the user text means is C11")

    return unit


UNITS += [(f"{r}.expression_function[{t}]", expression_function_unit(r, t)) for r in ("interpreted", "compiled") for t in ("value", "derivative", "mixed")]
UNITS += [(f"expression_template[{t}]", expression_template_unit(t)) for t in ("value", "derivative", "mixed")]


def copy_unit(clsname, with_upper):
    """bc.copy(upper=..) builds the same class with every parameter carried over (copies are what
    BCBase.from_data and BoundariesList.copy hand to the ghost-cell setters)"""
    def unit(U):
        def body(it):
            cls = it.load_module(LOCAL).get(clsname)
            grid = Instance(None, {}, name="grid")
            attrs = {"grid": grid, "axis": z3.Int("axis"), "upper": z3.Bool("upper"), "rank": z3.Int("rank"), "value": z3.Real("value"),
                     "const": z3.Real("const"), "flip_sign": z3.Bool("flip"), "value_is_linked": False, "homogeneous": True}
            bc = Instance(cls, attrs)
            made = []
            for c in cls.mro:
                if "__init__" in c.members:
                    it.contracts[(c.module.name, f"{c.name}.__init__")] = lambda interp, args, kw: made.append(kw)
                    break
            new_upper = z3.Bool("new_upper")
            r = it.call(it.getattr(bc, "copy"), [], {"upper": new_upper} if with_upper else {})
            return made, attrs, r, cls, new_upper

        for p, res in enumerate(explore_paths(U, body)):
            P = prem_of(res.ctx)
            nm = f"path{p}"
            if res.outcome != "return":
                U.prove(f"{nm}.returns_normally", P, z3.BoolVal(False), info={"exc": str(res.exc)})
                continue
            made, attrs, r, cls, new_upper = res.value
            ok = len(made) == 1 and isinstance(r, Instance) and r.cls is cls and made[0].get("grid") is attrs["grid"]
            U.prove(f"{nm}.same_class_same_grid", P, z3.BoolVal(ok))
            if not ok:
                continue
            kw = made[0]
            need = ["axis"] + (["flip_sign"] if clsname == "_PeriodicBC" else ["rank", "value"]) + (["const"] if clsname == "MixedBC" else [])
            for key in need:
                U.prove(f"{nm}.{key}_is_carried_over", P, to_z3(kw[key]) == to_z3(attrs[key]) if key in kw else z3.BoolVal(False))
            U.prove(f"{nm}.upper_is_the_requested_side", P, to_z3(kw.get("upper")) == (new_upper if with_upper else attrs["upper"]) if "upper" in kw else z3.BoolVal(False))

    return unit


UNITS += [(f"{c}.copy[upper={'given' if w else 'kept'}]", copy_unit(c, w)) for c in ("DirichletBC", "NeumannBC", "MixedBC", "CurvatureBC", "_PeriodicBC") for w in (False, True)]


# ------------------------------------------------------------------ specification of a periodic axis
AXIS = "pde.grids.boundaries.axis"
PERIODIC_SPECS = {
    "periodic": ("'periodic'", "periodic"), "anti-periodic": ("'anti-periodic'", "anti-periodic"),
    "dict_periodic": ("{'type': 'periodic'}", {"type": "periodic"}), "dict_anti-periodic": ("{'type': 'anti-periodic'}", {"type": "anti-periodic"}),
    "pair_periodic": ("('periodic', 'periodic')", ("periodic", "periodic")), "pair_anti-periodic": ("('anti-periodic', 'anti-periodic')", ("anti-periodic", "anti-periodic")),
    "list_dict_anti-periodic": ("[{'type': 'anti-periodic'}, {'type': 'anti-periodic'}]", [{"type": "anti-periodic"}, {"type": "anti-periodic"}]),
    "auto_periodic_neumann": ("'auto_periodic_neumann'", "auto_periodic_neumann"), "auto_periodic_dirichlet": ("'auto_periodic_dirichlet'", "auto_periodic_dirichlet"),
}


def axis_spec_unit(key, grid_periodic):
    """the real get_boundary_axis / BoundaryPeriodic / BoundaryAxisBase / _PeriodicBC constructors: every accepted
    way of writing a periodic or anti-periodic condition yields the pair of _PeriodicBC objects with the
    sign flag the ghost-cell contract above is stated for (ghost = +-opposite cell); periodicity has to
    match the grid; other specifications are handed on unchanged"""
    text, data = PERIODIC_SPECS[key]

    def unit(U):
        def body(it):
            import copy as _copy
            axis, rank = z3.Int("axis"), z3.Int("rank")
            it.ctx.assume(z3.And(axis >= 0, axis < 2, rank >= 0, rank <= 2))
            ax = 0 if it.ctx.branch(axis == 0) else 1
            rank = 0 if it.ctx.branch(rank == 0) else (1 if it.ctx.branch(rank == 1) else 2)
            periodic = [Opaque("periodic_other_axis"), Opaque("periodic_other_axis")]
            periodic[ax] = grid_periodic
            grid = Instance(None, {"periodic": periodic, "dim": 2, "num_axes": 2, "shape": (z3.Int("N0"), z3.Int("N1")), "__eq__": None}, name="grid")
            handed_on = []

            def from_data(interp, args, kw):
                handed_on.append((args, kw))
                return Instance(None, {"periodic": False, "handed_on": True}, name="BoundaryPair")

            it.contracts[(AXIS, "BoundaryPair.from_data")] = from_data
            fn = it.get_function(AXIS, "get_boundary_axis")
            r = it.call(fn, [grid, ax, _copy.deepcopy(data)], {"rank": rank})
            return r, grid, ax, rank, handed_on

        want_flip = "anti" in key
        is_auto = key.startswith("auto_periodic")
        for p, res in enumerate(explore_paths(U, body)):
            P = prem_of(res.ctx)
            nm = f"path{p}"
            if not grid_periodic and not is_auto:
                U.prove(f"{nm}.periodic_condition_on_a_non-periodic_axis_is_rejected", P, z3.BoolVal(res.outcome == "raise" and res.exc.exc_type == "PeriodicityError"),
                        info={"outcome": res.outcome, "exc": str(res.exc)})
                continue
            if res.outcome != "return":
                U.prove(f"{nm}.returns_normally", P, z3.BoolVal(False), info={"exc": str(res.exc)})
                continue
            r, grid, ax, rank, handed_on = res.value
            if not grid_periodic:
                # auto_periodic_<x> on a non-periodic axis: the condition <x> is handed on to BoundaryPair.from_data
                ok = len(handed_on) == 1 and isinstance(r, Instance) and r.attrs.get("handed_on") is True
                passed = handed_on[0][0] if ok else ()
                U.prove(f"{nm}.auto_periodic_on_a_non-periodic_axis_hands_on_the_named_condition", P,
                        z3.BoolVal(ok and key[len("auto_periodic_"):] in [a for a in passed if isinstance(a, str)]), info={"passed": repr(passed)[:200]})
                continue
            ok = isinstance(r, Instance) and r.cls is not None and r.cls.name == "BoundaryPeriodic" and not handed_on
            sides = [r.attrs.get("low"), r.attrs.get("high")] if ok else []
            ok = ok and all(isinstance(s, Instance) and s.cls is not None and s.cls.name == "_PeriodicBC" for s in sides)
            U.prove(f"{nm}.builds_a_pair_of_periodic_conditions", P, z3.BoolVal(ok))
            if not ok:
                continue
            for s, upper in zip(sides, (False, True)):
                side = "high" if upper else "low"
                U.prove(f"{nm}.{side}.flip_sign=={want_flip}", P, to_z3(s.attrs.get("flip_sign")) == z3.BoolVal(want_flip) if "flip_sign" in s.attrs else z3.BoolVal(False),
                        info={"replay_payload": {"periodic_spec": key}})
                U.prove(f"{nm}.{side}.axis_side_rank_grid", P, z3.And(z3.BoolVal(s.attrs.get("grid") is grid and s.attrs.get("upper") is upper), to_z3(s.attrs.get("axis")) == ax,
                                                                      to_z3(s.attrs.get("rank")) == rank))

    return unit


UNITS += [(f"get_boundary_axis[{PERIODIC_SPECS[k][0]},periodic_axis={gp}]", axis_spec_unit(k, gp)) for k in PERIODIC_SPECS for gp in (True, False)]


# ------------------------------------------------------------------ the *current* parameters are imposed
def value_update_unit(clsname, route):
    """a condition object is used, its parameters are changed (bc.value = ..., a linked array modified in
    place: the attribute holds the new number either way) and it is used again: the second application
    imposes the condition with the new parameters (nothing computed at the first use may be reused)"""
    kind = KINDS[clsname]

    def unit(U):
        def body(it):
            grid, N, dx, facts = _grid(1)
            for f in facts:
                it.ctx.assume(f)
            if kind == "curvature":
                it.ctx.assume(N[0] >= 2)
            upper = bool(it.ctx.branch(z3.Bool("upper")))
            bc, par = _bc(it, clsname, grid, 0, upper)
            new = {"value": z3.Real("new_value"), "const": z3.Real("new_const")}
            if kind == "mixed":
                it.ctx.assume(2 + dx[0] * to_z3(par["value"]) != 0)
                it.ctx.assume(2 + dx[0] * new["value"] != 0)

            def apply(data):
                if route == "interpreted":
                    it.call(it.getattr(bc, "set_ghost_cells"), [data], {})
                else:
                    be = Instance(it.load_module("pde.backends.numba.backend").get("NumbaBackend"), {})
                    setter = it.call(it.getattr(be, "_make_local_ghost_cell_setter"), [bc], {})
                    it.call(setter, [data], {})

            first = sym_array("data_first", (N[0] + 2,))
            apply(first)
            bc.attrs["value"] = new["value"]
            par2 = {"value": new["value"]}
            if kind == "mixed":
                bc.attrs["const"] = new["const"]
                par2["const"] = new["const"]
            data = sym_array("data_second", (N[0] + 2,))
            before = data.buf.content
            apply(data)
            if route != "interpreted":
                U.absorb(it)
            return data, before, N, dx, par2, upper

        for p, res in enumerate(explore_paths(U, body)):
            P = prem_of(res.ctx)
            nm = f"path{p}"
            if res.outcome != "return":
                U.prove(f"{nm}.returns_normally", P, z3.BoolVal(False), info={"exc": str(res.exc)})
                continue
            data, before, N, dx, par2, upper = res.value
            gpos = N[0] + 1 if upper else 0
            c1pos = N[0] if upper else 1
            c2pos = N[0] - 1 if upper else 2
            g = to_z3(data.read((gpos,)))
            c1 = to_z3(before.read((c1pos,)))
            c2 = to_z3(before.read((c2pos,)))
            U.prove(f"{nm}.second_use_imposes_the_condition_with_the_current_parameters", P, condition(kind, g, c1, c2, dx[0], par2),
                    info={"prefer": "ratnf", "replay_payload": {"value_update": clsname, "route": route}} if kind == "mixed" else {"replay_payload": {"value_update": clsname, "route": route}})

    return unit


UNITS += [(f"{c}.parameters_changed_between_two_uses[{r}]", value_update_unit(c, r)) for c in ("DirichletBC", "NeumannBC", "MixedBC", "CurvatureBC") for r in ("interpreted", "compiled")]


# ------------------------------------------------------------------ (P) per-side precedence of the dictionary format
AXES_MOD = "pde.grids.boundaries.axes"
PARSE_KEYS = ["*", "x", "x-", "x+", "y", "y-", "y+", "left"]


def parse_from_dict_unit(U):
    """the real BoundariesList._parse_from_dict on a 2-axis grid with axes x, y and the named boundary 'left' = x-:
    for every one of the 2^8 sets of keys the condition handed to get_boundary_axis for a side is the most specific
    one given -- named boundary, then one-sided key, then axis key, then '*' -- and the caller's dictionary is left
    as it was.  Values are opaque objects; get_boundary_axis is a recording stub (its contract: the units above)."""
    import itertools

    def body_for(present):
        def body(it):
            it.overrides["config"] = {"boundaries.accept_lists": True}  # the default of the package
            coords = Instance(None, {"_axes_alt_repl": {}}, name="coordinates")
            grid = Instance(None, {"num_axes": 2, "axes": ["x", "y"], "c": coords, "boundary_names": {"left": (0, False)}, "periodic": [False, False]}, name="grid")
            values = {k: Instance(None, {}, name=f"condition_for[{k}]") for k in present}
            data = dict(values)
            calls = []

            def gba(grid_, i, spec, rank=0):
                calls.append((i, spec, rank))
                return ("axis", i)

            it.stub_names["get_boundary_axis"] = gba
            cls = it.module_attr(it.load_module(AXES_MOD), "BoundariesList")
            fn = it.get_function(AXES_MOD, "BoundariesList._parse_from_dict")
            r = it.call(fn, [cls, data], {"grid": grid, "rank": 1})
            return r, calls, data, values
        return body

    n = 0
    for mask in itertools.product((False, True), repeat=len(PARSE_KEYS)):
        present = [k for k, m in zip(PARSE_KEYS, mask) if m]
        tag = ",".join(present) or "none"
        results = list(explore_paths(U, body_for(present)))
        if len(results) != 1 or results[0].outcome != "return":
            U.prove(f"keys[{tag}].returns_normally_on_one_path", [], z3.BoolVal(False), info={"outcomes": [r.outcome for r in results], "exc": str(results[0].exc) if results else ""})
            continue
        n += 1
        r, calls, data, values = results[0].value
        ok_shape = len(calls) == 2 and [c[0] for c in calls] == [0, 1] and all(c[2] == 1 for c in calls) and all(isinstance(c[1], tuple) and len(c[1]) == 2 for c in calls)
        good = ok_shape
        if ok_shape:
            for ax, name in enumerate(("x", "y")):
                for side, suffix in enumerate("-+"):
                    order = (["left"] if (ax, side) == (0, 0) else []) + [name + suffix, name, "*"]
                    want = next((values[k] for k in order if k in values), None)
                    good = good and calls[ax][1][side] is want
        U.prove(f"keys[{tag}].every_side_gets_the_most_specific_condition_given", [], z3.BoolVal(good),
                info={"replay_payload": {"precedence_keys": present}, "handed_on": repr([c[1] for c in calls])[:300]})
        U.prove(f"keys[{tag}].caller's_dictionary_unchanged", [], z3.BoolVal(set(data) == set(values) and all(data[k] is values[k] for k in values)))
    U.prove("all_key_sets_explored", [], z3.BoolVal(n == 2 ** len(PARSE_KEYS)))


UNITS += [("BoundariesList._parse_from_dict.precedence", parse_from_dict_unit)]
