"""C17 -- splitting a grid into sub-grids changes nothing (DESIGN.md §4, C17): index arithmetic."""

from __future__ import annotations

from fractions import Fraction

import z3

from ..arrays import NDArr, fresh_array, sym_array
from ..objects import Instance
from ..values import Opaque, concrete, fresh_name, to_real, to_z3
from .common import explore_paths, prem_of

PROPERTY = "C17"
MESH = "pde.grids._mesh"
LOCAL = "pde.grids.boundaries.local"


def subdivide_unit(U):
    def body(it):
        N, c = z3.Int("N"), z3.Int("chunks")
        it.ctx.assume(c >= 1)
        it.ctx.assume(N >= 1)
        r = it.call(it.get_function(MESH, "_subdivide"), [N, c], {})
        return r, N, c

    for p, res in enumerate(explore_paths(U, body)):
        P = prem_of(res.ctx)
        nm = f"_subdivide.path{p}"
        N, c = z3.Int("N"), z3.Int("chunks")
        if res.outcome == "raise":
            U.prove(f"{nm}.error_only_for_more_chunks_than_cells", P, z3.And(c > N, z3.BoolVal(res.exc.exc_type == "RuntimeError")))
            continue
        r, N, c = res.value
        k = z3.Int("k")
        Pk = P + [k >= 0, k < c]
        bnd = lambda j: z3.ToInt(z3.ToReal(j) * z3.ToReal(N) / z3.ToReal(c))
        size = to_z3(r.read((k,)))
        U.prove(f"{nm}.one_size_per_chunk", P, to_z3(r.shape[0]) == c)
        U.prove(f"{nm}.size_k==floor((k+1)N/c)-floor(kN/c)", Pk, size == bnd(k + 1) - bnd(k))
        U.prove(f"{nm}.every_chunk_has_at_least_one_cell", Pk, size >= 1)
        U.prove(f"{nm}.chunk_bounds_start_at_0_and_end_at_N", P, z3.And(bnd(z3.IntVal(0)) == 0, bnd(c) == N))
    U.assume_note("sum of the sizes = N and every size >= 1: proved in Lean (lean/Partition.lean: chunk_sizes_sum, chunk_size_pos, thorough tier)")


def subdivide_along_axis_unit(chunks):
    def unit(U):
        def body(it):
            N = [z3.Int("N0"), z3.Int("N1")]
            lo = [z3.Real("lo0"), z3.Real("lo1")]
            hi = [z3.Real("hi0"), z3.Real("hi1")]
            for a in range(2):
                it.ctx.assume(N[a] >= chunks)
                it.ctx.assume(lo[a] < hi[a])
            made = []

            def from_bounds(bounds, shape, periodic):
                made.append((bounds, shape, periodic))
                return Instance(None, {"bounds": bounds, "shape": shape}, name="subgrid")

            klass = Instance(None, {"from_bounds": from_bounds}, name="GridClass")
            grid = Instance(None, {"shape": tuple(N), "periodic": [z3.Bool("p0"), z3.Bool("p1")], "axes_bounds": tuple((lo[a], hi[a]) for a in range(2)), "__class__": klass}, name="grid")
            r = it.call(it.get_function(MESH, "_subdivide_along_axis"), [grid, 1, chunks], {})
            return made, N, lo, hi

        for p, res in enumerate(explore_paths(U, body)):
            P = prem_of(res.ctx)
            nm = f"_subdivide_along_axis[chunks={chunks}].path{p}"
            if res.outcome != "return":
                U.prove(f"{nm}.returns_normally", P, z3.BoolVal(False), info={"exc": str(res.exc)})
                continue
            made, N, lo, hi = res.value
            U.prove(f"{nm}.one_subgrid_per_chunk", P, z3.BoolVal(len(made) == chunks))
            if len(made) != chunks:
                continue
            dx = (hi[1] - lo[1]) / z3.ToReal(N[1])
            sizes = [to_z3(m[1][1]) for m in made]
            los = [to_z3(to_real(m[0][1][0])) for m in made]
            his = [to_z3(to_real(m[0][1][1])) for m in made]
            U.prove(f"{nm}.sizes_sum_to_N_and_positive", P, z3.And(sum(sizes) == N[1], *[s >= 1 for s in sizes]))
            U.prove(f"{nm}.first_lower_and_last_upper_bound_are_the_grid_bounds", P, z3.And(los[0] == lo[1], his[-1] == hi[1]), info={"prefer": "ratnf"})
            for k in range(chunks - 1):
                U.prove(f"{nm}.chunk{k}_and_{k + 1}_share_a_cell_boundary", P, his[k] == los[k + 1])
            for k in range(chunks):
                U.prove(f"{nm}.chunk{k}_keeps_the_cell_size", P, (his[k] - los[k]) == z3.ToReal(sizes[k]) * dx, info={"prefer": "ratnf"})
                U.prove(f"{nm}.chunk{k}_other_axis_untouched_and_split_axis_not_periodic", P,
                        z3.And(to_z3(made[k][1][0]) == N[0], to_z3(to_real(made[k][0][0][0])) == lo[0], to_z3(to_real(made[k][0][0][1])) == hi[0],
                               z3.BoolVal(made[k][2][1] is False), to_z3(made[k][2][0]) == z3.Bool("p0")))

    return unit


def data_indices_unit(with_ghost):
    def unit(U):
        def body(it):
            n = [z3.Int("n0"), z3.Int("n1"), z3.Int("n2")]
            for x in n:
                it.ctx.assume(x >= 1)
            subs = [Instance(None, {"shape": (n[k],)}, name=f"sub{k}") for k in range(3)]
            cls = it.module_attr(it.load_module(MESH), "GridMesh")
            mesh = Instance(cls, {"num_axes": 1, "subgrids": Instance(None, {"__getitem__": lambda key: list(subs)}, name="subgrids")})
            r = it.call(it.getattr(mesh, "_get_data_indices_1d"), [with_ghost], {})
            return r, n

        for p, res in enumerate(explore_paths(U, body)):
            P = prem_of(res.ctx)
            nm = f"_get_data_indices_1d[ghost={with_ghost}].path{p}"
            if res.outcome != "return":
                U.prove(f"{nm}.returns_normally", P, z3.BoolVal(False), info={"exc": str(res.exc)})
                continue
            r, n = res.value
            sl = r[0]
            g = 2 if with_ghost else 0
            starts = [0, n[0], n[0] + n[1]]
            U.prove(f"{nm}.three_slices", P, z3.BoolVal(len(r) == 1 and len(sl) == 3))
            for k in range(3):
                U.prove(f"{nm}.slice{k}==[sum_of_previous_sizes, +size(+2 ghost))", P, z3.And(to_z3(sl[k].start) == starts[k], to_z3(sl[k].stop) == starts[k] + n[k] + g))
            U.assume_note("valid-cell slices tile [0, N) (consecutive, disjoint); with ghost cells consecutive slices overlap by exactly the two ghost layers")

    return unit


def split_combine_unit(with_ghost):
    """combine(extract(data, 0), extract(data, 1)) == data on a 1-d mesh of two chunks of arbitrary sizes"""
    def unit(U):
        def body(it):
            n = [z3.Int("n0"), z3.Int("n1")]
            for x in n:
                it.ctx.assume(x >= 1)
            g = 2 if with_ghost else 0
            subs = [Instance(None, {"shape": (n[k],)}, name=f"sub{k}") for k in range(2)]
            total = n[0] + n[1]
            base = Instance(None, {"shape": (total,), "_shape_full": (total + 2,)}, name="basegrid")
            cls = it.module_attr(it.load_module(MESH), "GridMesh")
            mesh = Instance(cls, {"num_axes": 1, "basegrid": base, "shape": (2,),
                                  "subgrids": Instance(None, {"__getitem__": lambda key: list(subs)}, name="subgrids")})
            it.contracts[(MESH, "GridMesh._id2idx")] = lambda interp, args, kw: (args[1],)
            it.contracts[(MESH, "GridMesh.__len__")] = lambda interp, args, kw: 2
            # _get_data_indices builds an object array with np.ndindex: replaced by its contract (indices[idx] = tuple of the 1-d slices)
            def gdi(interp, args, kw):
                one = interp.call(interp.getattr(args[0], "_get_data_indices_1d"), [kw.get("with_ghost_cells", args[1] if len(args) > 1 else False)], {})
                return Instance(None, {"__getitem__": lambda idx: tuple(one[a][i] for a, i in enumerate(idx))}, name="indices")
            it.contracts[(MESH, "GridMesh._get_data_indices")] = gdi
            data = sym_array("data", (total + g,))
            parts = [it.call(it.getattr(mesh, "extract_field_data"), [data, k], {"with_ghost_cells": with_ghost}) for k in range(2)]
            # sub-fields are independent copies in the distributed setting
            parts = [q.copy() for q in parts]
            out = it.call(it.getattr(mesh, "combine_field_data"), [parts], {"with_ghost_cells": with_ghost})
            return data, parts, out, n, total, g

        for p, res in enumerate(explore_paths(U, body)):
            P = prem_of(res.ctx)
            nm = f"split_combine[ghost={with_ghost}].path{p}"
            if res.outcome != "return":
                U.prove(f"{nm}.returns_normally", P, z3.BoolVal(False), info={"exc": str(res.exc)})
                continue
            data, parts, out, n, total, g = res.value
            j = z3.Int("j")
            U.prove(f"{nm}.sub_shapes", P, z3.And(*[to_z3(parts[k].shape[0]) == n[k] + g for k in range(2)]))
            U.prove(f"{nm}.extract_then_combine_is_the_identity", P + [j >= 0, j < total + g], to_z3(out.read((j,))) == to_z3(data.read((j,))))
            # sub-field k holds the base cells of its chunk (same coordinates: base index = offset + local index)
            U.prove(f"{nm}.chunk1_starts_where_chunk0_ends", P + [j >= 0, j < n[1] + g], to_z3(parts[1].read((j,))) == to_z3(data.read((n[0] + j,))))

    return unit


def neighbor_unit(U):
    FLAT = z3.Function("node_id", z3.IntSort(), z3.IntSort(), z3.IntSort())

    def body(it):
        S = [z3.Int("S0"), z3.Int("S1")]
        I = [z3.Int("I0"), z3.Int("I1")]
        per = z3.Bool("periodic0")
        for a in range(2):
            it.ctx.assume(S[a] >= 1)
            it.ctx.assume(z3.And(I[a] >= 0, I[a] < S[a]))
        cls = it.module_attr(it.load_module(MESH), "GridMesh")
        base = Instance(None, {"periodic": [per, z3.Bool("periodic1")]}, name="basegrid")
        mesh = Instance(cls, {"shape": tuple(S), "basegrid": base, "current_node": Opaque("node")})
        it.contracts[(MESH, "GridMesh._id2idx")] = lambda interp, args, kw: (I[0], I[1])
        it.contracts[(MESH, "GridMesh._idx2id")] = lambda interp, args, kw: FLAT(to_z3(args[1][0]), to_z3(args[1][1]))
        upper = it.ctx.branch(z3.Bool("upper"))
        r = it.call(it.getattr(mesh, "get_neighbor"), [0, upper], {"node_id": z3.Int("node")})
        return r, S, I, per, upper

    for p, res in enumerate(explore_paths(U, body)):
        P = prem_of(res.ctx)
        nm = f"get_neighbor.path{p}"
        if res.outcome != "return":
            U.prove(f"{nm}.returns_normally", P, z3.BoolVal(False), info={"exc": str(res.exc)})
            continue
        r, S, I, per, upper = res.value
        at_edge = (I[0] == S[0] - 1) if upper else (I[0] == 0)
        if r is None:
            U.prove(f"{nm}.no_neighbour_only_at_a_non_periodic_edge_or_single_chunk", P, z3.Or(S[0] == 1, z3.And(at_edge, z3.Not(per))))
        else:
            step = 1 if upper else -1
            want = z3.If(at_edge, z3.If(z3.BoolVal(upper), z3.IntVal(0), S[0] - 1), I[0] + step)
            U.prove(f"{nm}.neighbour_is_next_chunk_on_the_axis_wrapping_periodically", P, z3.And(to_z3(r) == FLAT(want, I[1]), S[0] > 1, z3.Or(z3.Not(at_edge), per)))
    U.assume_note("symmetry: the neighbour relation is idx -> idx +- 1 with periodic wrap, so upper(lower(i)) = i; ravel/unravel are inverse bijections (NumPy contract)")


def to_subgrid_unit(clsname):
    def unit(U):
        def body(it):
            cls = it.module_attr(it.load_module(LOCAL), clsname)
            gcls = Instance(None, {}, name="GridClass")
            grid = Instance(None, {"__class__": gcls}, name="grid")
            sub = Instance(None, {"__class__": gcls}, name="subgrid")
            it.builtins["issubclass"] = lambda a, b: a is b
            attrs = {"grid": grid, "axis": z3.Int("axis"), "upper": z3.Bool("upper"), "rank": z3.Int("rank"), "value": z3.Real("value"),
                     "const": z3.Real("const"), "flip_sign": z3.Bool("flip"), "value_is_linked": False, "homogeneous": True}
            bc = Instance(cls, attrs)
            made = []
            def ctor(interp, args, kw):
                made.append(kw)
                return None
            for c in cls.mro:
                if "__init__" in c.members:
                    it.contracts[(c.module.name, f"{c.name}.__init__")] = ctor
                    break
            r = it.call(it.getattr(bc, "to_subgrid"), [sub], {})
            return made, attrs, sub, r, cls

        for p, res in enumerate(explore_paths(U, body)):
            P = prem_of(res.ctx)
            nm = f"{clsname}.to_subgrid.path{p}"
            if res.outcome != "return":
                U.prove(f"{nm}.returns_normally", P, z3.BoolVal(False), info={"exc": str(res.exc)})
                continue
            made, attrs, sub, r, cls = res.value
            ok = len(made) == 1 and made[0].get("grid") is sub and hasattr(r, "cls") and r.cls is cls
            U.prove(f"{nm}.same_class_on_the_subgrid", P, z3.BoolVal(ok))
            if not ok:
                continue
            kw = made[0]
            need = ["axis", "upper"] + (["flip_sign"] if clsname == "_PeriodicBC" else ["rank", "value"]) + (["const"] if clsname == "MixedBC" else [])
            for key in need:
                U.prove(f"{nm}.{key}_is_transferred", P, to_z3(kw[key]) == to_z3(attrs[key]) if key in kw else z3.BoolVal(False))

    return unit


UNITS = [
    ("_subdivide", subdivide_unit),
    ("_subdivide_along_axis[2]", subdivide_along_axis_unit(2)),
    ("_subdivide_along_axis[3]", subdivide_along_axis_unit(3)),
    ("_get_data_indices_1d", data_indices_unit(False)),
    ("_get_data_indices_1d[ghost]", data_indices_unit(True)),
    ("split_combine", split_combine_unit(False)),
    ("split_combine[ghost]", split_combine_unit(True)),
    ("get_neighbor", neighbor_unit),
] + [(f"{c}.to_subgrid", to_subgrid_unit(c)) for c in ("DirichletBC", "NeumannBC", "MixedBC", "CurvatureBC", "_PeriodicBC")]



def lemma_lean_partition(U):
    """the summation step (induction on the number of cells / chunks) in Lean 4 + Mathlib: lean/Partition.lean"""
    import os

    from ..runner import VERIF
    U.lean_file(os.path.join(VERIF, "lean", "Partition.lean"), only=['chunk_sizes_sum', 'chunk_size_pos'])


UNITS = list(UNITS) + [("lemma.lean.partition", lemma_lean_partition)]
THOROUGH_ONLY = set(globals().get("THOROUGH_ONLY", ())) | {"lemma.lean.partition"}

def bounded(tier, seed):
    from ..runner import native

    res = native("mesh.py", {"seed": seed, "thorough": tier != "quick"}, timeout=3000)
    if not res.get("ok"):
        raise RuntimeError(f"native driver failed: {res}")
    return [{"name": "all_decompositions_of_small_grids", "bound": "every decomposition of grids up to 6x5 (quick) / 7x6x3 (thorough) cells incl. uneven chunks, all grid classes where from_bounds accepts the sub-bounds; ranks 0-1; operators with neighbour ghost cells; Cartesian grids: laplace with ghost cells copied from neighbouring sub-fields and outer-face conditions transferred by to_subgrid (mixed, expression virtual points with and without value_cell; refused transfers skipped); extract_subfield / split_field_mpi of Scalar-, Vector-, Tensor2Field and FieldCollection objects of five dtypes (values and dtype identical after combining); _subdivide(num, chunks) tiles the axis with balanced chunks for every pair with num <= 120 (exhaustive; float intermediates are outside the real-number model)",
             "cases": res["cases"], "failures": res["failures"]}]


TRUSTED = ["np.linspace exact, astype(int) = truncation, np.ravel_multi_index / unravel_index inverse bijections"]
ASSUMPTIONS = ["admissible decompositions: from_bounds of the grid class accepts the sub-bounds (radial splits of cylinders are inadmissible)",
               "operator equivalence = locality of the C01 stencils (reads within +-1) + ghost cells from neighbours / global BC (bounded native check)"]
NOT_COVERED = ["GridMesh.from_grid object-array construction, _get_data_indices (np.ndindex), extract_boundary_conditions, _MPIBC: bounded native check only", "real MPI transport"]
