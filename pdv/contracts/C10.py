"""C10 -- interpreted rate and compiled rate of the predefined equation classes agree (DESIGN.md §4, C10 (a)).

Both implementations are executed over an abstract field algebra: a field is one arbitrary real cell,
`field.op(bc=B, ..)` and `grid.make_operator(op, bc=B, ..)(data, args=..)` both denote the uninterpreted
map L<op, B> (licensed by C03), with every boundary-condition attribute of the equation its own opaque
symbol -- the operators are ARBITRARY (possibly affine) maps, so the two paths must have literally the same
operator structure; the time must reach every operator call."""

from __future__ import annotations

import z3

from ..arrays import NDArr, fresh_array, sym_array
from ..objects import Instance
from ..values import Opaque, Unsupported, binop, fresh_name, power, to_real, to_z3
from .common import explore_paths, prem_of

PROPERTY = "C10"
BC = z3.DeclareSort("BoundaryConditionData")
_L = {}
_STR_BC = {}


def bc_term(bc):
    """boundary-condition data as a term of an uninterpreted sort: symbolic data are constants, string literals
    are pairwise distinct constants, so `self.bc_mu == self.default_bc_mu` is an ordinary (decidable) equality"""
    if isinstance(bc, Instance) and "bc_term" in bc.attrs:
        return bc.attrs["bc_term"]
    if isinstance(bc, str):
        if bc not in _STR_BC:
            _STR_BC[bc] = z3.Const(f"bc_str_{bc}", BC)
        return _STR_BC[bc]
    if bc is None:
        return z3.Const("bc_None", BC)
    raise Unsupported(f"boundary condition data {bc!r}")


def str_facts():
    cs = list(_STR_BC.values()) + [z3.Const("bc_None", BC)]
    return [z3.Distinct(*cs)] if len(cs) > 1 else []


def sym_bc(name):
    term = z3.Const(name, BC)
    me = Instance(None, {"bc_term": term, "__isinstance__": ()}, name=name)

    def eq(other):
        if other is me:
            return True
        try:
            return term == bc_term(other)
        except Unsupported:
            return False
    me.attrs["__eq__"] = eq
    return me


def L(op, bc):
    """the operator `op` with boundary conditions bc: an arbitrary map of (bc, value, t)"""
    if op not in _L:
        _L[op] = z3.Function(f"L_{op}", BC, z3.RealSort(), z3.RealSort(), z3.RealSort())
    term = bc_term(bc)
    return lambda v, t: _L[op](term, v, t)


class Ops:
    def __init__(self):
        self.times = []


def mk_field(val, ops, kind="ScalarField"):
    f = Instance(None, {"__isinstance__": (kind, "DataFieldBase", "FieldBase"), "_val": val}, name="field")
    A = f.attrs

    def lift(op, swap=False):
        def g(other):
            o = other.attrs["_val"] if isinstance(other, Instance) else other
            return mk_field(binop(op, o, val) if swap else binop(op, val, o), ops)
        return g

    for nm, op in (("add", "+"), ("sub", "-"), ("mul", "*"), ("truediv", "/")):
        A[f"__{nm}__"] = lift(op)
        A[f"__r{nm}__"] = lift(op, swap=True)
    A["__pow__"] = lambda e: mk_field(power(val, e), ops)
    A["__neg__"] = lambda: mk_field(-to_z3(to_real(val)), ops)
    A["copy"] = lambda **k: mk_field(val, ops)

    def operator(name):
        def apply(bc=None, label=None, args=None, **kw):
            bc = kw.pop("bc", bc)
            t = (args or {}).get("t")
            ops.times.append(t)
            return mk_field(L(name, bc)(to_z3(to_real(val)), to_z3(to_real(t)) if t is not None else z3.Real("t_missing")), ops)
        return apply

    for name in ("laplace", "gradient_squared"):
        A[name] = operator(name)
    return f


def make_grid(ops):
    def make_operator(operator=None, bc=None, backend=None, dtype=None, **kw):
        def op(data, args=None, out=None):
            t = (args or {}).get("t")
            ops.times.append(t)
            x = data.read((0,)) if isinstance(data, NDArr) else data
            v = L(operator, bc)(to_z3(to_real(x)), to_z3(to_real(t)) if t is not None else z3.Real("t_missing"))
            return fresh_array("op", data.shape if isinstance(data, NDArr) else (1,), lambda idx: v)
        return op
    return Instance(None, {"make_operator": make_operator}, name="grid")


CLASSES = {
    "DiffusionPDE": ("pde.pdes.diffusion", {"diffusivity": "real", "bc": "bc"}),
    "AllenCahnPDE": ("pde.pdes.allen_cahn", {"interface_width": "real", "mobility": "real", "bc": "bc"}),
    "CahnHilliardPDE": ("pde.pdes.cahn_hilliard", {"interface_width": "real", "bc_c": "bc", "bc_mu": "bc"}),
    "KPZInterfacePDE": ("pde.pdes.kpz_interface", {"nu": "real", "lmbda": "real", "bc": "bc"}),
    "KuramotoSivashinskyPDE": ("pde.pdes.kuramoto_sivashinsky", {"nu": "real", "bc": "bc", "bc_lap": "bc"}),
    "SwiftHohenbergPDE": ("pde.pdes.swift_hohenberg", {"rate": "real", "kc2": "real", "delta": "real", "bc": "bc", "bc_lap": "bc"}),
    "WavePDE": ("pde.pdes.wave", {"speed": "real", "bc": "bc"}),
    "KleinGordonPDE": ("pde.pdes.klein_gordon", {"speed": "real", "mass": "real", "bc": "bc"}),
}
TWO_FIELDS = ("WavePDE", "KleinGordonPDE")


def mk_collection(fields):
    return Instance(None, {"__isinstance__": ("FieldCollection", "FieldBase"), "fields": list(fields), "__len__": lambda: len(fields),
                           "__iter__": lambda: list(fields), "__getitem__": lambda k: fields[k]}, name="collection")


def class_unit(clsname, omitted=()):
    """the equation object is built by the real __init__ (defaults of omitted boundary conditions are the code's);
    boundary conditions that are given are arbitrary data that may or may not equal a default"""
    mod, params = CLASSES[clsname]

    def unit(U):
        def body(it):
            cls = it.load_module(mod).get(clsname)
            kwargs = {}
            for k, kind in params.items():
                if k in omitted:
                    continue
                kwargs[k] = z3.Real(k) if kind == "real" else sym_bc(k)
            it.stub_modules["numpy"].attrs["random"] = Instance(None, {"default_rng": lambda *a: Opaque("rng")}, name="np.random")
            def collection_init(interp, args, kw):
                args[0].attrs["_fields"] = list(args[1])

            it.contracts[("pde.fields.collection", "FieldCollection.__init__")] = collection_init
            eq = it.instantiate(cls, [], kwargs)
            u, v, t = z3.Real("u"), z3.Real("v"), z3.Real("t")
            ops_i, ops_c = Ops(), Ops()
            two = clsname in TWO_FIELDS
            state = mk_collection([mk_field(u, ops_i), mk_field(v, ops_i)]) if two else mk_field(u, ops_i)
            r1 = it.call(it.getattr(eq, "evolution_rate"), [state, t], {})
            tmpl = Instance(None, {"grid": make_grid(ops_c), "dtype": Opaque("dtype"), "__isinstance__": ("FieldCollection",) if two else ("ScalarField",)}, name="state template")
            rhs = it.call(it.getattr(eq, "make_evolution_rate"), [tmpl, Opaque("backend")], {})
            if two:
                data = fresh_array("state_data", (2, 1), lambda idx: z3.If(to_z3(idx[0]) == 0, u, v))
            else:
                data = fresh_array("state_data", (1,), lambda idx: u)
            r2 = it.call(rhs, [data, t], {})
            for f in str_facts():
                it.ctx.assume(f)
            return r1, r2, ops_i, ops_c, t

        n_ok = 0
        for p, res in enumerate(explore_paths(U, body)):
            P = prem_of(res.ctx) + str_facts()
            nm = f"{clsname}.path{p}"
            if res.outcome != "return":
                U.prove(f"{nm}.returns_normally", P, z3.BoolVal(False), info={"exc": str(res.exc)})
                continue
            n_ok += 1
            r1, r2, ops_i, ops_c, t = res.value
            comps = [0, 1] if clsname in TWO_FIELDS else [None]
            claims = []
            for c in comps:
                f1 = r1.attrs["_fields"][c] if c is not None else r1
                v1 = to_z3(to_real(f1.attrs["_val"]))
                v2 = to_z3(to_real(r2.read((c, 0) if c is not None else (0,)))) if isinstance(r2, NDArr) else to_z3(to_real(r2))
                claims.append(v1 == v2)
            U.prove(f"{nm}.interpreted_rate==compiled_rate_for_arbitrary_(possibly_affine)_operators_and_all_parameters", P, z3.And(*claims),
                    info={"witness": "operators with inhomogeneous boundary conditions are affine, not linear", "prefer": "z3"})
            U.prove(f"{nm}.time_reaches_every_operator_call_on_both_paths", P,
                    z3.And(*[to_z3(to_real(x)) == t if x is not None else z3.BoolVal(False) for x in ops_i.times + ops_c.times]) if ops_i.times + ops_c.times else z3.BoolVal(False))
        U.prove(f"{clsname}.has_normal_paths", [], z3.BoolVal(n_ok >= 1))

    return unit


def _variants(clsname):
    bcs = [k for k, kind in CLASSES[clsname][1].items() if kind == "bc"]
    out = []
    for m in range(2 ** len(bcs)):
        omitted = tuple(b for i, b in enumerate(bcs) if m >> i & 1)
        out.append((f"{clsname}[{'all boundary conditions given' if not omitted else 'default ' + '+'.join(omitted)}]", class_unit(clsname, omitted)))
    return out


UNITS = [u for c in CLASSES for u in _variants(c)]


def _helper_units():
    """compiled tensor helpers that expression rates call (outer(.,.) and dot(.,.)): the same contracts as in C19 --
    out[i, j] = a[i] b[j] resp. sum_k a[.., k] b[k, ..], which is what the interpreted route computes with numpy"""
    from . import C19

    us = [("compiled_helpers.outer_product", C19.outer_product_unit)]
    us += [(f"compiled_helpers.inner_product[rank_a={ra},rank_b={rb}]", C19.inner_product_unit(ra, rb)) for ra in (1, 2) for rb in (1, 2)]
    return us


UNITS += _helper_units()


def bounded(tier, seed):
    from ..runner import native

    res = native("rates.py", {"seed": seed, "n": 1 if tier == "quick" else 6}, timeout=3000)
    if not res.get("ok"):
        raise RuntimeError(f"native driver failed: {res}")
    return [{"name": "interpreted_vs_compiled_vs_expression", "bound": "all 8 equation classes with random parameters and operator-specific (inhomogeneous) BCs on 2 grids: evolution_rate vs make_pde_rhs on numpy/numba vs a generic PDE built from expression(s) (with one homogeneous and with one inhomogeneous condition for all operators -- the text cannot carry operator-specific conditions); expression PDEs with constants, time and coordinate dependence, several fields, bc_ops per variable",
             "cases": res["cases"], "failures": res["failures"]}]


TRUSTED = ["abstract field algebra: one arbitrary cell, operators with BC = uninterpreted maps L<op, bc>(value, t) (C03)"]
ASSUMPTIONS = ["clause (a) only: numpy path = compiled path; the comparison with the advertised expression text is in the bounded check"]
NOT_COVERED = ["equations given as expression strings (PDE._prepare_cache/_compile_rhs_single: sympy + printers + numba): not applicable to contracts, bounded native check only",
               "the expression-text clause (advertised `expression` strings equal the implemented rates): bounded native check only",
               "ReactionDiffusion-type classes built on PDE(...) and user-defined PDEBase subclasses"]
