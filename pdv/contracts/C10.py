"""C10 -- interpreted rate and compiled rate of the predefined equation classes agree (DESIGN.md §4, C10 (a)).

Both implementations are executed over an abstract field algebra: a field is one arbitrary real cell,
`field.op(bc=B, ..)` and `grid.make_operator(op, bc=B, ..)(data, args=..)` both denote the uninterpreted
map L<op, B> (licensed by C03), with every boundary-condition attribute of the equation its own opaque
symbol -- the operators are ARBITRARY (possibly affine) maps, so the two paths must have literally the same
operator structure; the time must reach every operator call."""

from __future__ import annotations

import z3

from ..arrays import NDArr, fresh_array, sym_array
from ..objects import Instance
from ..values import Opaque, binop, fresh_name, power, to_real, to_z3
from .common import explore_paths, prem_of

PROPERTY = "C10"
_L = {}


def L(op, bc):
    key = (op, id(bc))
    if key not in _L:
        _L[key] = z3.Function(f"L_{op}_{getattr(bc, 'what', id(bc))}".replace(" ", "_"), z3.RealSort(), z3.RealSort(), z3.RealSort())
    return _L[key]


class Ops:
    def __init__(self):
        self.times = []


def mk_field(val, ops, kind="ScalarField"):
    f = Instance(None, {"__isinstance__": (kind, "DataFieldBase", "FieldBase"), "_val": val}, name="field")
    A = f.attrs

    def lift(op, swap=False):
        def g(other):
            o = other.attrs["_val"] if isinstance(other, Instance) else other
            return mk_field(binop(op, o, val) if swap else binop(op, val, o), ops)
        return g

    for nm, op in (("add", "+"), ("sub", "-"), ("mul", "*"), ("truediv", "/")):
        A[f"__{nm}__"] = lift(op)
        A[f"__r{nm}__"] = lift(op, swap=True)
    A["__pow__"] = lambda e: mk_field(power(val, e), ops)
    A["__neg__"] = lambda: mk_field(-to_z3(to_real(val)), ops)
    A["copy"] = lambda **k: mk_field(val, ops)

    def operator(name):
        def apply(bc=None, label=None, args=None, **kw):
            t = (args or {}).get("t")
            ops.times.append(t)
            return mk_field(L(name, bc)(to_z3(to_real(val)), to_z3(to_real(t)) if t is not None else z3.Real("t_missing")), ops)
        return apply

    for name in ("laplace", "gradient_squared"):
        A[name] = operator(name)
    return f


def make_grid(ops):
    def make_operator(operator=None, bc=None, backend=None, dtype=None, **kw):
        def op(data, args=None, out=None):
            t = (args or {}).get("t")
            ops.times.append(t)
            x = data.read((0,)) if isinstance(data, NDArr) else data
            v = L(operator, bc)(to_z3(to_real(x)), to_z3(to_real(t)) if t is not None else z3.Real("t_missing"))
            return fresh_array("op", (1,), lambda idx: v)
        return op
    return Instance(None, {"make_operator": make_operator}, name="grid")


CLASSES = {
    "DiffusionPDE": ("pde.pdes.diffusion", {"diffusivity": "real", "bc": "bc"}),
    "AllenCahnPDE": ("pde.pdes.allen_cahn", {"interface_width": "real", "mobility": "real", "bc": "bc"}),
    "CahnHilliardPDE": ("pde.pdes.cahn_hilliard", {"interface_width": "real", "bc_c": "bc", "bc_mu": "bc"}),
    "KPZInterfacePDE": ("pde.pdes.kpz_interface", {"nu": "real", "lmbda": "real", "bc": "bc"}),
    "KuramotoSivashinskyPDE": ("pde.pdes.kuramoto_sivashinsky", {"nu": "real", "bc": "bc", "bc_lap": "bc"}),
    "SwiftHohenbergPDE": ("pde.pdes.swift_hohenberg", {"rate": "real", "kc2": "real", "delta": "real", "bc": "bc", "bc_lap": "bc"}),
}


def class_unit(clsname):
    mod, params = CLASSES[clsname]

    def unit(U):
        def body(it):
            cls = it.load_module(mod).get(clsname)
            attrs = {}
            for k, kind in params.items():
                attrs[k] = z3.Real(k) if kind == "real" else Opaque(k)
            eq = Instance(cls, attrs)
            u, t = z3.Real("u"), z3.Real("t")
            ops_i, ops_c = Ops(), Ops()
            state = mk_field(u, ops_i)
            r1 = it.call(it.getattr(eq, "evolution_rate"), [state, t], {})
            tmpl = Instance(None, {"grid": make_grid(ops_c), "dtype": Opaque("dtype"), "__isinstance__": ("ScalarField",)}, name="state template")
            rhs = it.call(it.getattr(eq, "make_evolution_rate"), [tmpl, Opaque("backend")], {})
            data = fresh_array("state_data", (1,), lambda idx: u)
            r2 = it.call(rhs, [data, t], {})
            return r1, r2, ops_i, ops_c, t

        for p, res in enumerate(explore_paths(U, body)):
            P = prem_of(res.ctx)
            nm = f"{clsname}.path{p}"
            if res.outcome != "return":
                U.prove(f"{nm}.returns_normally", P, z3.BoolVal(False), info={"exc": str(res.exc)})
                continue
            r1, r2, ops_i, ops_c, t = res.value
            v1 = to_z3(to_real(r1.attrs["_val"]))
            v2 = to_z3(to_real(r2.read((0,)))) if isinstance(r2, NDArr) else to_z3(to_real(r2))
            U.prove(f"{nm}.interpreted_rate==compiled_rate_for_arbitrary_(possibly_affine)_operators_and_all_parameters", P, v1 == v2,
                    info={"witness": "operators with inhomogeneous boundary conditions are affine, not linear"})
            U.prove(f"{nm}.time_reaches_every_operator_call_on_both_paths", P,
                    z3.And(*[to_z3(to_real(x)) == t if x is not None else z3.BoolVal(False) for x in ops_i.times + ops_c.times]) if ops_i.times + ops_c.times else z3.BoolVal(False))

    return unit


UNITS = [(c, class_unit(c)) for c in CLASSES]


def bounded(tier, seed):
    from ..runner import native

    res = native("rates.py", {"seed": seed, "n": 1 if tier == "quick" else 6}, timeout=3000)
    if not res.get("ok"):
        raise RuntimeError(f"native driver failed: {res}")
    return [{"name": "interpreted_vs_compiled_vs_expression", "bound": "all 8 equation classes with random parameters and operator-specific (inhomogeneous) BCs on 2 grids: evolution_rate vs make_pde_rhs on numpy/numba vs a generic PDE built from expression(s); expression PDEs with constants, time and coordinate dependence, several fields, bc_ops per variable",
             "cases": res["cases"], "failures": res["failures"]}]


TRUSTED = ["abstract field algebra: one arbitrary cell, operators with BC = uninterpreted maps L<op, bc>(value, t) (C03)"]
ASSUMPTIONS = ["clause (a) only: numpy path = compiled path; the comparison with the advertised expression text is in the bounded check"]
NOT_COVERED = ["equations given as expression strings (PDE._prepare_cache/_compile_rhs_single: sympy + printers + numba): not applicable to contracts, bounded native check only",
               "WavePDE and KleinGordonPDE (collection states) and the expression-text clause: bounded native check only"]
