"""C06 -- time steppers realise their scheme, on every backend (DESIGN.md §4, C06).

State arrays are heap buffers (aliasing of `state_prev[:] = state_data` vs `state = state_data` is
modelled); their content is one arbitrary real cell and the right-hand side is an uninterpreted
F(u, t) -- the steppers use only elementwise operations on the state (checked: any other use is
unsupported syntax), so the single-cell instance with arbitrary F is the general case.
"""

from __future__ import annotations

from fractions import Fraction

import z3

from ..arrays import NDArr, fresh_array, sym_array
from ..interp import LoopSpec
from ..objects import Instance
from ..specs import steppers as S
from ..ctx import mark_definitional
from ..values import Opaque, fresh_name, round_half_even, to_real, to_z3
from .common import explore_paths, prem_of

PROPERTY = "C06"

F = z3.Function("F", z3.RealSort(), z3.RealSort(), z3.RealSort())


def Fz(u, t):
    return F(to_z3(to_real(u)), to_z3(to_real(t)))


class Env:
    """solver object as far as the stepper factories use it"""

    def __init__(self, it, cls_mod, cls_name, extra=None, rate=None):
        self.it = it
        self.calls = []
        self.dt = z3.Real("dt")
        it.ctx.assume(self.dt > 0)
        rate = rate or Fz

        def rhs(arr, t):
            u = arr.read((0,)) if isinstance(arr, NDArr) else arr
            self.calls.append((u, t))
            val = rate(u, t)
            return fresh_array("rhs", (1,), lambda idx: val)

        self.rhs = rhs
        self.steps0 = z3.Int("steps0")
        self.info = {"dt": self.dt, "steps": self.steps0, "post_step_data": None}
        pde = Instance(None, {"is_sde": False, "make_pde_rhs": lambda state, backend=None: rhs}, name="pde")
        backend = Instance(None, {"make_pde_rhs": lambda eq, state: rhs, "name": "numpy",
                                  "make_mpi_synchronizer": lambda **k: (lambda x: x)}, name="backend")
        cls = it.module_attr(it.load_module(cls_mod), cls_name)
        attrs = {"pde": pde, "backend": backend, "info": self.info, "_logger": Opaque("logger"),
                 "_use_post_step_hook": False, "mpi_run": False}
        attrs.update(extra or {})
        self.solver = Instance(cls, attrs)
        it.stub_names["get_array_namespace"] = lambda x: it.stub_modules["numpy"]
        self.state_field = Instance(None, {"data": sym_array("template", (1,))}, name="state")

    def array(self, name):
        return sym_array(name, (1,))


def _single_step_unit(mod, cls, spec, name):
    def unit(U):
        def body(it):
            env = Env(it, mod, cls)
            step = it.call(it.getattr(env.solver, "_make_single_step_fixed_dt"), [env.state_field, env.dt], {})
            u = env.array("u")
            u0 = u.read((0,))
            t = z3.Real("t")
            res = it.call(step, [u, t], {})
            return env, u, u0, t, res

        for p, res in enumerate(explore_paths(U, body)):
            P = prem_of(res.ctx)
            if res.outcome != "return":
                U.prove(f"{name}.path{p}.returns_normally", P, z3.BoolVal(False))
                continue
            env, u, u0, t, out = res.value
            U.prove(f"{name}.path{p}.updates_in_place_and_returns_state", P, z3.BoolVal(isinstance(out, NDArr) and out.buf is u.buf))
            want = spec(to_z3(u0), t, env.dt, Fz)
            U.prove(f"{name}.path{p}.one_step==scheme_with_stage_times", P, to_z3(u.read((0,))) == want)
            U.cover(f"{name}.path{p}.cover", P)

    return unit


def lemma_linear_test_equation(U):
    """(S2) on du/dt = a u, z = a dt: the scheme formulas give R(z) u"""
    a, u, t, dt, al = z3.Real("a"), z3.Real("u"), z3.Real("t"), z3.Real("dt"), z3.Real("alpha")
    z = a * dt
    lin = lambda x, tt: a * x
    U.prove("euler==(1+z)u", [], S.euler(u, t, dt, lin) == (1 + z) * u)
    U.prove("rk4==taylor4(z)u", [], S.rk4(u, t, dt, lin) == (1 + z + z * z / 2 + z * z * z / 6 + z * z * z * z / 24) * u)
    xs = u / (1 - z)
    U.prove("implicit_fixed_point==u/(1-z)", [z != 1], S.implicit_map(xs, u, t, dt, lin) == xs)
    x = z3.Real("x")
    U.prove("implicit_fixed_point_unique", [z != 1, S.implicit_map(x, u, t, dt, lin) == x], x == xs)
    xc = (1 + z / 2) / (1 - z / 2) * u
    U.prove("crank_nicolson_fixed_point==(1+z/2)/(1-z/2)u_for_every_alpha", [z != 2], S.cn_map(xc, u, t, dt, lin, al) == xc)
    U.prove("crank_nicolson_fixed_point_unique", [z != 2, al != 1, S.cn_map(x, u, t, dt, lin, al) == x], x == xc)
    # contraction: the maps are affine with slope z resp. alpha + (1-alpha) z/2
    y = z3.Real("y")
    U.prove("implicit_map_affine_slope_z", [], S.implicit_map(x, u, t, dt, lin) - S.implicit_map(y, u, t, dt, lin) == z * (x - y))
    U.prove("cn_map_affine_slope", [], S.cn_map(x, u, t, dt, lin, al) - S.cn_map(y, u, t, dt, lin, al) == (al + (1 - al) * z / 2) * (x - y))
    # AB2 recursion on the test equation
    up = z3.Real("u_prev")
    U.prove("ab2==u+z(3/2u-1/2u_prev)", [], S.ab2(u, up, t, dt, lin) == u + z * (3 * u / 2 - up / 2))
    U.assume_note("complex rates: every (S2) obligation is a polynomial / rational identity, hence a formal identity valid for complex a as well")


def _iterative_unit(mod, cls, which):
    """implicit Euler / Crank-Nicolson: arbitrary maxiter via the invariant rule.  Post: the returned
    state is T(x) for the state x before the last iteration with (T(x) - x)^2 < maxerror^2; the first
    iterate is the stated predictor; ConvergenceError otherwise."""

    def unit(U):
        def body(it):
            maxiter, maxerror = z3.Int("maxiter"), z3.Real("maxerror")
            alpha = z3.Real("alpha")
            it.ctx.assume(maxiter >= 1)
            env = Env(it, mod, cls, extra={"maxiter": maxiter, "maxerror": maxerror, "explicit_fraction": alpha})
            fn = "_make_single_step_fixed_dt_deterministic" if which == "implicit" else "_make_single_step_fixed_dt"
            step = it.call(it.getattr(env.solver, fn), [env.state_field, env.dt], {})
            u = env.array("u")
            u0 = to_z3(u.read((0,)))
            t = z3.Real("t")
            ghost = {"x_before": None, "first": None}
            qual = step.qualname

            def tmap(x):
                if which == "implicit":
                    return S.implicit_map(x, u0, t, env.dt, Fz)
                return S.cn_map(x, u0, t, env.dt, Fz, alpha)

            def inv(interp, fr, k):
                cur = to_z3(u.read((0,)))
                st = fr.locals.get("state_t")
                c = [to_z3(st.read((0,))) == u0] if isinstance(st, NDArr) else [z3.BoolVal(False)]
                if which != "implicit":
                    rt = fr.locals.get("rate_t")
                    c.append(to_z3(rt.read((0,))) == Fz(u0, t) if isinstance(rt, NDArr) else z3.BoolVal(False))
                # k = 0: the state is the predictor; later: an image of the map
                if ghost["first"] is None:
                    ghost["first"] = cur
                c.append(z3.Implies(k == 0, cur == ghost["first"]))
                return z3.And(*c)

            def havoc(interp, fr):
                x = z3.Real(fresh_name("x"))
                ghost["x_before"] = x
                u.assign(slice(None), x)
                sp = fr.locals.get("state_prev")
                if isinstance(sp, NDArr):
                    sp.assign(slice(None), z3.Real(fresh_name("sp")))

            it.loop_specs[(qual, 1)] = LoopSpec(inv, havoc, f"{which}.iteration")
            out = it.call(step, [u, t], {})
            return env, u, u0, t, out, ghost, tmap, maxerror

        n_ret = n_raise = 0
        for p, res in enumerate(explore_paths(U, body)):
            P = prem_of(res.ctx)
            nm = f"{which}_step.path{p}"
            if res.outcome == "cut":
                continue
            if res.outcome == "raise":
                n_raise += 1
                U.prove(f"{nm}.only_ConvergenceError", P, z3.BoolVal(res.exc.exc_type == "ConvergenceError"))
                continue
            n_ret += 1
            env, u, u0, t, out, ghost, tmap, maxerror = res.value
            cur = to_z3(u.read((0,)))
            x = ghost["x_before"]
            U.prove(f"{nm}.returns_state_in_place", P, z3.BoolVal(isinstance(out, NDArr) and out.buf is u.buf))
            U.prove(f"{nm}.result==T(x)_of_last_iterate", P, cur == tmap(x))
            U.prove(f"{nm}.converged:(T(x)-x)^2<maxerror^2", P, (cur - x) * (cur - x) < maxerror * maxerror)
            if which == "implicit":
                pred = S.implicit_predictor(u0, t, env.dt, Fz)
            else:
                pred = tmap(u0)
            U.prove(f"{nm}.first_iterate_is_predictor", P, ghost["first"] == pred)
            U.cover(f"{nm}.cover", P)
        U.prove(f"{which}_step.has_return_and_error_paths", [], z3.BoolVal(n_ret >= 1 and n_raise >= 1))
        U.assume_note("'iterations converged' = the returned state is T(x) with mean-square increment below maxerror^2; with the affine-map lemma this bounds the distance to the fixed point by |s|/|1-s| * maxerror")
        U.assume_note("termination of the fixed-point iteration is not proved (liveness)")

    return unit


# ------------------------------------------------------------------ (S3) loops
STEP = z3.Function("step", z3.RealSort(), z3.RealSort(), z3.RealSort())  # one-step map (u, t) -> u'
IT = z3.Function("iterate", z3.IntSort(), z3.RealSort())  # ghost: state after i steps


def _fixed_loop_unit(which):
    """fixed_stepper (python, solvers/base.py) and fixed_stepper + compiled_stepper (numba re-implementation):
    exactly steps = max(1, round((t_end - t_start)/dt)) calls of the one-step map at times t_start + i dt"""

    def unit(U):
        def body(it):
            ctx = it.ctx
            env = Env(it, "pde.solvers.base", "SolverBase")
            t0, t1 = z3.Real("t_start"), z3.Real("t_end")
            u = env.array("u")
            u0 = to_z3(u.read((0,)))
            i_ = z3.Int("i_")
            # ghost recursion: iterate(0) = u0 ; iterate(i+1) = step(iterate(i), t_start + i dt)
            rec = z3.ForAll([i_], z3.Implies(i_ >= 0, IT(i_ + 1) == STEP(IT(i_), t0 + z3.ToReal(i_) * env.dt)))
            ctx.assume(IT(0) == u0)
            ctx.assume(mark_definitional(rec))
            times = []

            def single_step(arr, t):
                v = arr.read((0,))
                times.append(t)
                arr.assign(slice(None), STEP(to_z3(to_real(v)), to_z3(to_real(t))))
                return arr

            env.solver.attrs["_make_single_step_fixed_dt"] = lambda state, dt: single_step

            def inv(interp, fr, k):
                c = [to_z3(u.read((0,))) == IT(k), to_z3(env.info["post_step_data"] is None)]
                st = fr.locals.get("state", fr.locals.get("state_data"))
                c.append(z3.BoolVal(isinstance(st, NDArr) and st.buf is u.buf))
                tl = fr.locals.get("t")
                if tl is not None and not isinstance(tl, type(None)):
                    try:
                        c.append(z3.Implies(k >= 1, to_z3(tl) == t0 + z3.ToReal(k - 1) * env.dt))
                    except Exception:
                        c.append(z3.BoolVal(False))
                return z3.And(*c)

            def havoc(interp, fr):
                u.assign(slice(None), z3.Real(fresh_name("state")))
                fr.locals["t"] = z3.Real(fresh_name("t"))

            if which == "python":
                stepper = it.call(it.get_function("pde.solvers.base", "SolverBase._make_inner_stepper"), [env.solver, env.state_field], {})
                it.loop_specs[("SolverBase._make_inner_stepper.fixed_stepper", 1)] = LoopSpec(inv, havoc, "fixed_stepper.loop")
            else:
                it.stub_names["_make_post_step_hook"] = None
                del it.stub_names["_make_post_step_hook"]
                stepper = it.call(it.get_function("pde.backends.numba._solvers", "_make_fixed_stepper"), [env.solver, env.state_field], {})
                it.loop_specs[("_make_fixed_stepper.compiled_stepper", 1)] = LoopSpec(inv, havoc, "compiled_stepper.loop")
            r = it.call(stepper, [u, t0, t1], {})
            return env, u, t0, t1, r

        for p, res in enumerate(explore_paths(U, body)):
            P = prem_of(res.ctx)
            nm = f"fixed_stepper[{which}].path{p}"
            if res.outcome == "cut":
                continue
            if res.outcome != "return":
                U.prove(f"{nm}.returns_normally", P, z3.BoolVal(False), info={"exc": str(res.exc)})
                continue
            env, u, t0, t1, r = res.value
            q = round_half_even((t1 - t0) / env.dt)
            steps = z3.If(q >= 1, q, z3.IntVal(1))
            U.prove(f"{nm}.state==steps_applications_of_the_step_map_at_t_start+i*dt", P, to_z3(u.read((0,))) == IT(steps))
            U.prove(f"{nm}.returns_t_start+steps*dt", P, to_z3(r) == t0 + z3.ToReal(steps) * env.dt)
            U.prove(f"{nm}.info_steps_incremented_by_steps", P, to_z3(env.info["steps"]) == env.steps0 + steps)
            U.cover(f"{nm}.cover", P)

    return unit


def _ab_unit(which):
    """Adams-Bashforth: two-term recursion with the history kept across calls"""
    A = z3.Function("ab_state", z3.IntSort(), z3.RealSort())

    def unit(U):
        for first_call in (True, False):
            def body(it, first_call=first_call):
                ctx = it.ctx
                env = Env(it, "pde.solvers.adams_bashforth", "AdamsBashforthSolver")
                t0, t1 = z3.Real("t_start"), z3.Real("t_end")
                u = env.array("u")
                u0 = to_z3(u.read((0,)))
                i_ = z3.Int("i_")
                prev0 = z3.Real("u_minus_1")
                ctx.assume(A(0) == u0)
                ctx.assume(A(-1) == (S.ab2_start(u0, t0, env.dt, Fz) if first_call else prev0))
                ctx.assume(mark_definitional(z3.ForAll([i_], z3.Implies(i_ >= 0, A(i_ + 1) == S.ab2(A(i_), A(i_ - 1), t0 + z3.ToReal(i_) * env.dt, env.dt, Fz)))))
                if which == "python":
                    stepper = it.call(it.getattr(env.solver, "_make_inner_stepper"), [env.state_field], {})
                    qual, loopq = "AdamsBashforthSolver._make_inner_stepper", "AdamsBashforthSolver._make_inner_stepper.fixed_stepper"
                else:
                    stepper = it.call(it.get_function("pde.backends.numba._solvers", "_make_adams_bashforth_stepper"), [env.solver, env.state_field], {})
                    qual, loopq = "_make_adams_bashforth_stepper", "_make_adams_bashforth_stepper.compiled_stepper"
                factory_frame = stepper.env
                sp = factory_frame.locals.get("state_prev")
                if not isinstance(sp, NDArr):
                    from ..values import Unsupported
                    raise Unsupported("Adams-Bashforth factory no longer keeps its history in a closure array `state_prev`")
                if not first_call:
                    factory_frame.locals["init_state_prev"] = False
                    sp.assign(slice(None), prev0)

                def inv(interp, fr, k):
                    c = [to_z3(u.read((0,))) == A(k), to_z3(sp.read((0,))) == A(k - 1)]
                    st = fr.locals.get("state_data")
                    c.append(z3.BoolVal(isinstance(st, NDArr) and st.buf is u.buf))
                    spl = fr.locals.get("state_prev", sp)
                    c.append(z3.BoolVal(isinstance(spl, NDArr) and spl.buf is sp.buf))
                    tl = fr.locals.get("t")
                    if tl is not None:
                        c.append(z3.Implies(k >= 1, to_z3(tl) == t0 + z3.ToReal(k - 1) * env.dt))
                    return z3.And(*c)

                def havoc(interp, fr):
                    u.assign(slice(None), z3.Real(fresh_name("state")))
                    sp.assign(slice(None), z3.Real(fresh_name("prev")))
                    fr.locals["t"] = z3.Real(fresh_name("t"))

                it.loop_specs[(loopq, 1)] = LoopSpec(inv, havoc, "ab.loop")
                r = it.call(stepper, [u, t0, t1], {})
                return env, u, t0, t1, r, sp, factory_frame

            for p, res in enumerate(explore_paths(U, body)):
                P = prem_of(res.ctx)
                nm = f"adams_bashforth[{which},{'first' if first_call else 'later'}_call].path{p}"
                if res.outcome == "cut":
                    continue
                if res.outcome != "return":
                    U.prove(f"{nm}.returns_normally", P, z3.BoolVal(False), info={"exc": str(res.exc)})
                    continue
                env, u, t0, t1, r, sp, ff = res.value
                q = round_half_even((t1 - t0) / env.dt)
                steps = z3.If(q >= 1, q, z3.IntVal(1))
                U.prove(f"{nm}.state==two_step_recursion", P, to_z3(u.read((0,))) == A(steps))
                U.prove(f"{nm}.history_holds_previous_state", P, to_z3(sp.read((0,))) == A(steps - 1))
                U.prove(f"{nm}.history_flag_cleared_for_later_calls", P, z3.BoolVal(ff.locals.get("init_state_prev", "missing") is False))
                U.prove(f"{nm}.history_buffer_kept_across_calls", P, z3.BoolVal(isinstance(ff.locals.get("state_prev"), NDArr) and ff.locals["state_prev"].buf is sp.buf))
                U.prove(f"{nm}.returns_t_start+steps*dt", P, to_z3(r) == t0 + z3.ToReal(steps) * env.dt)
                U.prove(f"{nm}.info_steps", P, to_z3(env.info["steps"]) == env.steps0 + steps)
                U.cover(f"{nm}.cover", P)

    return unit


from . import C06_adaptive

UNITS = [
    ("euler.single_step", _single_step_unit("pde.solvers.euler", "EulerSolver", S.euler, "euler")),
    ("runge_kutta.single_step", _single_step_unit("pde.solvers.runge_kutta", "RungeKuttaSolver", S.rk4, "rk4")),
    ("implicit.implicit_step", _iterative_unit("pde.solvers.implicit", "ImplicitSolver", "implicit")),
    ("crank_nicolson.step", _iterative_unit("pde.solvers.crank_nicolson", "CrankNicolsonSolver", "crank_nicolson")),
    ("lemma.linear_test_equation", lemma_linear_test_equation),
    ("base.fixed_stepper", _fixed_loop_unit("python")),
    ("numba.fixed_stepper", _fixed_loop_unit("numba")),
    ("adams_bashforth.python", _ab_unit("python")),
    ("adams_bashforth.numba", _ab_unit("numba")),
] + C06_adaptive.UNITS


def replay(o):
    """refuted obligations are universally quantified over states, step sizes and right-hand sides: the
    native driver exercises the same steppers (fixed and adaptive, autonomous and time dependent, both
    backends); a native failure of the matching family is the replayed violation"""
    from ..runner import native

    res = native("steppers.py", {"seed": 1, "reps": 2}, timeout=3000)
    if not res.get("ok"):
        return {"reproduced": None, "error": res}
    adaptive = "adaptive" in o["name"]
    hits = [f for f in res["failures"] if f["id"].startswith("adaptive") == adaptive] or res["failures"]
    if hits:
        return {"reproduced": True, "native": hits[0]}
    return {"reproduced": False, "note": "the native solver runs matched the schemes"}


def bounded(tier, seed):
    """bounded stand-in (NOT counted as proved): eq.solve with every fixed-step solver on both backends on
    du/dt = a*u + b*t (real and complex a), with and without an interrupting tracker"""
    from ..runner import native

    reps = 2 if tier == "quick" else 12
    res = native("steppers.py", {"seed": seed, "reps": reps}, timeout=3000)
    if not res.get("ok"):
        raise RuntimeError(f"native driver failed: {res}")
    return [{"name": "solvers_vs_amplification_factor", "bound": f"5 solvers x 2 backends x {reps} random (a, b, dt, steps, t_start, state) instances on UnitGrid([3]); adaptive euler / runge-kutta on both backends: t_final = t_end and global error <= accepted steps x tolerance (autonomous and time-dependent right-hand sides), RKF45 evaluation times and exact quadrature of cubics; adaptive Euler: stage time of the reused rate (two accepted steps on du/dt = b t, both backends); implicit / Crank-Nicolson on multi-axis states with vanishing leading entries (2-d scalar, vector, collection)",
             "cases": res["cases"], "failures": res["failures"]}]


TRUSTED = [
    "pdv/specs/steppers.py: defining updates of the schemes (Euler, RK4 Butcher form with stage times, AB2 recursion, backward-Euler and Crank-Nicolson fixed-point maps)",
    "state arrays modelled as one-cell heap buffers with uninterpreted rhs F(u, t); generalisation to N cells by elementwise genericity of the stepper code",
    "ghost recursion functions (iterate, ab_state) are conservative definitions",
]
ASSUMPTIONS = [
    "termination of the implicit fixed-point iterations (liveness) is not proved; 'converged' means the last increment is below maxerror",
    "default post-step hook (identity); a PDE-provided hook is an arbitrary function outside the scheme",
    "numba executes the compiled loop with CPython semantics (same loop contract proved for the python and numba re-implementations)",
]
NOT_COVERED = [
    "adaptive stepping: the analytic closure of the global error bound (comparison of R(z) with e^z) is not proved -- the algebraic half is (every accepted step has estimate <= tolerance, estimators equal their defining formulas, RKF45 tableau order conditions); NaN / exception arms of the loops are outside the real-number model; termination is not proved",
    "solvers/scipy.py (wrapper around solve_ivp, external integrator)",
    "explicit_mpi solver",
]
