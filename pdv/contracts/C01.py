"""C01 -- differential operators are second-order consistent stencils (DESIGN.md §4, C01).

(K) every registered numba kernel equals, for all shapes / spacings / contents and every valid cell,
    the stencil obtained from the continuum symbol table by the documented discretisation rule
    (pdv/specs/operators.py), written to exactly the valid cells of `out`, reading only in-bounds cells,
    with independent iterations (schedule independence of the prange kernels);
(L) the discretisation rule is consistent of the stated order (moment lemmas on the difference
    quotients; rational-function inequalities for the conservative spherical flux forms).
"""

from __future__ import annotations

import ast
import itertools
from fractions import Fraction

import z3

from .. import REPO
from ..arrays import sym_array
from ..specs import operators as S
from ..values import Unsupported, to_z3
from .common import CONFIG_DEFAULTS, GRID_CLASS, OP_MODULE, CellGeom, SymGrid, make_backend_stub

PROPERTY = "C01"

METHODS = ["central", "forward", "backward"]

# options each registered factory accepts (enumerated configurations); derived from the factories'
# signatures -- a signature that changes makes the unit fail with a TypeError (= UNDECIDED), not pass
OPTIONS = {
    ("cartesian", "laplace"): [{}],
    ("cartesian", "gradient"): [{"method": m} for m in METHODS],
    ("cartesian", "gradient_squared"): [{"central": c} for c in (True, False)],
    ("cartesian", "divergence"): [{"method": m} for m in METHODS],
    ("cartesian", "vector_gradient"): [{"method": m} for m in METHODS],
    ("cartesian", "vector_laplace"): [{}],
    ("cartesian", "tensor_divergence"): [{"method": m} for m in METHODS],
    ("polar", "laplace"): [{}],
    ("polar", "gradient"): [{"method": m} for m in METHODS],
    ("polar", "gradient_squared"): [{"central": c} for c in (True, False)],
    ("polar", "divergence"): [{}],
    ("polar", "vector_gradient"): [{}],
    ("polar", "tensor_divergence"): [{}],
    ("cylindrical", "laplace"): [{}],
    ("cylindrical", "gradient"): [{}],
    ("cylindrical", "gradient_squared"): [{"central": c} for c in (True, False)],
    ("cylindrical", "divergence"): [{}],
    ("cylindrical", "vector_gradient"): [{}],
    ("cylindrical", "vector_laplace"): [{}],
    ("cylindrical", "tensor_divergence"): [{}],
    ("spherical", "laplace"): [{"conservative": c} for c in (True, False)],
    ("spherical", "gradient"): [{"method": m} for m in METHODS],
    ("spherical", "gradient_squared"): [{"central": c} for c in (True, False)],
    ("spherical", "divergence"): [{"conservative": c, "method": m, "safe": s} for c in (True, False) for m in METHODS for s in (True, False)],
    ("spherical", "vector_gradient"): [{"method": m, "safe": s} for m in METHODS for s in (True, False)],
    ("spherical", "tensor_divergence"): [{"conservative": c, "safe": s} for c in (True, False) for s in (True, False)],
    ("spherical", "tensor_double_divergence"): [{"conservative": c, "safe": s} for c in (True, False) for s in (True, False)],
}
RANKS = {
    "laplace": (0, 0), "gradient": (0, 1), "gradient_squared": (0, 0), "divergence": (1, 0),
    "vector_gradient": (1, 2), "vector_laplace": (1, 1), "tensor_divergence": (2, 1), "tensor_double_divergence": (2, 0),
}


def _optstr(o):
    return ",".join(f"{k}={v}" for k, v in sorted(o.items())) or "default"


def symbolic_kernel(it, kind, dim, op, opts):
    """run the real factory and the kernel it returns on a symbolic grid / arrays; returns (grid, arr, out)"""
    num_axes = dim if kind == "cartesian" else S.grid_layout(kind)[0]
    ncomp = dim if kind == "cartesian" else S.grid_layout(kind)[1]
    it.overrides["config"] = dict(CONFIG_DEFAULTS)
    g = SymGrid(kind, num_axes)
    for f in g.facts:
        it.ctx.assume(f)
    factory = it.get_function(OP_MODULE[kind], f"make_{op}")
    backend = make_backend_stub()
    it.stub_names["get_backend"] = lambda *a, **k: backend
    kernel = it.call(factory, [g.instance()], dict(opts, backend=backend))
    r_in, r_out = RANKS[op]
    arr = sym_array("arr", (ncomp,) * r_in + tuple(n + 2 for n in g.N))
    out = sym_array("out", (ncomp,) * r_out + tuple(g.N))
    it.call(kernel, [arr, out], {})
    return g, arr, out


def kernel_unit(kind, dim, op, opts):
    num_axes = dim if kind == "cartesian" else S.grid_layout(kind)[0]
    ncomp = dim if kind == "cartesian" else S.grid_layout(kind)[1]

    def unit(U):
        it = U.interp()
        g, arr, out = symbolic_kernel(it, kind, dim, op, opts)
        r_in, r_out = RANKS[op]
        U.absorb(it)
        # ---- postcondition at an arbitrary valid cell
        idx = [z3.Int(f"i{a}") for a in range(num_axes)]
        prem = list(it.ctx.assumptions) + list(it.ctx.pc)
        for a in range(num_axes):
            prem += [idx[a] >= 0, idx[a] < g.N[a]]
        prem += g.cell_facts(idx)
        geom = CellGeom(g.h, r=g.coord(0, idx[0]) if kind != "cartesian" else None)

        def u(comp, off):
            return arr.read(tuple(comp) + tuple(idx[a] + 1 + off[a] for a in range(num_axes)))

        spec = S.operator_spec(kind, op, u, geom, dim=dim, method=opts.get("method", "central"),
                               central=opts.get("central", True), conservative=opts.get("conservative", False))
        comps = list(itertools.product(range(ncomp), repeat=r_out))
        assert set(spec) == set(comps), (sorted(spec), comps)
        replay = dict(kind=kind, dim=dim, op=op, opts=opts)
        for c in comps:
            got = out.read(tuple(c) + tuple(idx))
            want = spec[c]
            want = to_z3(Fraction(want)) if not isinstance(want, z3.ExprRef) else want
            U.prove(f"out{list(c)}==stencil", prem, to_z3(got) == want,
                    info={"kind": "K", "replay_payload": replay, "comp": list(c), "replay": _small_instance(prem, to_z3(got) == want, g, arr)})
        # ---- the precondition is satisfiable and a perturbed specification is refutable
        U.cover("pre.cover", prem)
        c0 = comps[0]
        got = to_z3(out.read(tuple(c0) + tuple(idx)))
        want = spec[c0]
        want = to_z3(Fraction(want)) if not isinstance(want, z3.ExprRef) else want
        some = u((0,) * r_in, (0,) * num_axes)
        concrete_geom = [hh == 1 for hh in g.h] + ([g.coord(0, idx[0]) == 2] if kind != "cartesian" else [])
        U.cover("canary.spec_perturbed", prem + concrete_geom, got != want + to_z3(some) * g.h[0])
        U.assume_note("`arr` and `out` do not overlap in memory (out is allocated by the caller wrappers, C03)")

    return unit


def _small_instance(prem, claim, g, arr):
    """replay recipe built next to the obligation: when it is refuted, re-solve with at most 4 cells per axis and cell
    centres of a real grid (lo + (k + 1/2) h), and hand grid and padded array of that counter-model to the native
    driver, which runs the real operator on exactly this input"""
    def build(_model):
        from fractions import Fraction as Q

        s = z3.Solver()
        s.set("timeout", 4000)
        for p_ in prem:
            s.add(p_)
        s.add(z3.Not(claim))
        for a in range(g.num_axes):
            s.add(g.N[a] <= 4, g.h[a] <= 3, g.h[a] >= Q(1, 4), g.lo[a] >= -3, g.lo[a] <= 3)
            for k in range(-1, 6):
                s.add(g.coord(a, k) == g.lo[a] + (Q(2 * k + 1, 2)) * g.h[a])
        if s.check() != z3.sat:
            return None
        m = s.model()

        def num(t):
            v = m.eval(to_z3(t), model_completion=True)
            return float(v.numerator_as_long()) / float(v.denominator_as_long()) if z3.is_rational_value(v) else None

        shape = [m.eval(n, model_completion=True).as_long() for n in g.N]
        full = [concrete_int(d, g, shape) for d in arr.shape]
        vals = {}
        for idx in itertools.product(*[range(d) for d in full]):
            vals[idx] = num(arr.read(idx))
            if vals[idx] is None or abs(vals[idx]) > 1e6:
                return None
        return {"shape": shape, "h": [num(x) for x in g.h], "lo": [num(x) for x in g.lo], "arr": _nested(vals, full)}

    return build


def derivative_unit(num_axes, axis, method, second):
    def unit(U):
        it = U.interp()
        g = SymGrid("cartesian", num_axes)
        for f in g.facts:
            it.ctx.assume(f)
        name = "make_derivative2" if second else "make_derivative"
        factory = it.get_function("pde.backends.numba.operators.common", name)
        kw = {} if second else {"method": method}
        kernel = it.call(factory, [g.instance(), axis], kw)
        arr = sym_array("arr", tuple(n + 2 for n in g.N))
        out = sym_array("out", tuple(g.N))
        it.call(kernel, [arr, out], {})
        U.absorb(it)
        idx = [z3.Int(f"i{a}") for a in range(num_axes)]
        prem = list(it.ctx.assumptions) + list(it.ctx.pc)
        for a in range(num_axes):
            prem += [idx[a] >= 0, idx[a] < g.N[a]]
        geom = CellGeom(g.h)

        def u(comp, off):
            return arr.read(tuple(idx[a] + 1 + off[a] for a in range(num_axes)))

        want = S.diff2(u, (), axis, geom) if second else S.diff1(u, (), axis, geom, method)
        U.prove("out==difference_quotient", prem, to_z3(out.read(tuple(idx))) == want,
                info={"kind": "K", "replay_payload": dict(kind="derivative", num_axes=num_axes, axis=axis, method=method, second=second)})
        U.cover("pre.cover", prem)
        U.cover("canary.spec_perturbed", prem, to_z3(out.read(tuple(idx))) != want + u((), (0,) * num_axes))

    return unit


# ------------------------------------------------------------------ lemma (L): consistency of the rule
def lemma_difference_quotients(U):
    """moments of the difference quotients: for the local monomials p_k(x) = x^k/k! (k = 0..4)
    D_central p = (0,1,0,h^2/6,0), D_forward p = (0,1,h/2,h^2/6,..), D2 p = (0,0,1,0,h^2/12);
    i.e. central/second differences are exact on polynomials of degree <= 2 with O(h^2) remainder
    coefficients, one-sided ones exact on degree <= 1 with an O(h) remainder coefficient."""
    h = z3.Real("h")
    prem = [h > 0]

    def mono(k):
        fact = [1, 1, 2, 6, 24][k]
        return lambda x: (x**k if k else x * 0 + 1) / fact if k else z3.RealVal(1)

    def sample(k, off):
        x = off * h
        fact = [1, 1, 2, 6, 24][k]
        v = z3.RealVal(1)
        for _ in range(k):
            v = v * x
        return v / fact

    g = CellGeom([h])
    expected = {
        "central": [0, 1, 0, h * h / 6, 0],
        "forward": [0, 1, h / 2, h * h / 6, h * h * h / 24],
        "backward": [0, 1, -h / 2, h * h / 6, -h * h * h / 24],
        "second": [0, 0, 1, 0, h * h / 12],
    }
    for name, exp in expected.items():
        for k in range(5):
            u = lambda comp, off, k=k: sample(k, off[0])
            val = S.diff2(u, (), 0, g) if name == "second" else S.diff1(u, (), 0, g, name)
            U.prove(f"moment[{name}][x^{k}/{k}!]", prem, val == to_z3(exp[k]) if isinstance(exp[k], z3.ExprRef) else val == z3.RealVal(exp[k]))
    # absolute fourth/third moments bound the Taylor remainder:  sum |c_k| |k h|^p / p!
    U.prove("remainder[central]", prem, (1 / (2 * h)) * 2 * (h * h * h) / 6 == h * h / 6)
    U.prove("remainder[second]", prem, (1 / (h * h)) * 2 * (h * h * h * h) / 24 == h * h / 12)
    U.assume_note("Taylor's theorem with Lagrange remainder turns the moment identities into the error statement for smooth fields")


def lemma_spherical_conservative(U):
    """flux-form operators on spherical shells are consistent with the continuum symbols: for the local
    monomials p_k = (x - r)^k / k!, |stencil(p_k) - symbol(p_k)| <= C h^2 / r^(order-k+2) for r >= h
    (and the sharper r >= h/2 form with the explicit 1/r dependence)."""
    h, r = z3.Real("h"), z3.Real("r")
    g = CellGeom([h], r=r)
    fact = [1, 1, 2, 6, 24]

    def sample(k, off):
        x = off * h
        v = z3.RealVal(1)
        for _ in range(k):
            v = v * x
        return v / fact[k]

    def absle(x, bound):
        return z3.And(x <= bound, -x <= bound)

    def rpow(n):
        v = z3.RealVal(1)
        for _ in range(n):
            v = v * r
        return v

    for r_rel, tag, C in ((1, "r>=h", 4), (Fraction(1, 2), "r>=h/2", 40)):
        prem = [h > 0, r >= r_rel * h]
        cases = [("laplace", (), 2), ("divergence", (0,), 1), ("tensor_divergence", (0, 0), 1), ("tensor_divergence", (2, 2), 1),
                 ("tensor_double_divergence", (0, 0), 2), ("tensor_double_divergence", (2, 2), 2)]
        for op, ic, order in cases:
            table = S.symbols("spherical", op)
            oc = sorted(table)[0]
            for k in range(4):
                def u(comp, off, k=k, ic=ic):
                    return sample(k, off[0]) if tuple(comp) == tuple(ic) else z3.RealVal(0)
                sten = S.spherical_conservative(op, u, g, "central")[oc]
                # continuum symbol applied to p_k at the cell centre: only the term with derivative order k survives
                sym = z3.RealVal(0)
                for coef, comp, (kind, a) in table[oc]:
                    if tuple(comp) != tuple(ic):
                        continue
                    dord = {"v": 0, "d": 1, "d2": 2}[kind]
                    if dord == k:
                        sym = sym + coef(g)
                # dimension of the error: length^(k-order); bound C h^2 / r^(2+order-k)
                p = 2 + order - k
                bound = C * h * h / rpow(p) if p >= 0 else C * h * h * rpow(-p)
                U.prove(f"consistency[{tag}][{op}][in={list(ic)}][x^{k}/{k}!]", prem, absle(sten - sym, bound))
    U.assume_note("uniform O(h^2) up to the axis uses the parity of smooth spherically symmetric fields at r=0 (analysis, not proved)")


# ------------------------------------------------------------------ operator names d_d<axis>[_method], d2_d<axis>2
def name_parsing_unit(axes):
    """NumbaBackend.get_operator_info for the derivative name patterns: the factory it returns is make_derivative /
    make_derivative2 (contracts above) for the axis whose NAME appears in the operator name and the method the suffix
    names; registered names are answered by the registry, unknown names raise NotImplementedError"""
    def unit(U):
        from ..ctx import PyRaise
        from ..objects import Instance
        from .common import explore_paths, prem_of

        cases = []
        for k, ax in enumerate(axes):
            cases += [(f"d_d{ax}", "make_derivative", k, "central"), (f"d_d{ax}_forward", "make_derivative", k, "forward"),
                      (f"d_d{ax}_backward", "make_derivative", k, "backward"), (f"d_d{ax}_central", "make_derivative", k, "central"), (f"d2_d{ax}2", "make_derivative2", k, None)]

        def body(it):
            cls = it.module_attr(it.load_module("pde.backends.numba.backend"), "NumbaBackend")
            be = Instance(cls, {"name": "numba"})
            grid = Instance(None, {"axes": list(axes)}, name="grid")
            registered = Instance(None, {"__operator_info__": True}, name="registered OperatorInfo")

            def base_info(interp, args, kw):
                if args[2] == "laplace":
                    return registered
                raise PyRaise("NotImplementedError", ("not registered",))

            it.contracts[("pde.backends.base", "BackendBase.get_operator_info")] = base_info
            it.contracts[("pde.backends.numba.backend", "NumbaBackend.get_registered_operators")] = lambda interp, args, kw: set()
            calls = []
            it.contracts[("pde.backends.numba.operators.common", "make_derivative")] = lambda interp, args, kw: calls.append(("make_derivative", args, kw)) or "kernel"
            it.contracts[("pde.backends.numba.operators.common", "make_derivative2")] = lambda interp, args, kw: calls.append(("make_derivative2", args, kw)) or "kernel"
            it.overrides["OperatorInfo"] = _operator_info_tag()
            out = []
            for name, *_ in cases:
                info = it.call(it.getattr(be, "get_operator_info"), [grid, name], {})
                n0 = len(calls)
                it.call(info.attrs["factory"], [grid], {})
                out.append((info, calls[n0:]))
            reg = it.call(it.getattr(be, "get_operator_info"), [grid, "laplace"], {})
            try:
                it.call(it.getattr(be, "get_operator_info"), [grid, "d_dq_sideways"], {})
                unknown = "returned"
            except PyRaise as e:
                unknown = e.exc_type
            return out, reg, registered, unknown, grid

        for p, res in enumerate(explore_paths(U, body)):
            P = prem_of(res.ctx)
            if res.outcome != "return":
                U.prove(f"path{p}.returns_normally", P, z3.BoolVal(False), info={"exc": str(res.exc)})
                continue
            out, reg, registered, unknown, grid = res.value
            for (name, fn, k, method), (info, calls) in zip(cases, out):
                ok = len(calls) == 1 and calls[0][0] == fn and calls[0][1][0] is grid and calls[0][2].get("axis", calls[0][1][1] if len(calls[0][1]) > 1 else None) == k
                if method is not None:
                    ok = ok and calls[0][2].get("method") == method
                ok = ok and info.attrs.get("rank_in") == 0 and info.attrs.get("rank_out") == 0
                U.prove(f"path{p}.'{name}'=={fn}(axis={k}{'' if method is None else ',' + method})", P, z3.BoolVal(bool(ok)), info={"calls": repr(calls)[:200]})
            U.prove(f"path{p}.registered_names_are_answered_by_the_registry", P, z3.BoolVal(reg is registered))
            U.prove(f"path{p}.unknown_names_raise_NotImplementedError", P, z3.BoolVal(unknown in ("NotImplementedError", "ValueError")))

    return unit


def _operator_info_tag():
    """OperatorInfo is a NamedTuple (factory, rank_in, rank_out, name): a plain record; isinstance is membership"""
    from ..builtins_model import TypeTag
    from ..objects import Instance

    def make(factory=None, rank_in=None, rank_out=None, name="", **kw):
        return Instance(None, {"factory": factory, "rank_in": rank_in, "rank_out": rank_out, "name": name, "__operator_info__": True, **kw}, name="OperatorInfo")

    class Tag(TypeTag):
        def check(self, obj):
            return isinstance(obj, Instance) and bool(obj.attrs.get("__operator_info__"))

    return Tag("OperatorInfo", make)


# ------------------------------------------------------------------ registration coverage
def registered_operators():
    """(kind, op) pairs registered with @NumbaBackend.register_operator in the four operator files"""
    found = []
    inv = {v: k for k, v in GRID_CLASS.items()}
    for kind, mod in OP_MODULE.items():
        path = f"{REPO}/{mod.replace('.', '/')}.py"
        tree = ast.parse(open(path).read())
        for node in tree.body:
            if isinstance(node, ast.FunctionDef):
                for d in node.decorator_list:
                    if isinstance(d, ast.Call) and ast.unparse(d.func).endswith("register_operator"):
                        gcls = ast.unparse(d.args[0])
                        name = d.args[1].value
                        found.append((inv.get(gcls, gcls), name, node.name))
    return found


def coverage_unit(U):
    regs = registered_operators()
    missing = [(k, n) for k, n, f in regs if (k, n) not in OPTIONS]
    wrong_name = [(k, n, f) for k, n, f in regs if f != f"make_{n}"]
    U.prove("every_registered_operator_has_a_contract", [], z3.BoolVal(not missing and not wrong_name),
            info={"missing": missing, "wrong_name": wrong_name, "registered": len(regs)})
    gone = [key for key in OPTIONS if key not in {(k, n) for k, n, _ in regs}]
    U.prove("every_contract_has_a_registered_operator", [], z3.BoolVal(not gone), info={"gone": gone})


def _units():
    units = []
    for (kind, op), optlist in OPTIONS.items():
        dims = (1, 2, 3) if kind == "cartesian" else (None,)
        for dim in dims:
            for opts in optlist:
                nm = f"{kind}{dim or ''}.{op}[{_optstr(opts)}]"
                units.append((nm, kernel_unit(kind, dim, op, opts)))
    for n in (1, 2, 3):
        for ax in range(n):
            for m in METHODS:
                units.append((f"common.make_derivative[axes={n},axis={ax},{m}]", derivative_unit(n, ax, m, False)))
            units.append((f"common.make_derivative2[axes={n},axis={ax}]", derivative_unit(n, ax, None, True)))
    from . import nine_point
    units.extend(nine_point.units_C01())
    for axes in (("x",), ("x", "y", "z"), ("r", "z")):
        units.append((f"operator_names[axes={','.join(axes)}]", name_parsing_unit(axes)))
    units.append(("lemma.difference_quotients", lemma_difference_quotients))
    units.append(("lemma.spherical_conservative", lemma_spherical_conservative))
    units.append(("coverage.registered_operators", coverage_unit))
    return units


UNITS = _units()


# ------------------------------------------------------------------ replay and bounded stand-in (native)
def replay(o):
    """replay a refuted kernel obligation against the real operator: same configuration, concrete random
    grids / contents (the obligation is universally quantified, so any input exposing it will do)"""
    from ..runner import native

    cfg = (o.get("info") or {}).get("replay_payload")
    if not cfg or cfg.get("kind") == "derivative":
        return {"reproduced": None, "note": "no native replay recipe for this obligation"}
    inst = o.get("replay")
    if isinstance(inst, dict) and "arr" in inst:
        res = native("ops.py", {"configs": [cfg], "instance": inst})
        if res.get("ok") and res["failures"]:
            return {"reproduced": True, "native": res["failures"][0], "input": "grid and padded array of the solver's counter-model (re-solved with <= 4 cells per axis)"}
    res = native("ops.py", {"configs": [cfg], "grids_per_config": 6, "seed": 1})
    if not res.get("ok"):
        return {"reproduced": None, "error": res}
    if res["failures"]:
        return {"reproduced": True, "native": res["failures"][0]}
    return {"reproduced": False, "engine_disagrees": False, "note": "native run matched the specification on 6 random grids"}


def engine_crosscheck(tier, seed):
    """validation of the trusted base (NOT a proof): for every kernel configuration the symbolic result of the
    pdv interpreter, evaluated at a concrete random grid and array, is compared cell by cell with the output of
    the same real factory run under CPython (numba JIT disabled) on the same inputs"""
    import random
    from fractions import Fraction as Q

    from ..ctx import Ctx
    from ..interp import Interp
    from ..runner import native

    rnd = random.Random(1000 + seed)
    configs = []
    for (kind, op), optlist in OPTIONS.items():
        dims = (1, 2, 3) if kind == "cartesian" else (None,)
        for dim in dims:
            for opts in optlist:
                if opts.get("safe"):
                    continue  # `safe` adds symmetry asserts on the input (a precondition random arrays do not meet)
                configs.append((kind, dim, op, opts))
    if tier == "quick":
        configs = rnd.sample(configs, 24)
    cases, engine = [], {}
    for n, (kind, dim, op, opts) in enumerate(configs):
        it = Interp(Ctx())
        try:
            g, arr, out = symbolic_kernel(it, kind, dim, op, opts)
        except Unsupported as e:
            engine[n] = {"error": f"unsupported: {e}"}
            continue
        num_axes = g.num_axes
        shape = [rnd.randint(1, 4) for _ in range(num_axes)]
        h = [Q(rnd.randint(1, 9), rnd.randint(2, 7)) for _ in range(num_axes)]
        lo = [Q(rnd.randint(-6, 6), 4) for _ in range(num_axes)]
        if kind != "cartesian":
            lo[0] = Q(rnd.randint(0, 6), 4) if rnd.random() < 0.6 else Q(0)
        arr_shape = tuple(concrete_int(d, g, shape) for d in arr.shape)
        out_shape = tuple(concrete_int(d, g, shape) for d in out.shape)
        vals = {idx: Q(rnd.randint(-20, 20), rnd.randint(1, 8)) for idx in itertools.product(*[range(d) for d in arr_shape])}
        s = z3.Solver()
        for a in range(num_axes):
            s.add(g.N[a] == shape[a], g.h[a] == to_z3(h[a]), g.lo[a] == to_z3(lo[a]))
            for k in range(-2, shape[a] + 3):
                s.add(g.coord(a, k) == to_z3(lo[a] + (Q(2 * k + 1, 2)) * h[a]))
        arr_fn = z3.Function("arr", *([z3.IntSort()] * len(arr_shape)), z3.RealSort())
        for idx, v in vals.items():
            s.add(arr_fn(*idx) == to_z3(v))
        for c in list(it.ctx.assumptions) + list(it.ctx.pc):
            s.add(c)
        if s.check() != z3.sat:
            engine[n] = {"error": "concrete instance does not satisfy the kernel's preconditions"}
            continue
        m = s.model()
        got = {}
        try:
            for idx in itertools.product(*[range(d) for d in out_shape]):
                v = m.eval(to_z3(out.read(idx)), model_completion=True)
                got[idx] = float(v.numerator_as_long()) / float(v.denominator_as_long()) if z3.is_rational_value(v) else None
        except Exception as e:
            engine[n] = {"error": f"{type(e).__name__}: {e}"}
            continue
        engine[n] = {"out": got, "out_shape": out_shape}
        cases.append({"id": n, "kind": kind, "op": op, "opts": opts, "shape": shape, "lo": [float(x) for x in lo], "h": [float(x) for x in h],
                      "arr": _nested(vals, arr_shape), "out_shape": list(out_shape)})
    res = native("crosscheck.py", {"cases": cases}, timeout=3000, disable_jit=True)
    if not res.get("ok"):
        raise RuntimeError(f"native cross-check driver failed: {res}")
    fails, compared = [], 0
    nat = {r["id"]: r for r in res["results"]}
    for n, (kind, dim, op, opts) in enumerate(configs):
        e, r = engine.get(n), nat.get(n)
        tag = f"{kind}{dim or ''}.{op}[{_optstr(opts)}]"
        if e is None or "error" in e:
            fails.append({"id": "engine_could_not_evaluate", "config": tag, "error": (e or {}).get("error")})
            continue
        if r is None or "error" in r:
            fails.append({"id": "native_error", "config": tag, "error": (r or {}).get("error")})
            continue
        import math
        for idx, v in e["out"].items():
            w = r["out"]
            for i in idx:
                w = w[i]
            compared += 1
            if v is None or not math.isfinite(w) or abs(v - w) > 1e-9 * (1 + abs(w)):
                fails.append({"id": "engine_and_cpython_disagree", "config": tag, "cell": list(idx), "engine": v, "cpython": w})
                break
    return {"name": "engine_crosscheck_vs_cpython", "bound": f"{len(configs)} kernel configurations, one random concrete grid and array each, every output cell ({compared} cells): symbolic result of the interpreter vs the real factory under CPython with numba JIT disabled",
            "cases": len(configs), "failures": fails[:8]}


def concrete_int(d, g, shape):
    if isinstance(d, int):
        return d
    s = z3.Solver()
    for a in range(g.num_axes):
        s.add(g.N[a] == shape[a])
    s.check()
    return s.model().eval(to_z3(d), model_completion=True).as_long()


def _nested(vals, shape):
    def build(prefix, dims):
        if not dims:
            return float(vals[prefix])
        return [build(prefix + (i,), dims[1:]) for i in range(dims[0])]
    return build((), tuple(shape))


def bounded(tier, seed):
    """bounded stand-in (NOT counted as proved): the real compiled operators, obtained through the public
    grid.make_operator_no_bc on the numba backend, against the same specification on random grids"""
    from ..runner import native

    configs = []
    for (kind, op), optlist in OPTIONS.items():
        dims = (1, 2, 3) if kind == "cartesian" else (None,)
        for dim in dims:
            for opts in optlist:
                if tier == "quick" and (opts.get("safe") is True or (kind == "cartesian" and dim == 3 and opts.get("method", "central") != "central")):
                    continue
                configs.append(dict(kind=kind, dim=dim, op=op, opts=opts))
    res = native("ops.py", {"configs": configs, "grids_per_config": 2 if tier == "quick" else 6, "seed": seed, "shifted_grids": True}, timeout=3000)
    if not res.get("ok"):
        raise RuntimeError(f"native driver failed: {res}")
    return [engine_crosscheck(tier, seed), {"name": "numba_operators_vs_spec", "bound": f"{len(configs)} configurations x {2 if tier == 'quick' else 6} random grids (<=5 cells per axis), one random field each; grid.make_operator with BCs on pairs of curvilinear grids that differ only by a shift of their bounds; one integer-typed field (gradient, fixed witness)",
             "cases": res["cases"], "failures": res["failures"]}]


TRUSTED = ["pdv/specs/operators.py: continuum symbol tables (textbook formulas) and the discretisation rule -- the specification itself"]
ASSUMPTIONS = [
    "Taylor's theorem turns the moment identities / bounds of lemma (L) into the truncation-error statement for smooth fields",
    "virtual points carry samples of the smooth extension of the field (the interplay with boundary conditions is C02/C05)",
    "uniform O(h^2) up to the axis on curvilinear grids uses the parity of smooth axisymmetric fields (analysis, not proved); the proved bounds carry the explicit 1/r dependence",
    "`safe` symmetry asserts of the spherical operators are preconditions of the continuum comparison, not of the stencil identity (K holds for all inputs)",
]
NOT_COVERED = [
    "spectral Laplacians (use_spectral, off by default; rocket_fft absent)",
    "9-point 2-d Laplacian (corner_weight != 0, non-default): kernel == (1-w) five-point + w diagonal stencil proved for all w, consistency lemma for dx = dy; the accuracy of the interpolated corner points next to non-periodic corners is not part of the claim",
    "scipy/ndimage reference kernels, jax/torch back ends (not installed)",
    "complex inputs: covered by linearity of the proved stencil (real coefficients act on Re and Im separately), not re-proved",
]
