"""C14 -- saving and restoring grids and fields loses nothing (DESIGN.md §4, C14): state round trips."""

from __future__ import annotations

import z3

from ..arrays import NDArr, sym_array
from ..objects import Instance
from ..values import Opaque, concrete, to_real, to_z3
from .common import explore_paths, prem_of

PROPERTY = "C14"


def _scalar(x):
    if isinstance(x, NDArr):
        return to_z3(x.read(tuple(0 for _ in x.shape)))
    return to_z3(to_real(x)) if not isinstance(x, bool) else z3.BoolVal(x)


def grid_roundtrip_unit(mod, clsname, hole, json_leg):
    def unit(U):
        def body(it):
            cls = it.module_attr(it.load_module(mod), clsname)
            it.contracts[("pde.grids.base", "GridBase.__init__")] = lambda interp, args, kw: None
            r_in, r_out = z3.Real("r_inner"), z3.Real("r_outer")
            it.ctx.assume(r_out > r_in)
            if hole:
                it.ctx.assume(r_in > 0)
                radius = (r_in, r_out)
            else:
                it.ctx.assume(r_in == 0)
                radius = r_out
            N = z3.Int("N")
            it.ctx.assume(N >= 1)
            if clsname == "CylindricalSymGrid":
                z0, z1, Nz, per = z3.Real("z0"), z3.Real("z1"), z3.Int("Nz"), z3.Bool("periodic_z")
                it.ctx.assume(z1 > z0)
                it.ctx.assume(Nz >= 1)
                g = it.instantiate(cls, [radius, (z0, z1), (N, Nz)], {"periodic_z": per})
            else:
                g = it.instantiate(cls, [radius, N], {})
            state = it.getattr(g, "state")
            if json_leg:
                # JSON: tuples become lists, finite floats / ints / bools are preserved
                state = {k: (list(map(lambda x: list(x) if isinstance(x, tuple) else x, v)) if isinstance(v, tuple) else v) for k, v in state.items()}
            g2 = it.call(it.getattr(cls, "from_state"), [state], {})
            return g, g2, cls

        for p, res in enumerate(explore_paths(U, body)):
            P = prem_of(res.ctx)
            nm = f"path{p}"
            if res.outcome != "return":
                U.prove(f"{nm}.round_trip_returns_normally", P, z3.BoolVal(False), info={"exc": str(res.exc)})
                continue
            g, g2, cls = res.value
            U.prove(f"{nm}.same_class", P, z3.BoolVal(isinstance(g2, Instance) and g2.cls is cls))
            b1, b2 = g.attrs["_axes_bounds"], g2.attrs.get("_axes_bounds", ())
            U.prove(f"{nm}.same_number_of_axes", P, z3.BoolVal(len(b1) == len(b2)))
            for a in range(min(len(b1), len(b2))):
                U.prove(f"{nm}.axis{a}.bounds_identical_incl_inner_radius", P, z3.And(_scalar(b1[a][0]) == _scalar(b2[a][0]), _scalar(b1[a][1]) == _scalar(b2[a][1])))
            s1, s2 = g.attrs["_shape"], g2.attrs.get("_shape", ())
            U.prove(f"{nm}.shape_identical", P, z3.And(z3.BoolVal(len(s1) == len(s2)), *[to_z3(x) == to_z3(y) for x, y in zip(s1, s2)]))
            p1, p2 = g.attrs.get("_periodic", [False]), g2.attrs.get("_periodic", [False])
            U.prove(f"{nm}.periodicity_identical", P, z3.And(z3.BoolVal(len(p1) == len(p2)), *[_scalar(x) == _scalar(y) for x, y in zip(p1, p2)]))
            # hence (C12: discretize_interval) identical coordinates, spacings and cell volumes
            for a in range(min(len(g.attrs["_axes_coords"]), len(g2.attrs.get("_axes_coords", ())))):
                k = z3.Int("k")
                c1, c2 = g.attrs["_axes_coords"][a], g2.attrs["_axes_coords"][a]
                U.prove(f"{nm}.axis{a}.cell_centres_identical", P + [k >= 0, k < to_z3(s1[a])], to_z3(c1.read((k,))) == to_z3(c2.read((k,))))

    return unit


def cartesian_roundtrip_unit(periodic_form, json_leg, dim=3):
    """CartesianGrid with `dim` axes through the real __init__ / state / from_state / __eq__; bounds, shape and periodic
    flags symbolic; `periodic` given as a list or as a tuple.  Contracts (assumed): Cuboid.from_bounds keeps the
    bounds it is given (corners = lower / upper bounds, bounds = pairs), CartesianCoordinates only carries `dim`."""
    def unit(U):
        def body(it):
            cls = it.module_attr(it.load_module("pde.grids.cartesian"), "CartesianGrid")
            lo = [z3.Real(f"lo{a}") for a in range(dim)]
            hi = [z3.Real(f"hi{a}") for a in range(dim)]
            N = [z3.Int(f"N{a}") for a in range(dim)]
            per = [z3.Bool(f"periodic{a}") for a in range(dim)]
            for a in range(dim):
                it.ctx.assume(z3.And(hi[a] > lo[a], N[a] >= 1))

            def from_bounds(interp, args, kw):
                b = args[-1] if not isinstance(args[0], NDArr) else args[0]
                los = [b.read((a, 0)) for a in range(dim)]
                his = [b.read((a, 1)) for a in range(dim)]
                from ..arrays import array_from_nested
                return Instance(None, {"dim": dim, "corners": (array_from_nested(los), array_from_nested(his)), "bounds": tuple((los[a], his[a]) for a in range(dim)), "__closed__": True}, name="Cuboid")

            it.contracts[("pde.tools.cuboid", "Cuboid.from_bounds")] = from_bounds
            it.overrides["CartesianCoordinates"] = lambda dim=None: Instance(None, {"dim": dim, "axes": ["x", "y", "z"][:dim], "__closed__": True}, name="CartesianCoordinates")
            periodic = tuple(per) if periodic_form == "tuple" else list(per)
            g = it.instantiate(cls, [[(lo[a], hi[a]) for a in range(dim)], list(N)], {"periodic": periodic})
            state = it.getattr(g, "state")
            if json_leg:
                def jsonify(v):
                    if isinstance(v, (tuple, list)):
                        return [jsonify(x) for x in v]
                    return v
                state = {k: jsonify(v) for k, v in state.items()}
            g2 = it.call(it.getattr(cls, "from_state"), [state], {})
            same = it.call(it.getattr(g, "__eq__"), [g2], {})
            return g, g2, cls, same, per

        for p, res in enumerate(explore_paths(U, body)):
            P = prem_of(res.ctx)
            nm = f"path{p}"
            if res.outcome != "return":
                U.prove(f"{nm}.round_trip_returns_normally", P, z3.BoolVal(False), info={"exc": str(res.exc)})
                continue
            g, g2, cls, same, per = res.value
            U.prove(f"{nm}.same_class", P, z3.BoolVal(isinstance(g2, Instance) and g2.cls is cls))
            U.prove(f"{nm}.restored_grid_equals_the_original", P, to_z3(same) if not isinstance(same, bool) else z3.BoolVal(same),
                    info={"witness": "GridBase.__eq__ of the original and the grid rebuilt from its state"})
            b1, b2 = g.attrs["_axes_bounds"], g2.attrs.get("_axes_bounds", ())
            U.prove(f"{nm}.same_number_of_axes", P, z3.BoolVal(len(b1) == len(b2) == dim))
            for a in range(min(len(b1), len(b2))):
                U.prove(f"{nm}.axis{a}.bounds_identical", P, z3.And(_scalar(b1[a][0]) == _scalar(b2[a][0]), _scalar(b1[a][1]) == _scalar(b2[a][1])))
            s1, s2 = g.attrs["_shape"], g2.attrs.get("_shape", ())
            U.prove(f"{nm}.shape_identical", P, z3.And(z3.BoolVal(len(s1) == len(s2)), *[to_z3(x) == to_z3(y) for x, y in zip(s1, s2)]))
            p1, p2 = g.attrs.get("_periodic", ()), g2.attrs.get("_periodic", ())
            U.prove(f"{nm}.periodicity_identical_per_axis", P, z3.And(z3.BoolVal(len(p1) == len(p2) == dim), *[_scalar(x) == y for x, y in zip(p2, per)], *[_scalar(x) == y for x, y in zip(p1, per)]))

    return unit


def from_data_unit(with_ghost):
    def unit(U):
        def body(it):
            cls = it.module_attr(it.load_module("pde.fields.collection"), "FieldCollection")
            dim, num_axes = 3, 2  # a grid with a symmetric axis (cylindrical): components are counted by dim
            n = z3.Int("n_points")
            it.ctx.assume(n >= 1)
            grid = Instance(None, {"dim": dim, "num_axes": num_axes}, name="grid")
            made = []

            def field_class(rank):
                def make(g, dtype=None):
                    f = Instance(None, {"rank": rank, "grid": g}, name=f"field_rank{rank}")
                    made.append(f)
                    return f
                return Instance(None, {"__call__": make}, name=f"FieldClass{rank}")

            it.builtins["issubclass"] = lambda a, b: True
            # number_array: an array of equal content and, when no conversion is needed, the very same array
            it.stub_names["number_array"] = lambda data, dtype=None, copy=None: data
            total = sum(dim**r for r in (0, 1, 2, 0))
            data = sym_array("data", (total, n))
            built = []
            it.contracts[("pde.fields.collection", "FieldCollection.__init__")] = lambda interp, args, kw: built.append((args[1], kw))
            it.call(it.getattr(cls, "from_data"), [[field_class(0), field_class(1), field_class(2), field_class(0)], grid, data], {"with_ghost_cells": True})
            return made, data, built, dim

        for p, res in enumerate(explore_paths(U, body)):
            P = prem_of(res.ctx)
            nm = f"from_data.path{p}"
            if res.outcome != "return":
                U.prove(f"{nm}.returns_normally", P, z3.BoolVal(False), info={"exc": str(res.exc)})
                continue
            made, data, built, dim = res.value
            ranks = (0, 1, 2, 0)
            U.prove(f"{nm}.one_field_per_class_in_order", P, z3.BoolVal(len(made) == 4 and [f.attrs["rank"] for f in made] == list(ranks) and len(built) == 1 and list(built[0][0]) == made))
            start = 0
            for k, f in enumerate(made[:4]):
                cnt = dim ** ranks[k]
                flat = f.attrs.get("_data_flat")
                ok = isinstance(flat, NDArr) and flat.buf is data.buf and concrete(flat.shape[0]) == cnt
                row0 = flat.base_index((0, 0))[0] if isinstance(flat, NDArr) and flat.ndim == 2 and concrete(flat.shape[0]) not in (0, None) else None
                U.prove(f"{nm}.field{k}_gets_rows_[{start},{start + cnt})_of_the_flat_array_(dim^rank_components)", P, z3.BoolVal(bool(ok) and concrete(row0) == start))
                start += cnt

    return unit


UNITS = []
for _mod, _cls in (("pde.grids.cylindrical", "CylindricalSymGrid"), ("pde.grids.spherical", "SphericalSymGrid"), ("pde.grids.spherical", "PolarSymGrid")):
    for _hole in (False, True):
        for _json in (False, True):
            UNITS.append((f"{_cls}.state_roundtrip[hole={_hole},json={_json}]", grid_roundtrip_unit(_mod, _cls, _hole, _json)))
for _form in ("list", "tuple"):
    for _json in (False, True):
        UNITS.append((f"CartesianGrid.state_roundtrip[3 axes,periodic={_form},json={_json}]", cartesian_roundtrip_unit(_form, _json)))
UNITS.append(("FieldCollection.from_data", from_data_unit(True)))


def bounded(tier, seed):
    from ..runner import native

    n = 3 if tier == "quick" else 30
    res = native("serialization.py", {"seed": seed, "n": n}, timeout=3000)
    if not res.get("ok"):
        raise RuntimeError(f"native driver failed: {res}")
    return [{"name": "round_trips_of_grids_fields_collections", "bound": f"{n} random instances per grid class (holes incl. tiny ones, periodic flags, negative bounds) x state/JSON/copy/deepcopy/pickle; fields and collections of ranks 0-2, several dtypes and labels (None, empty, non-empty; collection members too); cylinders and Cartesian grids with non-dyadic cell sizes (bounds bit for bit); from_data on every grid class",
             "cases": res["cases"], "failures": res["failures"]}]


TRUSTED = ["GridBase.__init__ (axes bookkeeping) replaced by a no-op in the symbolic runs", "JSON maps tuples to lists and is the identity on finite floats, ints, bools, strings"]
ASSUMPTIONS = ["equal bounds/shape/periodicity give equal coordinates and cell volumes (C12 discretize_interval, C05 cell volumes)"]
NOT_COVERED = ["UnitGrid constructor, CartesianGrid with bounds given as upper limits only (np.squeeze branch), copy/deepcopy/pickle, field attributes (un)serialisation, storage field_attributes: bounded native check only"]
