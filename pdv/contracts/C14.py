"""C14 -- saving and restoring grids and fields loses nothing (DESIGN.md §4, C14): state round trips."""

from __future__ import annotations

import z3

from ..arrays import NDArr, sym_array
from ..objects import Instance
from ..values import Opaque, concrete, to_real, to_z3
from .common import explore_paths, prem_of

PROPERTY = "C14"


def _scalar(x):
    if isinstance(x, NDArr):
        return to_z3(x.read(tuple(0 for _ in x.shape)))
    return to_z3(to_real(x)) if not isinstance(x, bool) else z3.BoolVal(x)


def grid_roundtrip_unit(mod, clsname, hole, json_leg):
    def unit(U):
        def body(it):
            cls = it.module_attr(it.load_module(mod), clsname)
            it.contracts[("pde.grids.base", "GridBase.__init__")] = lambda interp, args, kw: None
            r_in, r_out = z3.Real("r_inner"), z3.Real("r_outer")
            it.ctx.assume(r_out > r_in)
            if hole:
                it.ctx.assume(r_in > 0)
                radius = (r_in, r_out)
            else:
                it.ctx.assume(r_in == 0)
                radius = r_out
            N = z3.Int("N")
            it.ctx.assume(N >= 1)
            if clsname == "CylindricalSymGrid":
                z0, z1, Nz, per = z3.Real("z0"), z3.Real("z1"), z3.Int("Nz"), z3.Bool("periodic_z")
                it.ctx.assume(z1 > z0)
                it.ctx.assume(Nz >= 1)
                g = it.instantiate(cls, [radius, (z0, z1), (N, Nz)], {"periodic_z": per})
            else:
                g = it.instantiate(cls, [radius, N], {})
            state = it.getattr(g, "state")
            if json_leg:
                # JSON: tuples become lists, finite floats / ints / bools are preserved
                state = {k: (list(map(lambda x: list(x) if isinstance(x, tuple) else x, v)) if isinstance(v, tuple) else v) for k, v in state.items()}
            g2 = it.call(it.getattr(cls, "from_state"), [state], {})
            return g, g2, cls

        for p, res in enumerate(explore_paths(U, body)):
            P = prem_of(res.ctx)
            nm = f"path{p}"
            if res.outcome != "return":
                U.prove(f"{nm}.round_trip_returns_normally", P, z3.BoolVal(False), info={"exc": str(res.exc)})
                continue
            g, g2, cls = res.value
            U.prove(f"{nm}.same_class", P, z3.BoolVal(isinstance(g2, Instance) and g2.cls is cls))
            b1, b2 = g.attrs["_axes_bounds"], g2.attrs.get("_axes_bounds", ())
            U.prove(f"{nm}.same_number_of_axes", P, z3.BoolVal(len(b1) == len(b2)))
            for a in range(min(len(b1), len(b2))):
                U.prove(f"{nm}.axis{a}.bounds_identical_incl_inner_radius", P, z3.And(_scalar(b1[a][0]) == _scalar(b2[a][0]), _scalar(b1[a][1]) == _scalar(b2[a][1])))
            s1, s2 = g.attrs["_shape"], g2.attrs.get("_shape", ())
            U.prove(f"{nm}.shape_identical", P, z3.And(z3.BoolVal(len(s1) == len(s2)), *[to_z3(x) == to_z3(y) for x, y in zip(s1, s2)]))
            p1, p2 = g.attrs.get("_periodic", [False]), g2.attrs.get("_periodic", [False])
            U.prove(f"{nm}.periodicity_identical", P, z3.And(z3.BoolVal(len(p1) == len(p2)), *[_scalar(x) == _scalar(y) for x, y in zip(p1, p2)]))
            # hence (C12: discretize_interval) identical coordinates, spacings and cell volumes
            for a in range(min(len(g.attrs["_axes_coords"]), len(g2.attrs.get("_axes_coords", ())))):
                k = z3.Int("k")
                c1, c2 = g.attrs["_axes_coords"][a], g2.attrs["_axes_coords"][a]
                U.prove(f"{nm}.axis{a}.cell_centres_identical", P + [k >= 0, k < to_z3(s1[a])], to_z3(c1.read((k,))) == to_z3(c2.read((k,))))

    return unit


def cartesian_roundtrip_unit(periodic_form, json_leg, dim=3):
    """CartesianGrid with `dim` axes through the real __init__ / state / from_state / __eq__; bounds, shape and periodic
    flags symbolic; `periodic` given as a list or as a tuple.  Contracts (assumed): Cuboid.from_bounds keeps the
    bounds it is given (corners = lower / upper bounds, bounds = pairs), CartesianCoordinates only carries `dim`."""
    def unit(U):
        def body(it):
            cls = it.module_attr(it.load_module("pde.grids.cartesian"), "CartesianGrid")
            lo = [z3.Real(f"lo{a}") for a in range(dim)]
            hi = [z3.Real(f"hi{a}") for a in range(dim)]
            N = [z3.Int(f"N{a}") for a in range(dim)]
            per = [z3.Bool(f"periodic{a}") for a in range(dim)]
            for a in range(dim):
                it.ctx.assume(z3.And(hi[a] > lo[a], N[a] >= 1))

            def from_bounds(interp, args, kw):
                b = args[-1] if not isinstance(args[0], NDArr) else args[0]
                los = [b.read((a, 0)) for a in range(dim)]
                his = [b.read((a, 1)) for a in range(dim)]
                from ..arrays import array_from_nested
                return Instance(None, {"dim": dim, "corners": (array_from_nested(los), array_from_nested(his)), "bounds": tuple((los[a], his[a]) for a in range(dim)), "__closed__": True}, name="Cuboid")

            it.contracts[("pde.tools.cuboid", "Cuboid.from_bounds")] = from_bounds
            it.overrides["CartesianCoordinates"] = lambda dim=None: Instance(None, {"dim": dim, "axes": ["x", "y", "z"][:dim], "__closed__": True}, name="CartesianCoordinates")
            periodic = tuple(per) if periodic_form == "tuple" else list(per)
            g = it.instantiate(cls, [[(lo[a], hi[a]) for a in range(dim)], list(N)], {"periodic": periodic})
            state = it.getattr(g, "state")
            if json_leg:
                def jsonify(v):
                    if isinstance(v, (tuple, list)):
                        return [jsonify(x) for x in v]
                    return v
                state = {k: jsonify(v) for k, v in state.items()}
            g2 = it.call(it.getattr(cls, "from_state"), [state], {})
            same = it.call(it.getattr(g, "__eq__"), [g2], {})
            return g, g2, cls, same, per

        for p, res in enumerate(explore_paths(U, body)):
            P = prem_of(res.ctx)
            nm = f"path{p}"
            if res.outcome != "return":
                U.prove(f"{nm}.round_trip_returns_normally", P, z3.BoolVal(False), info={"exc": str(res.exc)})
                continue
            g, g2, cls, same, per = res.value
            U.prove(f"{nm}.same_class", P, z3.BoolVal(isinstance(g2, Instance) and g2.cls is cls))
            U.prove(f"{nm}.restored_grid_equals_the_original", P, to_z3(same) if not isinstance(same, bool) else z3.BoolVal(same),
                    info={"witness": "GridBase.__eq__ of the original and the grid rebuilt from its state"})
            b1, b2 = g.attrs["_axes_bounds"], g2.attrs.get("_axes_bounds", ())
            U.prove(f"{nm}.same_number_of_axes", P, z3.BoolVal(len(b1) == len(b2) == dim))
            for a in range(min(len(b1), len(b2))):
                U.prove(f"{nm}.axis{a}.bounds_identical", P, z3.And(_scalar(b1[a][0]) == _scalar(b2[a][0]), _scalar(b1[a][1]) == _scalar(b2[a][1])))
            s1, s2 = g.attrs["_shape"], g2.attrs.get("_shape", ())
            U.prove(f"{nm}.shape_identical", P, z3.And(z3.BoolVal(len(s1) == len(s2)), *[to_z3(x) == to_z3(y) for x, y in zip(s1, s2)]))
            p1, p2 = g.attrs.get("_periodic", ()), g2.attrs.get("_periodic", ())
            U.prove(f"{nm}.periodicity_identical_per_axis", P, z3.And(z3.BoolVal(len(p1) == len(p2) == dim), *[_scalar(x) == y for x, y in zip(p2, per)], *[_scalar(x) == y for x, y in zip(p1, per)]))

    return unit


def from_data_unit(with_ghost):
    def unit(U):
        def body(it):
            cls = it.module_attr(it.load_module("pde.fields.collection"), "FieldCollection")
            dim, num_axes = 3, 2  # a grid with a symmetric axis (cylindrical): components are counted by dim
            n = z3.Int("n_points")
            it.ctx.assume(n >= 1)
            grid = Instance(None, {"dim": dim, "num_axes": num_axes}, name="grid")
            made = []

            def field_class(rank):
                def make(g, dtype=None):
                    f = Instance(None, {"rank": rank, "grid": g}, name=f"field_rank{rank}")
                    made.append(f)
                    return f
                return Instance(None, {"__call__": make}, name=f"FieldClass{rank}")

            it.builtins["issubclass"] = lambda a, b: True
            # number_array: an array of equal content and, when no conversion is needed, the very same array
            it.stub_names["number_array"] = lambda data, dtype=None, copy=None: data
            total = sum(dim**r for r in (0, 1, 2, 0))
            data = sym_array("data", (total, n))
            built = []
            it.contracts[("pde.fields.collection", "FieldCollection.__init__")] = lambda interp, args, kw: built.append((args[1], kw))
            it.call(it.getattr(cls, "from_data"), [[field_class(0), field_class(1), field_class(2), field_class(0)], grid, data], {"with_ghost_cells": True})
            return made, data, built, dim

        for p, res in enumerate(explore_paths(U, body)):
            P = prem_of(res.ctx)
            nm = f"from_data.path{p}"
            if res.outcome != "return":
                U.prove(f"{nm}.returns_normally", P, z3.BoolVal(False), info={"exc": str(res.exc)})
                continue
            made, data, built, dim = res.value
            ranks = (0, 1, 2, 0)
            U.prove(f"{nm}.one_field_per_class_in_order", P, z3.BoolVal(len(made) == 4 and [f.attrs["rank"] for f in made] == list(ranks) and len(built) == 1 and list(built[0][0]) == made))
            start = 0
            for k, f in enumerate(made[:4]):
                cnt = dim ** ranks[k]
                flat = f.attrs.get("_data_flat")
                ok = isinstance(flat, NDArr) and flat.buf is data.buf and concrete(flat.shape[0]) == cnt
                row0 = flat.base_index((0, 0))[0] if isinstance(flat, NDArr) and flat.ndim == 2 and concrete(flat.shape[0]) not in (0, None) else None
                U.prove(f"{nm}.field{k}_gets_rows_[{start},{start + cnt})_of_the_flat_array_(dim^rank_components)", P, z3.BoolVal(bool(ok) and concrete(row0) == start))
                start += cnt

    return unit


UNITS = []
for _mod, _cls in (("pde.grids.cylindrical", "CylindricalSymGrid"), ("pde.grids.spherical", "SphericalSymGrid"), ("pde.grids.spherical", "PolarSymGrid")):
    for _hole in (False, True):
        for _json in (False, True):
            UNITS.append((f"{_cls}.state_roundtrip[hole={_hole},json={_json}]", grid_roundtrip_unit(_mod, _cls, _hole, _json)))
for _form in ("list", "tuple"):
    for _json in (False, True):
        UNITS.append((f"CartesianGrid.state_roundtrip[3 axes,periodic={_form},json={_json}]", cartesian_roundtrip_unit(_form, _json)))
UNITS.append(("FieldCollection.from_data", from_data_unit(True)))


class _Json:
    """json.dumps / json.loads as an injective constructor and its inverse on the values that occur in field
    attributes (None, strings incl. the empty one, class names, dtype strings)"""

    def __init__(self, payload):
        self.payload = payload


def field_attributes_unit(clsname, label):
    """the real FieldBase.attributes / attributes_serialized / unserialize_attributes (class dispatch through
    FieldBase._subclasses) / DataFieldBase.from_state: the constructor of the SAME class is called with the grid
    restored from the serialised grid state, the data array given, and exactly the label (None, '' and names are
    different labels) and dtype of the original.  Contracts used: GridBase.state_serialized / from_state (units
    above), the field constructor (C15), json as an injective encoding."""
    def unit(U):
        def body(it):
            from ..builtins_model import StubModule
            it.stub_modules["json"] = StubModule("json", {"dumps": lambda x, **kw: _Json(x), "loads": lambda x, **kw: x.payload})
            mod = it.load_module("pde.fields")
            base = it.module_attr(it.load_module("pde.fields.base"), "FieldBase")
            cls = it.module_attr(mod, clsname)
            # the class registry as FieldBase.__init_subclass__ fills it: every field class under its own name
            registry = {c: it.module_attr(mod, c) for c in ("ScalarField", "VectorField", "Tensor2Field", "FieldCollection")}
            base.members["_subclasses"] = ("val", registry)
            grid = Instance(None, {"state_serialized": "<serialised state of the grid>"}, name="grid")
            dtype = Instance(None, {"str": "<dtype string>"}, name="dtype")
            data = Instance(None, {"dtype": dtype}, name="data array")
            f = Instance(cls, {"grid": grid, "_label": label, "_data_valid": data, "data": data})
            restored_grids, built = [], []

            def grid_from_state(interp, args, kw):
                g = Instance(None, {"restored_from": args[-1]}, name="restored grid")
                restored_grids.append(g)
                return g

            it.contracts[("pde.grids.base", "GridBase.from_state")] = grid_from_state
            for c in ("ScalarField", "VectorField", "Tensor2Field"):
                def ctor(interp, args, kw, _c=c):
                    built.append((_c, args, kw))
                    return None
                it.contracts[("pde.fields.datafield_base", f"DataFieldBase.__init__")] = ctor
            ser = it.getattr(f, "attributes_serialized")
            attrs = it.call(it.getattr(base, "unserialize_attributes"), [dict(ser)], {})
            new_data = Instance(None, {}, name="data given to from_state")
            f2 = it.call(it.getattr(base, "from_state"), [attrs], {"data": new_data})
            return f, f2, cls, grid, dtype, new_data, restored_grids, built, ser

        for p, res in enumerate(explore_paths(U, body)):
            P = prem_of(res.ctx)
            nm = f"path{p}"
            if res.outcome != "return":
                U.prove(f"{nm}.round_trip_returns_normally", P, z3.BoolVal(False), info={"exc": str(res.exc)})
                continue
            f, f2, cls, grid, dtype, new_data, restored_grids, built, ser = res.value
            U.prove(f"{nm}.an_object_of_the_same_class_is_built", P, z3.BoolVal(isinstance(f2, Instance) and f2.cls is cls and len(built) == 1))
            if len(built) != 1:
                continue
            _c, args, kw = built[0]
            allargs = dict(kw)
            names = ["self", "grid", "data"]
            for k, v in zip(names, args):
                allargs[k] = v
            U.prove(f"{nm}.grid_restored_from_the_serialised_grid_state", P, z3.BoolVal(len(restored_grids) == 1 and allargs.get("grid") is restored_grids[0]
                                                                                       and restored_grids[0].attrs["restored_from"] == "<serialised state of the grid>"))
            got = allargs.get("label", "<<missing>>")
            U.prove(f"{nm}.label_identical", P, z3.BoolVal((got is None and label is None) or (isinstance(got, str) and isinstance(label, str) and got == label)),
                    info={"label": repr(label), "restored": repr(got)})
            U.prove(f"{nm}.dtype_identical", P, z3.BoolVal(allargs.get("dtype") == "<dtype string>"))
            U.prove(f"{nm}.data_handed_on", P, z3.BoolVal(allargs.get("data") is new_data))
            U.assume_note("class registry FieldBase._subclasses = {class name: class} as filled by __init_subclass__ (read from the code, trusted); json.dumps / loads inverse on None, strings and dtype strings")
            U.prove(f"{nm}.nothing_else_passed", P, z3.BoolVal(set(allargs) <= {"self", "grid", "data", "label", "dtype"}), info={"args": sorted(allargs)})

    return unit


UNITS += [(f"{c}.attributes_roundtrip[label={l!r}]", field_attributes_unit(c, l)) for c in ("ScalarField", "VectorField", "Tensor2Field") for l in (None, "", "c 1")]

def collection_attributes_unit(label):
    """the same for FieldCollection: attributes_serialized -> unserialize_attributes -> from_state(data=None) calls the
    collection constructor with members of the same classes in the same order, each with its own label and dtype and a
    grid restored from its serialised state, and with the label and dtype of the collection (the data leg of
    from_state -- assigning the flat array -- is covered by the bounded check and the from_data unit)"""
    def unit(U):
        def body(it):
            from ..builtins_model import StubModule
            it.stub_modules["json"] = StubModule("json", {"dumps": lambda x, **kw: _Json(x), "loads": lambda x, **kw: x.payload})
            mod = it.load_module("pde.fields")
            base = it.module_attr(it.load_module("pde.fields.base"), "FieldBase")
            registry = {c: it.module_attr(mod, c) for c in ("ScalarField", "VectorField", "Tensor2Field", "FieldCollection")}
            base.members["_subclasses"] = ("val", registry)
            grid = Instance(None, {"state_serialized": "<serialised state of the grid>"}, name="grid")
            members = []
            for k, (c, lab) in enumerate((("ScalarField", ""), ("VectorField", None), ("ScalarField", "s 2"))):
                dt = Instance(None, {"str": f"<dtype string {k}>"}, name="dtype")
                d = Instance(None, {"dtype": dt}, name="data array")
                members.append(Instance(registry[c], {"grid": grid, "_label": lab, "data": d}))
            cdt = Instance(None, {"str": "<dtype string of the collection>"}, name="dtype")
            coll = Instance(registry["FieldCollection"], {"_fields": members, "_label": label, "data": Instance(None, {"dtype": cdt}, name="data array"), "grid": grid})
            restored_grids, built = [], []

            def grid_from_state(interp, args, kw):
                g = Instance(None, {"restored_from": args[-1]}, name="restored grid")
                restored_grids.append(g)
                return g

            it.contracts[("pde.grids.base", "GridBase.from_state")] = grid_from_state
            it.contracts[("pde.fields.datafield_base", "DataFieldBase.__init__")] = lambda interp, args, kw: built.append(("member", args, kw))
            it.contracts[("pde.fields.collection", "FieldCollection.__init__")] = lambda interp, args, kw: built.append(("collection", args, kw))
            ser = it.getattr(coll, "attributes_serialized")
            attrs = it.call(it.getattr(base, "unserialize_attributes"), [dict(ser)], {})
            c2 = it.call(it.getattr(base, "from_state"), [attrs], {"data": None})
            return coll, c2, registry, members, restored_grids, built

        for p, res in enumerate(explore_paths(U, body)):
            P = prem_of(res.ctx)
            nm = f"path{p}"
            if res.outcome != "return":
                U.prove(f"{nm}.round_trip_returns_normally", P, z3.BoolVal(False), info={"exc": str(res.exc)})
                continue
            coll, c2, registry, members, restored_grids, built = res.value
            mem = [b for b in built if b[0] == "member"]
            col = [b for b in built if b[0] == "collection"]
            U.prove(f"{nm}.a_collection_with_three_new_members_is_built", P, z3.BoolVal(isinstance(c2, Instance) and c2.cls is registry["FieldCollection"] and len(mem) == 3 and len(col) == 1))
            if len(mem) != 3 or len(col) != 1:
                continue
            for k, (orig, (_, args, kw)) in enumerate(zip(members, mem)):
                a = dict(kw)
                for n_, v in zip(["self", "grid", "data"], args):
                    a[n_] = v
                lab, got = orig.attrs["_label"], a.get("label", "<<missing>>")
                U.prove(f"{nm}.member{k}.same_class_label_dtype_and_restored_grid", P, z3.BoolVal(
                    isinstance(a.get("self"), Instance) and a["self"].cls is orig.cls and ((got is None and lab is None) or (isinstance(got, str) and isinstance(lab, str) and got == lab))
                    and a.get("dtype") == f"<dtype string {k}>" and a.get("grid") in restored_grids and a["grid"].attrs["restored_from"] == "<serialised state of the grid>"),
                    info={"label": repr(lab), "restored": repr(got), "dtype": repr(a.get("dtype"))})
            _, args, kw = col[0]
            a = dict(kw)
            for n_, v in zip(["self", "fields"], args):
                a[n_] = v
            got = a.get("label", "<<missing>>")
            U.prove(f"{nm}.collection.members_in_order", P, z3.BoolVal(isinstance(a.get("fields"), list) and [f.cls for f in a["fields"] if isinstance(f, Instance)] == [m.cls for m in members]
                                                                       and all(f is b[1][0] for f, b in zip(a["fields"], mem))))
            U.prove(f"{nm}.collection.label_identical", P, z3.BoolVal((got is None and label is None) or (isinstance(got, str) and isinstance(label, str) and got == label)),
                    info={"label": repr(label), "restored": repr(got)})
            U.prove(f"{nm}.collection.dtype_identical", P, z3.BoolVal(a.get("dtype") == "<dtype string of the collection>"), info={"dtype": repr(a.get("dtype"))})
            U.prove(f"{nm}.collection.members_are_not_copied_again", P, z3.BoolVal(a.get("copy_fields") is False))
        U.assume_note("class registry FieldBase._subclasses as filled by __init_subclass__ (trusted); json.dumps / loads inverse on None, strings, lists and dicts of those")

    return unit


UNITS += [(f"FieldCollection.attributes_roundtrip[label={l!r}]", collection_attributes_unit(l)) for l in (None, "", "coll")]

def bounded(tier, seed):
    from ..runner import native

    n = 3 if tier == "quick" else 30
    res = native("serialization.py", {"seed": seed, "n": n}, timeout=3000)
    if not res.get("ok"):
        raise RuntimeError(f"native driver failed: {res}")
    return [{"name": "round_trips_of_grids_fields_collections", "bound": f"{n} random instances per grid class (holes incl. tiny ones, periodic flags, negative bounds) x state/JSON/copy/deepcopy/pickle; fields and collections of ranks 0-2, several dtypes and labels (None, empty, non-empty; collection members too); cylinders and Cartesian grids with non-dyadic cell sizes (bounds bit for bit); from_data on every grid class",
             "cases": res["cases"], "failures": res["failures"]}]


TRUSTED = ["GridBase.__init__ (axes bookkeeping) replaced by a no-op in the symbolic runs", "JSON maps tuples to lists and is the identity on finite floats, ints, bools, strings, None (json.dumps / loads modelled as an injective encoding and its inverse)", "the class registry FieldBase._subclasses = {class name: class} (filled by __init_subclass__)", "field constructors (DataFieldBase.__init__, FieldCollection.__init__) as recording stubs in the attribute round-trip units: what they do with label / dtype / grid is C15 and the bounded check"]
ASSUMPTIONS = ["equal bounds/shape/periodicity give equal coordinates and cell volumes (C12 discretize_interval, C05 cell volumes)"]
NOT_COVERED = ["UnitGrid constructor, CartesianGrid with bounds given as upper limits only (np.squeeze branch), copy/deepcopy/pickle of grids, the data leg of FieldCollection.from_state (assigning the flat array), storage field_attributes: bounded native check only; binary floating point (e.g. bounds recomputed from cell centres drift by an ulp): outside the real-number model, bounded native check with non-dyadic cell sizes"]
