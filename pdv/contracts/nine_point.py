"""9-point Laplacian on 2-d Cartesian grids (corner_weight != 0; pde/backends/numba/operators/cartesian.py):
contracts shared by C01 (kernel == stencil, consistency lemma) and C05 (corner points continue the
reflection / periodic extension, diagonal fluxes telescope).

The real `_make_laplace_numba_2d` (reached through the registered `make_laplace`) and the real
`make_corner_point_setter_2d` are interpreted for an arbitrary corner weight w != 0, arbitrary shapes,
spacings and contents, for each of the four periodicity patterns of the grid."""

from __future__ import annotations

import z3

from ..arrays import fresh_array, sym_array
from ..values import to_z3
from .common import CONFIG_DEFAULTS, OP_MODULE, SymGrid, explore_paths, make_backend_stub, prem_of

PERIODICITIES = [(False, False), (True, False), (False, True), (True, True)]


def _tag(px, py):
    return f"periodic=({'T' if px else 'F'},{'T' if py else 'F'})"


def _setup(it, px, py):
    it.overrides["config"] = dict(CONFIG_DEFAULTS)
    g = SymGrid("cartesian", 2)
    for f in g.facts:
        it.ctx.assume(f)
    inst = g.instance()
    inst.attrs["periodic"] = [px, py]
    backend = make_backend_stub()
    it.stub_names["get_backend"] = lambda *a, **k: backend
    return g, inst, backend


def _corners(g):
    return [(0, 0), (g.N[0] + 1, 0), (0, g.N[1] + 1), (g.N[0] + 1, g.N[1] + 1)]


# ------------------------------------------------------------------ (K9) kernel == stencil
def kernel_unit(px, py):
    def unit(U):
        def body(it):
            g, inst, backend = _setup(it, px, py)
            w = z3.Real("corner_weight")
            it.ctx.assume(w != 0)
            factory = it.get_function(OP_MODULE["cartesian"], "make_laplace")
            kernel = it.call(factory, [inst], {"backend": backend, "corner_weight": w})
            arr = sym_array("arr", (g.N[0] + 2, g.N[1] + 2))
            out = sym_array("out", (g.N[0], g.N[1]))
            pre = arr.frozen()
            it.call(kernel, [arr, out], {})
            return g, w, arr, out, pre

        n_paths = 0
        for p, res in enumerate(explore_paths(U, body)):
            P = prem_of(res.ctx)
            nm = f"path{p}"
            if res.outcome != "return":
                U.prove(f"{nm}.returns_normally", P, z3.BoolVal(False), info={"exc": str(res.exc)})
                continue
            n_paths += 1
            g, w, arr, out, pre = res.value
            i, j = z3.Int("i0"), z3.Int("i1")
            Pi = P + [i >= 0, i < g.N[0], j >= 0, j < g.N[1]]

            def u(dx, dy):
                return to_z3(arr.read((i + 1 + dx, j + 1 + dy)))

            dxm2, dym2 = 1 / (g.h[0] * g.h[0]), 1 / (g.h[1] * g.h[1])
            five = (u(-1, 0) - 2 * u(0, 0) + u(1, 0)) * dxm2 + (u(0, -1) - 2 * u(0, 0) + u(0, 1)) * dym2
            diag = (dxm2 + dym2) / 4 * (u(-1, -1) + u(-1, 1) + u(1, -1) + u(1, 1) - 4 * u(0, 0))
            U.prove(f"{nm}.out==(1-w)*five_point+w*diagonal_stencil", Pi, to_z3(out.read((i, j))) == (1 - w) * five + w * diag, info={"prefer": "ratnf"})
            # frame on the padded input: only the four corner points are written
            a, b = z3.Int("p"), z3.Int("q")
            not_corner = z3.And(*[z3.Not(z3.And(a == ca, b == cb)) for ca, cb in _corners(g)])
            U.prove(f"{nm}.padded_input_unchanged_except_corner_points", P + [a >= 0, a <= g.N[0] + 1, b >= 0, b <= g.N[1] + 1, not_corner],
                    to_z3(arr.read((a, b))) == to_z3(pre((a, b))))
            U.cover(f"{nm}.pre.cover", Pi)
            U.cover(f"{nm}.canary.spec_perturbed", Pi + [g.h[0] == 1, g.h[1] == 1], to_z3(out.read((i, j))) != (1 - w) * five + w * diag + u(0, 0))
        U.prove("has_normal_paths", [], z3.BoolVal(n_paths >= 1))
        U.assume_note("`arr` and `out` do not overlap in memory (out is allocated by the caller wrappers, C03)")

    return unit


def lemma_consistency(U):
    """moments of the diagonal stencil for dx = dy = h: on the monomials x^a y^b / (a! b!) with a + b <= 3 it
    acts like d_xx + d_yy (1 on x^2/2 and y^2/2, 0 otherwise); the fourth-order moments are finite multiples of h^2"""
    h = z3.Real("h")
    prem = [h > 0]
    fact = [1, 1, 2, 6, 24]

    def mono(a, b, x, y):
        v = z3.RealVal(1)
        for _ in range(a):
            v = v * x
        for _ in range(b):
            v = v * y
        return v / (fact[a] * fact[b])

    for a in range(5):
        for b in range(5 - a):
            val = sum(mono(a, b, sx * h, sy * h) for sx in (-1, 1) for sy in (-1, 1)) - 4 * mono(a, b, z3.RealVal(0), z3.RealVal(0))
            val = (2 / (h * h)) / 4 * val
            if a + b <= 3:
                want = z3.RealVal(1 if (a, b) in ((2, 0), (0, 2)) else 0)
            else:
                want = {(4, 0): h * h / 12, (0, 4): h * h / 12, (2, 2): h * h / 2}.get((a, b), z3.RealVal(0))
            U.prove(f"moment[diagonal][x^{a}y^{b}]", prem, val == want)
    U.assume_note("the 9-point stencil is a consistent Laplacian only for dx = dy (the code logs a warning otherwise); Taylor's theorem as in lemma (L)")


# ------------------------------------------------------------------ (B9) corner points continue the extension
def _rho(p, n, periodic):
    """index of the valid cell whose value a padded index carries after the ghost cells of a periodic /
    zero-derivative axis have been set (C02): ghost = opposite cell resp. ghost = adjacent cell"""
    lo = n if periodic else 1
    hi = 1 if periodic else n
    return z3.If(p == 0, lo, z3.If(p == n + 1, hi, p))


def corner_extension_unit(px, py):
    def unit(U):
        def body(it):
            g, inst, backend = _setup(it, px, py)
            factory = it.get_function(OP_MODULE["cartesian"], "make_corner_point_setter_2d")
            setter = it.call(factory, [inst], {"backend": backend})
            uf = z3.Function("u", z3.IntSort(), z3.IntSort(), z3.RealSort())
            junk = z3.Function("corner_before", z3.IntSort(), z3.IntSort(), z3.RealSort())

            def content(idx):
                a, b = to_z3(idx[0]), to_z3(idx[1])
                is_corner = z3.And(z3.Or(a == 0, a == g.N[0] + 1), z3.Or(b == 0, b == g.N[1] + 1))
                return z3.If(is_corner, junk(a, b), uf(_rho(a, g.N[0], px), _rho(b, g.N[1], py)))

            arr = fresh_array("arr", (g.N[0] + 2, g.N[1] + 2), content)
            pre = arr.frozen()
            it.call(setter, [arr], {})
            return g, arr, pre, uf

        for p, res in enumerate(explore_paths(U, body)):
            P = prem_of(res.ctx)
            nm = f"path{p}"
            if res.outcome != "return":
                U.prove(f"{nm}.returns_normally", P, z3.BoolVal(False), info={"exc": str(res.exc)})
                continue
            g, arr, pre, uf = res.value
            for k, (ca, cb) in enumerate(_corners(g)):
                want = uf(_rho(to_z3(ca), g.N[0], px), _rho(to_z3(cb), g.N[1], py))
                U.prove(f"{nm}.corner{k}_continues_the_{'periodic' if px or py else 'reflected'}_extension", P, to_z3(arr.read((ca, cb))) == want,
                        info={"replay_payload": {"periodic": [px, py], "corner": k}})
            a, b = z3.Int("p"), z3.Int("q")
            not_corner = z3.And(*[z3.Not(z3.And(a == ca, b == cb)) for ca, cb in _corners(g)])
            U.prove(f"{nm}.only_corner_points_written", P + [a >= 0, a <= g.N[0] + 1, b >= 0, b <= g.N[1] + 1, not_corner],
                    to_z3(arr.read((a, b))) == to_z3(pre((a, b))))

    return unit


# ------------------------------------------------------------------ (T9) diagonal fluxes telescope
def telescoping_unit(U):
    h0, h1, w = z3.Real("h0"), z3.Real("h1"), z3.Real("corner_weight")
    prem = [h0 > 0, h1 > 0]
    u = z3.Function("u", z3.IntSort(), z3.IntSort(), z3.RealSort())
    i, j = z3.Int("i"), z3.Int("j")
    dxm2, dym2 = 1 / (h0 * h0), 1 / (h1 * h1)
    c = w * (dxm2 + dym2) / 4

    def D1(a, b):  # flux along (+1, +1) into cell (a, b)
        return c * (u(a, b) - u(a - 1, b - 1))

    def D2(a, b):  # flux along (+1, -1) into cell (a, b)
        return c * (u(a, b) - u(a - 1, b + 1))

    def Fx(a, b):
        return (1 - w) * dxm2 * (u(a, b) - u(a - 1, b))

    def Fy(a, b):
        return (1 - w) * dym2 * (u(a, b) - u(a, b - 1))

    five = (u(i - 1, j) - 2 * u(i, j) + u(i + 1, j)) * dxm2 + (u(i, j - 1) - 2 * u(i, j) + u(i, j + 1)) * dym2
    diag = (dxm2 + dym2) / 4 * (u(i - 1, j - 1) + u(i - 1, j + 1) + u(i + 1, j - 1) + u(i + 1, j + 1) - 4 * u(i, j))
    total = (Fx(i + 1, j) - Fx(i, j)) + (Fy(i, j + 1) - Fy(i, j)) + (D1(i + 1, j + 1) - D1(i, j)) + (D2(i + 1, j - 1) - D2(i, j))
    U.prove("nine_point_laplace==sum_of_axis_and_diagonal_flux_differences", prem, (1 - w) * five + w * diag == total, info={"prefer": "ratnf"})
    # boundary: with the extension E (ghost and corner points carry u(rho(p), rho(q))) the diagonal fluxes
    # through an edge are the second difference of the edge row in the E-extension, whose sum telescopes to
    # edge fluxes that vanish (reflection) or coincide (periodic)
    N = z3.Int("N")
    row = z3.Function("edge_row", z3.IntSort(), z3.RealSort())
    for periodic in (False, True):
        rho = lambda p: _rho(p, N, periodic)
        T = lambda k: row(rho(k)) - row(rho(k - 1))
        S = (row(rho(i - 1)) - row(i)) + (row(rho(i + 1)) - row(i))
        nm = "periodic" if periodic else "reflected"
        U.prove(f"edge[{nm}].diagonal_fluxes_through_the_edge==difference_of_row_fluxes", [N >= 1, i >= 1, i <= N], S == T(i + 1) - T(i))
        U.prove(f"edge[{nm}].row_fluxes_at_both_ends_cancel", [N >= 1], T(N + 1) - T(1) == 0)
    U.assume_note("finite telescoping sums along axes, diagonals and edge rows (induction on the number of cells; meta-level)")


def units_C01():
    us = [(f"cartesian2.laplace9[{_tag(px, py)}]", kernel_unit(px, py)) for px, py in PERIODICITIES]
    us.append(("lemma.nine_point_consistency", lemma_consistency))
    return us


def units_C05():
    us = [(f"laplace9.kernel[{_tag(px, py)}]", kernel_unit(px, py)) for px, py in PERIODICITIES]
    us += [(f"laplace9.corner_points[{_tag(px, py)}]", corner_extension_unit(px, py)) for px, py in PERIODICITIES]
    us.append(("laplace9.telescoping", telescoping_unit))
    return us
