"""C19 -- components are tied to the right basis vectors (DESIGN.md §4, C19)."""

from __future__ import annotations

import itertools

import z3

from ..arrays import NDArr, fresh_array, sym_array
from ..objects import Instance
from ..values import COS_FN, COSH_FN, SIN_FN, SINH_FN, Opaque, concrete, to_real, to_z3
from .common import explore_paths, make_backend_stub, prem_of

PROPERTY = "C19"
COORDS = {
    "polar": ("pde.grids.coordinates.polar", "PolarCoordinates", 2, ["r", "φ"]),
    "spherical": ("pde.grids.coordinates.spherical", "SphericalCoordinates", 3, ["r", "θ", "φ"]),
    "cylindrical": ("pde.grids.coordinates.cylindrical", "CylindricalCoordinates", 3, ["r", "φ", "z"]),
    "bipolar": ("pde.grids.coordinates.bipolar", "BipolarCoordinates", 2, ["σ", "τ"]),
    "bispherical": ("pde.grids.coordinates.bispherical", "BisphericalCoordinates", 3, ["σ", "τ", "φ"]),
}
HYPERBOLIC = ("bipolar", "bispherical")
# grid class -> (coordinate system, grid axes, symmetric axes) as the grid classes declare them
GRIDS = {
    "PolarSymGrid": ("polar", ["r"], ["φ"]),
    "SphericalSymGrid": ("spherical", ["r"], ["θ", "φ"]),
    "CylindricalSymGrid": ("cylindrical", ["r", "z"], ["φ"]),
}


def _point(dim):
    names = ["r", "a1", "a2"][:dim]
    vals = [z3.Real("r"), z3.Real("angle1"), z3.Real("angle2")][:dim]
    return vals


def _trig_axioms(vals):
    ax = []
    for v in vals[1:]:
        ax.append(SIN_FN(v) * SIN_FN(v) + COS_FN(v) * COS_FN(v) == 1)
    return ax


def _mat(arr, n):
    return [[to_z3(to_real(arr.read((i, j)))) for j in range(n)] for i in range(n)]


def basis_unit(kind):
    mod, cls, dim, _ = COORDS[kind]

    def unit(U):
        def body(it):
            c = Instance(it.module_attr(it.load_module(mod), cls), {"dim": dim})
            if kind in HYPERBOLIC:
                a = z3.Real("scale_parameter")
                it.ctx.assume(a > 0)
                c.attrs["scale_parameter"] = a
                vals = [z3.Real("sigma"), z3.Real("tau"), z3.Real("phi")][:dim]
                # away from the foci: cosh(tau) - cos(sigma) > 0; sin(sigma) > 0 for the 3-d system (0 < sigma < pi)
                it.ctx.assume(COSH_FN(vals[1]) - COS_FN(vals[0]) > 0)
                if kind == "bispherical":
                    it.ctx.assume(SIN_FN(vals[0]) > 0)
            else:
                vals = _point(dim)
                it.ctx.assume(vals[0] > 0)
            if kind == "spherical":
                it.ctx.assume(SIN_FN(vals[1]) > 0)
            pts = fresh_array("point", (dim,), lambda idx: vals[concrete(idx[0])])
            R = it.call(it.getattr(c, "_basis_rotation"), [pts], {})
            J = it.call(it.getattr(c, "_mapping_jacobian"), [pts], {})
            h = it.call(it.getattr(c, "_scale_factors"), [pts], {})
            return R, J, h, vals

        for p, res in enumerate(explore_paths(U, body)):
            P = prem_of(res.ctx)
            nm = f"{kind}.path{p}"
            if res.outcome != "return":
                U.prove(f"{nm}.returns_normally", P, z3.BoolVal(False), info={"exc": str(res.exc)})
                continue
            R, J, h, vals = res.value
            if kind in HYPERBOLIC:
                ax = [SIN_FN(v) * SIN_FN(v) + COS_FN(v) * COS_FN(v) == 1 for v in (vals[0], *vals[2:])]
                ax += [COSH_FN(vals[1]) * COSH_FN(vals[1]) - SINH_FN(vals[1]) * SINH_FN(vals[1]) == 1, COSH_FN(vals[1]) >= 1]
            else:
                ax = _trig_axioms(vals)
            Rm, Jm = _mat(R, dim), _mat(J, dim)
            hv = [to_z3(to_real(h.read((j,)))) for j in range(dim)]
            for i, j in itertools.product(range(dim), repeat=2):
                dot = sum(Rm[i][k] * Rm[j][k] for k in range(dim))
                U.prove(f"{nm}.rows_{i}_{j}_orthonormal", P + ax, dot == (1 if i == j else 0), info={"prefer": "ratnf"} if kind in HYPERBOLIC else None)
            if dim == 2:
                det = Rm[0][0] * Rm[1][1] - Rm[0][1] * Rm[1][0]
            else:
                det = (Rm[0][0] * (Rm[1][1] * Rm[2][2] - Rm[1][2] * Rm[2][1]) - Rm[0][1] * (Rm[1][0] * Rm[2][2] - Rm[1][2] * Rm[2][0])
                       + Rm[0][2] * (Rm[1][0] * Rm[2][1] - Rm[1][1] * Rm[2][0]))
            U.prove(f"{nm}.right_handed_det=+1", P + ax, det == 1, info={"prefer": "ratnf"} if kind in HYPERBOLIC else None)
            for j in range(dim):
                if kind in HYPERBOLIC:
                    for i in range(dim):
                        U.prove(f"{nm}.basis_vector_{j}[{i}]==jacobian_column_{j}[{i}]/scale_factor", P + ax, Rm[j][i] * hv[j] == Jm[i][j], info={"prefer": "ratnf"})
                else:
                    U.prove(f"{nm}.basis_vector_{j}==jacobian_column_{j}/scale_factor", P + ax, z3.And(*[Rm[j][i] * hv[j] == Jm[i][j] for i in range(dim)]))
                U.prove(f"{nm}.scale_factor_{j}_positive", P + ax, hv[j] > 0)
        U.assume_note("sin^2 + cos^2 = 1 (ground instances); r > 0, sin(theta) > 0 away from the coordinate singularities")

    return unit


def vector_to_cartesian_unit(gridcls):
    kind, axes, sym = GRIDS[gridcls]
    mod, cls, dim, caxes = COORDS[kind]

    def unit(U):
        def body(it):
            c = Instance(it.module_attr(it.load_module(mod), cls), {"dim": dim})
            g = Instance(it.module_attr(it.load_module("pde.grids.base"), "GridBase"), {"dim": dim, "c": c, "axes": list(axes), "axes_symmetric": list(sym)})
            vals = _point(dim)
            it.ctx.assume(vals[0] > 0)
            pts = fresh_array("point", (dim,), lambda idx: vals[concrete(idx[0])])
            comps = sym_array("components", (dim,))
            out = it.call(it.getattr(g, "_vector_to_cartesian"), [pts, comps], {})
            R = it.call(it.getattr(c, "basis_rotation"), [pts], {})
            idx = {name: it.call(it.getattr(g, "get_axis_index"), [name], {}) for name in axes + sym}
            return out, R, comps, vals, idx

        for p, res in enumerate(explore_paths(U, body)):
            P = prem_of(res.ctx)
            nm = f"{gridcls}.path{p}"
            if res.outcome != "return":
                U.prove(f"{nm}.returns_normally", P, z3.BoolVal(False), info={"exc": str(res.exc)})
                continue
            out, R, comps, vals, idx = res.value
            order = axes + sym  # component order used by the operators and by access via axis names (C01)
            U.prove(f"{nm}.access_by_axis_name_uses_grid_axes_then_symmetric_axes", P, z3.BoolVal(all(idx[n] == k for k, n in enumerate(order))))
            Rm = _mat(R, dim)
            for i in range(dim):
                want = sum(to_z3(comps.read((k,))) * Rm[caxes.index(name)][i] for k, name in enumerate(order))
                U.prove(f"{nm}.cartesian_component_{i}==sum_k_component_k*e_name(k)", P, to_z3(out.read((i,))) == want,
                        info={"witness": "uniform axial field on a cylindrical grid must become a uniform z-field"})

    return unit


def outer_product_unit(U):
    def body(it):
        captured = {}
        it.local_def_overrides[("NumbaBackend.make_outer_prod_operator", "calc")] = lambda f: captured.setdefault("calc", f)
        cls = it.module_attr(it.load_module("pde.backends.numba.backend"), "NumbaBackend")
        be = Instance(cls, {})
        n = z3.Int("n")
        it.ctx.assume(n >= 1)
        grid = Instance(None, {"dim": 3, "num_axes": 1, "shape": (n,)}, name="grid")
        field = Instance(None, {"grid": grid, "__isinstance__": ("VectorField", "DataFieldBase")}, name="field")
        try:
            it.call(it.getattr(be, "make_outer_prod_operator"), [field], {})
        except Exception:
            if "calc" not in captured:
                raise
        a, b, out = sym_array("a", (3, n)), sym_array("b", (3, n)), sym_array("out", (3, 3, n))
        it.call(captured["calc"], [a, b, out], {})
        return a, b, out, n

    for p, res in enumerate(explore_paths(U, body)):
        P = prem_of(res.ctx)
        if res.outcome != "return":
            U.prove(f"outer.path{p}.returns_normally", P, z3.BoolVal(False), info={"exc": str(res.exc)})
            continue
        a, b, out, n = res.value
        k = z3.Int("k")
        for i, j in itertools.product(range(3), repeat=2):
            U.prove(f"outer.path{p}.out[{i},{j}]==a[{i}]*b[{j}]", P + [k >= 0, k < n], to_z3(out.read((i, j, k))) == to_z3(a.read((i, k))) * to_z3(b.read((j, k))))


def inner_product_unit(rank_a, rank_b):
    """the compiled dot product (typed dispatch of NumbaBackend.make_inner_prod_operator on the ranks of the
    operands, output allocated by the operator) equals sum_k a[.., k] b[k, ..]"""
    def unit(U):
        def body(it):
            captured = {}
            key = "NumbaBackend.make_inner_prod_operator"
            it.local_def_overrides[(key, "dot_ol")] = lambda f: captured.setdefault("dot_ol", f)
            it.local_def_overrides[(key, "get_rank")] = lambda f: (lambda arr: arr.attrs["rank"])
            it.stub_names["get_common_numba_dtype"] = lambda *a: Opaque("dtype")
            it.stub_names["nb_overload"] = lambda *a, **k: (lambda f: f)
            cls = it.module_attr(it.load_module("pde.backends.numba.backend"), "NumbaBackend")
            be = Instance(cls, {})
            n = z3.Int("n")
            it.ctx.assume(n >= 1)
            dim = 3
            grid = Instance(None, {"dim": dim, "num_axes": 1, "shape": (n,)}, name="grid")
            field = Instance(None, {"grid": grid, "__isinstance__": ("VectorField", "DataFieldBase")}, name="field")
            it.contracts[("pde.backends.base", "BackendBase.make_inner_prod_operator")] = lambda interp, args, kw: Opaque("python dot")
            try:
                it.call(it.getattr(be, "make_inner_prod_operator"), [field], {"conjugate": False})
            except Exception:
                if "dot_ol" not in captured:
                    raise
            ta = Instance(None, {"rank": rank_a}, name="type of a")
            tb = Instance(None, {"rank": rank_b}, name="type of b")
            impl = it.call(captured["dot_ol"], [ta, tb, None], {})
            a = sym_array("a", (dim,) * rank_a + (n,))
            b = sym_array("b", (dim,) * rank_b + (n,))
            out = it.call(impl, [a, b], {})
            return a, b, out, n, dim

        for p, res in enumerate(explore_paths(U, body)):
            P = prem_of(res.ctx)
            if res.outcome != "return":
                U.prove(f"dot.path{p}.returns_normally", P, z3.BoolVal(False), info={"exc": str(res.exc)})
                continue
            a, b, out, n, dim = res.value
            c = z3.Int("cell")
            Pc = P + [c >= 0, c < n]
            free_a, free_b = rank_a - 1, rank_b - 1
            U.prove(f"dot.path{p}.result_shape", P, z3.BoolVal(out.ndim == free_a + free_b + 1))
            if out.ndim != free_a + free_b + 1:
                continue
            for ia in itertools.product(range(dim), repeat=free_a):
                for ib in itertools.product(range(dim), repeat=free_b):
                    want = sum(to_z3(a.read(ia + (k, c))) * to_z3(b.read((k,) + ib + (c,))) for k in range(dim))
                    U.prove(f"dot.path{p}.out{list(ia + ib)}==sum_k_a[..k]*b[k..]", Pc, to_z3(out.read(ia + ib + (c,))) == want)

    return unit


def _operator_units():
    """the compiled operators that read or write vector / tensor components on curvilinear grids pair every component
    with the derivative the continuum formula prescribes for that basis vector (C01 kernel contracts, re-checked here:
    a kernel that swaps t[r,z] and t[z,r] ties a component to the wrong dyad)"""
    from . import C01

    us = []
    for (kind, op), optlist in C01.OPTIONS.items():
        if kind == "cartesian" or C01.RANKS[op] == (0, 0):
            continue
        opts = next((o for o in optlist if not o.get("safe") and o.get("method", "central") == "central" and o.get("conservative", True)), optlist[0])
        us.append((f"operator_component_order.{kind}.{op}[{C01._optstr(opts)}]", C01.kernel_unit(kind, None, op, opts)))
    return us


UNITS = _operator_units()
UNITS += [(f"numba.inner_product[rank_a={ra},rank_b={rb}]", inner_product_unit(ra, rb)) for ra in (1, 2) for rb in (1, 2)]
UNITS += [(f"basis.{k}", basis_unit(k)) for k in COORDS] + [(f"vector_to_cartesian.{g}", vector_to_cartesian_unit(g)) for g in GRIDS] + [("numba.outer_product", outer_product_unit)]


def bounded(tier, seed):
    from ..runner import native

    res = native("basis.py", {"seed": seed, "n": 3 if tier == "quick" else 20}, timeout=3000)
    if not res.get("ok"):
        raise RuntimeError(f"native driver failed: {res}")
    return [{"name": "component_order_across_the_package", "bound": "vec_to_cart of polar / spherical / cylindrical coordinates for one point and arrays of points (position vector); vector image data of a radial field on polar grids; random curvilinear grids: from_expression vs access by name vs operators, dot/outer on both backends, conversion of vector fields to Cartesian grids (radial and axial test fields)",
             "cases": res["cases"], "failures": res["failures"]}]


TRUSTED = ["sin/cos uninterpreted with sin^2+cos^2=1", "np.einsum('j...,ji...->i...') = sum_j comp_j rot_ji"]
ASSUMPTIONS = ["grid axes / symmetric axes lists as declared by the grid classes (read: PolarSymGrid (r;phi), SphericalSymGrid (r;theta,phi), CylindricalSymGrid (r,z;phi))"]
NOT_COVERED = ["VectorField.from_expression, the numpy (einsum) dot product, interpolate_to_grid wiring: bounded native check only (the compiled dot and outer products are proved)", "'commutes with divergence/gradient' is a corollary of C01 + this property, not a separate obligation"]
