"""C09 -- interrupt schedules increase strictly and stay on their lattice (DESIGN.md §4, C09).

Contracts on the real methods of pde/trackers/interrupts.py, executed symbolically on instances built by
the real __init__.  Ghost state: k (lattice index of the last answer), prev (last answer).
"""

from __future__ import annotations

from fractions import Fraction

import z3

from ..ctx import PyRaise, mark_definitional
from ..interp import LoopSpec
from ..objects import Instance
from ..values import INF, Inf, ceil_real, fresh_name, to_z3
from .common import explore_paths, prem_of

PROPERTY = "C09"
MOD = "pde.trackers.interrupts"


def _cls(it, name):
    return it.module_attr(it.load_module(MOD), name)


# ------------------------------------------------------------------ ConstantInterrupts
def constant_initialize(U):
    for with_start in (False, True):
        def body(it, with_start=with_start):
            dt, t = z3.Real("dt"), z3.Real("t")
            it.ctx.assume(dt > 0)
            ts = z3.Real("t_start") if with_start else None
            obj = it.instantiate(_cls(it, "ConstantInterrupts"), [dt], {"t_start": ts})
            r = it.call(it.getattr(obj, "initialize"), [t], {})
            return obj, r, t, ts, dt

        for k, res in enumerate(explore_paths(U, body)):
            tag = f"t_start={'given' if with_start else 'None'}.path{k}"
            if res.outcome != "return":
                U.prove(f"initialize[{tag}].returns_normally", prem_of(res.ctx), z3.BoolVal(False))
                continue
            obj, r, t, ts, dt = res.value
            want = t if ts is None else z3.If(t >= ts, t, ts)
            P = prem_of(res.ctx)
            U.prove(f"initialize[{tag}].first_time_is_max(t,t_start)", P, to_z3(r) == want)
            if ts is not None:
                # the statement: every answer is a member of { t_start + k*dt }, also the first one of a run that starts late
                q = (to_z3(r) - ts) / dt
                U.prove(f"initialize[{tag}].first_time_on_the_lattice_t_start+k*dt", P, z3.And(q == z3.ToReal(z3.ToInt(q)), q >= 0),
                        info={"witness": "ConstantInterrupts(dt=2, t_start=1).initialize(4) answers 4, then 6, 8, ...: none of them is 1 + 2k", "replay_payload": {"lattice": True}})
            U.prove(f"initialize[{tag}].state_t_next==answer", P, to_z3(obj.attrs["_t_next"]) == to_z3(r))
            U.prove(f"initialize[{tag}].dt_kept", P, to_z3(obj.attrs["dt"]) == dt)
            U.cover(f"initialize[{tag}].cover", P)


def constant_init(U):
    """ConstantInterrupts.__init__: the precondition `dt > 0` of the initialize/next contracts is established by the
    constructor -- whatever it accepts has a positive period (dt < 0 walks backwards, dt = 0 divides by zero in next)"""
    for with_start in (False, True):
        def body(it, with_start=with_start):
            dt = z3.Real("dt")
            ts = z3.Real("t_start") if with_start else None
            obj = it.instantiate(_cls(it, "ConstantInterrupts"), [dt], {"t_start": ts})
            return obj, dt, ts

        n_ret = 0
        tag0 = f"t_start={'given' if with_start else 'None'}"
        for p, res in enumerate(explore_paths(U, body)):
            P = prem_of(res.ctx)
            dt = z3.Real("dt")
            nm = f"Constant.__init__[{tag0}].path{p}"
            if res.outcome != "return":
                U.prove(f"{nm}.rejects_only_non_positive_periods", P, z3.Not(dt > 0), info={"exc": str(res.exc)})
                continue
            n_ret += 1
            obj, dt, ts = res.value
            U.prove(f"{nm}.accepted_dt>0", P, dt > 0,
                    info={"witness": "ConstantInterrupts(-1): initialize(0) -> 0, next(0.5) -> -1 (earlier than asked, earlier than the previous answer)"})
            U.prove(f"{nm}.dt_kept", P, to_z3(obj.attrs["dt"]) == dt)
            U.prove(f"{nm}.t_start_kept", P, z3.BoolVal(obj.attrs["t_start"] is None) if ts is None else to_z3(obj.attrs["t_start"]) == ts)
            U.cover(f"{nm}.cover", P + [dt > 0])
        U.prove(f"Constant.__init__[{tag0}].some_periods_are_accepted", [], z3.BoolVal(n_ret > 0))


def _const_next(U, clsname, tag):
    """next(t) of ConstantInterrupts / LogarithmicInterrupts from an arbitrary lattice state"""
    log = clsname == "LogarithmicInterrupts"

    def body(it):
        ctx = it.ctx
        dt, t, t0, factor = z3.Real("dt"), z3.Real("t"), z3.Real("t0"), z3.Real("factor")
        k = z3.Int("k")
        ctx.assume(dt > 0)
        ctx.assume(k >= 0)
        cls = _cls(it, clsname)
        obj = Instance(cls, {"dt": dt, "t_start": None, "_t_next": t0 + z3.ToReal(k) * dt})
        if log:
            ctx.assume(factor >= 1)
            obj.attrs["factor"] = factor
            obj.attrs["dt_initial"] = z3.Real("dt_initial")
            # lattice invariant of the logarithmic schedule is only "last answer = prev"
            obj.attrs["_t_next"] = z3.Real("prev")
        r = it.call(it.getattr(obj, "next"), [t], {})
        return obj, r, dt, t, t0, k, factor

    for p, res in enumerate(explore_paths(U, body)):
        nm = f"{tag}.next.path{p}"
        P = prem_of(res.ctx)
        if res.outcome != "return":
            U.prove(f"{nm}.returns_normally", P, z3.BoolVal(False))
            continue
        obj, r, dt, t, t0, k, factor = res.value
        r = to_z3(r)
        step = dt * factor if log else dt
        prev = z3.Real("prev") if log else t0 + z3.ToReal(k) * dt
        first = prev + step
        n = z3.If(first <= t, ceil_real((t - first) / step), z3.IntVal(0))
        U.prove(f"{nm}.answer>=t", P, r >= t)
        U.prove(f"{nm}.answer>previous", P, r > prev)
        U.prove(f"{nm}.answer_on_lattice", P, r == prev + z3.ToReal(1 + n) * step, info={"witness": "k' = k + 1 + ceil((t - prev - dt)/dt)"})
        U.prove(f"{nm}.lattice_index_increases", P, n >= 0)
        U.prove(f"{nm}.answer_is_first_admissible_lattice_point", P, z3.Or(r == first, r - step < t))
        U.prove(f"{nm}.state_t_next==answer", P, to_z3(obj.attrs["_t_next"]) == r)
        U.prove(f"{nm}.dt_update", P, to_z3(obj.attrs["dt"]) == step)
        if log:
            # ghost: the previous gap was (1 + m) * dt for some m >= 0 (m skipped lattice points); the statement (and the class
            # docstring: "ensures ever increasing durations") asks for growing gaps
            m = z3.Int("skipped_before")
            last_gap = z3.ToReal(1 + m) * dt
            U.prove(f"{nm}.gap_does_not_shrink", P + [m >= 0], r - prev >= last_gap,
                    info={"witness": "queries 0, 10, 10, 10 with dt_initial=1, factor=2: answers 0, 10, 12, 16 (gaps 10, 2, 4)", "replay_payload": {"gaps": True}})
        U.cover(f"{nm}.cover", P)
    U.assume_note("the float guard `if self._t_next < t` is unreachable in real arithmetic (proved: every path through it is infeasible or harmless)")


def constant_next(U):
    _const_next(U, "ConstantInterrupts", "Constant")


def logarithmic_next(U):
    _const_next(U, "LogarithmicInterrupts", "Logarithmic")


def logarithmic_init(U):
    def body(it):
        d0, f = z3.Real("dt_initial"), z3.Real("factor")
        it.ctx.assume(d0 > 0)
        it.ctx.assume(f >= 1)
        obj = it.instantiate(_cls(it, "LogarithmicInterrupts"), [d0, f], {})
        return obj, d0, f

    for p, res in enumerate(explore_paths(U, body)):
        P = prem_of(res.ctx)
        if res.outcome != "return":
            U.prove(f"Logarithmic.__init__.path{p}.returns_normally", P, z3.BoolVal(False))
            continue
        obj, d0, f = res.value
        U.prove(f"Logarithmic.__init__.path{p}.first_gap_will_be_dt_initial", P, to_z3(obj.attrs["dt"]) * f == d0)
        U.prove(f"Logarithmic.__init__.path{p}.factor_kept", P, to_z3(obj.attrs["factor"]) == f)


# ------------------------------------------------------------------ FixedInterrupts
class _Seq:
    """the 1-d array of interrupt times: symbolic length L, strictly increasing, IndexError modelled"""

    def __init__(self, it):
        self.it = it
        self.L = z3.Int("L")
        self.a = z3.Function("a", z3.IntSort(), z3.RealSort())
        it.ctx.assume(self.L >= 0)
        i, j = z3.Int("i_"), z3.Int("j_")
        self.increasing = z3.ForAll([i, j], z3.Implies(z3.And(0 <= i, i < j, j < self.L), self.a(i) < self.a(j)))
        it.ctx.assume(self.increasing)

    def getitem(self, idx):
        ctx = self.it.ctx
        idx = to_z3(idx)
        # numpy: negative indices wrap; the code only uses indices >= 0 here (obligation below)
        if ctx.branch(z3.And(idx >= 0, idx < self.L)):
            return self.a(idx)
        if ctx.branch(idx >= self.L):
            raise PyRaise("IndexError", ("index out of bounds",))
        # negative index: wraps around in numpy -- must not happen
        ctx.prove("Fixed.index_never_negative", z3.BoolVal(False))
        raise PyRaise("IndexError", ("negative",))

    def instance(self):
        return Instance(None, {"__getitem__": self.getitem, "ndim": 1}, name="interrupts")


def fixed_next(U):
    """next(t) from an arbitrary state: _index = idx (>= -1; idx >= 0 means a[idx] was the last answer)"""

    def body(it):
        ctx = it.ctx
        seq = _Seq(it)
        idx, t = z3.Int("idx"), z3.Real("t")
        ctx.assume(idx >= -1)
        obj = Instance(_cls(it, "FixedInterrupts"), {"interrupts": seq.instance(), "_index": idx})
        idx_entry = {}

        def inv(interp, fr):
            cur = to_z3(obj.attrs["_index"])
            tn = to_z3(fr.locals["t_next"])
            j = z3.Int("j__")
            return z3.And(cur > idx, cur < seq.L, tn == seq.a(cur),
                          z3.ForAll([j], z3.Implies(z3.And(idx < j, j < cur), seq.a(j) < t)))

        def havoc(interp, fr):
            obj.attrs["_index"] = z3.Int(fresh_name("index"))
            fr.locals["t_next"] = z3.Real(fresh_name("t_next"))

        it.loop_specs[("FixedInterrupts.next", 1)] = LoopSpec(inv, havoc, "Fixed.next.loop")
        r = it.call(it.getattr(obj, "next"), [t], {})
        return obj, r, seq, idx, t

    n_ret = 0
    for p, res in enumerate(explore_paths(U, body)):
        P = prem_of(res.ctx)
        nm = f"Fixed.next.path{p}"
        if res.outcome == "cut":
            continue
        if res.outcome != "return":
            U.prove(f"{nm}.returns_normally", P, z3.BoolVal(False), info={"exc": str(res.exc)})
            continue
        n_ret += 1
        obj, r, seq, idx, t = res.value
        cur = to_z3(obj.attrs["_index"])
        j = z3.Int("j__")
        if isinstance(r, Inf):
            # exhausted: no element after the previous answer is >= t, and the state stays exhausted
            U.prove(f"{nm}.inf_only_when_exhausted", P, z3.ForAll([j], z3.Implies(z3.And(idx < j, j < seq.L), seq.a(j) < t)))
            U.prove(f"{nm}.stays_exhausted", P, cur >= seq.L)
            U.prove(f"{nm}.inf_is_positive", P, z3.BoolVal(r.sign > 0))
        else:
            r = to_z3(r)
            U.prove(f"{nm}.answer_is_list_element_after_previous", P, z3.And(cur > idx, cur < seq.L, r == seq.a(cur)))
            U.prove(f"{nm}.answer>=t", P, r >= t)
            U.prove(f"{nm}.answer>previous", P, z3.Implies(idx >= 0, r > seq.a(idx)))
            U.prove(f"{nm}.skipped_elements_have_passed", P, z3.ForAll([j], z3.Implies(z3.And(idx < j, j < cur), seq.a(j) < t)))
        U.cover(f"{nm}.cover", P)
    U.prove("Fixed.next.some_path_returns", [], z3.BoolVal(n_ret >= 2))


def fixed_exhausted(U):
    """once exhausted (index >= L) every further query answers +inf and stays exhausted"""

    def body(it):
        seq = _Seq(it)
        idx, t = z3.Int("idx"), z3.Real("t")
        it.ctx.assume(idx >= seq.L)
        obj = Instance(_cls(it, "FixedInterrupts"), {"interrupts": seq.instance(), "_index": idx})
        r = it.call(it.getattr(obj, "next"), [t], {})
        return obj, r, seq

    for p, res in enumerate(explore_paths(U, body)):
        P = prem_of(res.ctx)
        if res.outcome != "return":
            U.prove(f"Fixed.exhausted.path{p}.returns_normally", P, z3.BoolVal(False))
            continue
        obj, r, seq = res.value
        U.prove(f"Fixed.exhausted.path{p}.answers_inf", P, z3.BoolVal(isinstance(r, Inf) and r.sign > 0))
        U.prove(f"Fixed.exhausted.path{p}.stays_exhausted", P, to_z3(obj.attrs["_index"]) >= seq.L)


def fixed_initialize(U):
    def body(it):
        seq = _Seq(it)
        t = z3.Real("t")
        # the object may have been used before (a tracker object used for a second run): any earlier position
        obj = Instance(_cls(it, "FixedInterrupts"), {"interrupts": seq.instance(), "_index": z3.Int("position_left_by_an_earlier_run")})
        calls = []

        def next_(interp, args, kw):
            idx = args[0].attrs.get("_index")
            calls.append((to_z3(idx) if idx is not None else None, args[1]))
            return z3.Real("next_result")

        it.contracts[(MOD, "FixedInterrupts.next")] = next_
        r = it.call(it.getattr(obj, "initialize"), [t], {})
        return r, calls, t

    for p, res in enumerate(explore_paths(U, body)):
        P = prem_of(res.ctx)
        if res.outcome != "return":
            U.prove(f"Fixed.initialize.path{p}.returns_normally", P, z3.BoolVal(False), info={"exc": str(res.exc)})
            continue
        r, calls, t = res.value
        ok = len(calls) == 1 and calls[0][0] is not None
        U.prove(f"Fixed.initialize.path{p}.is_next_from_the_start_of_the_list_(index_-1)_whatever_happened_before", P,
                z3.And(calls[0][0] == -1, to_z3(calls[0][1]) == t, to_z3(r) == z3.Real("next_result")) if ok else z3.BoolVal(False))


# ------------------------------------------------------------------ GeometricInterrupts
def geometric(U):
    from ..values import LOG_FN, POW_FN, SQRT_FN

    for first in (True, False):
        def body(it, first=first):
            ctx = it.ctx
            scale, factor, t, prev = z3.Real("scale"), z3.Real("factor"), z3.Real("t"), z3.Real("prev")
            ctx.assume(scale > 0)
            ctx.assume(factor > 1)
            ctx.assume(t > 0)
            obj = Instance(_cls(it, "GeometricInterrupts"), {"scale": scale, "factor": factor, "_t_next": None if first else prev})
            if not first:
                ctx.assume(prev > 0)
            r = it.call(it.getattr(obj, "next"), [t], {})
            return obj, r, scale, factor, t, prev

        for p, res in enumerate(explore_paths(U, body)):
            P = prem_of(res.ctx)
            nm = f"Geometric.next[{'first' if first else 'later'}].path{p}"
            if res.outcome != "return":
                U.prove(f"{nm}.returns_normally", P, z3.BoolVal(False))
                continue
            obj, r, scale, factor, t, prev = res.value
            r = to_z3(r)
            # the answer has the syntactic form scale * pow(factor, e) with e integer valued
            e = z3.Real("e")
            x, y = z3.Real("x"), z3.Real("y")
            half = z3.RealVal(Fraction(1, 2))
            axioms = [
                # pow with base > 1 is positive, strictly monotone in the exponent, inverse of log_factor
                z3.ForAll([x, y], z3.Implies(z3.And(factor > 1, x <= y), POW_FN(factor, x) <= POW_FN(factor, y))),
                z3.ForAll([x], z3.Implies(x > 0, POW_FN(factor, LOG_FN(x) / LOG_FN(factor)) == x)),
                SQRT_FN(factor) > 1, POW_FN(factor, -half) > 0, LOG_FN(factor) > 0,
            ]
            # ground instances of the axioms at the terms the code builds
            mid = scale * POW_FN(factor, -half) if first else prev * SQRT_FN(factor)
            tmin = z3.If(t >= mid, t, mid)
            i_term = LOG_FN(tmin / scale) / LOG_FN(factor)
            pows = [s_ for s_ in _subterms(r) if z3.is_app(s_) and s_.decl().name() == "pow" and s_.children()[0].eq(factor)
                    and not s_.children()[1].eq(half) and not s_.children()[1].eq(-half)]
            ground = list(axioms[2:]) + [z3.Implies(tmin / scale > 0, POW_FN(factor, i_term) == tmin / scale)]
            for pw in pows:
                ground.append(z3.Implies(i_term <= pw.children()[1], POW_FN(factor, i_term) <= pw))
            U.prove(f"{nm}.answer>=t_min", P + ground, r >= tmin)
            U.prove(f"{nm}.answer>=t", [r >= tmin], r >= t)
            if not first:
                U.prove(f"{nm}.previous*sqrt(factor)>previous", [prev > 0, SQRT_FN(factor) > 1], mid > prev)
                U.prove(f"{nm}.answer>previous", [r >= tmin, mid > prev], r > prev)
            U.prove(f"{nm}.state_t_next==answer", P, to_z3(obj.attrs["_t_next"]) == r)
            # membership: r = scale * pow(factor, ceil(...)): find the exponent and show it is integer valued
            ok = False
            if z3.is_mul(r) or True:
                for sub in _subterms(r):
                    if z3.is_app(sub) and sub.decl().name() == "pow" and sub.children()[0].eq(factor):
                        ex = sub.children()[1]
                        U.prove(f"{nm}.exponent_is_integer", P, z3.ToReal(z3.ToInt(ex)) == ex)
                        U.prove(f"{nm}.answer==scale*factor^k", P, r == scale * sub)
                        ok = True
                        break
            U.prove(f"{nm}.answer_has_power_form", [], z3.BoolVal(ok))
            U.cover(f"{nm}.cover", P)
    U.assume_note("axioms: pow(f, .) monotone for f > 1, pow(f, log(x)/log(f)) = x for x > 0, sqrt(f) > 1, f^(-1/2) > 0, log(f) > 0 (properties of the real power / log functions for f > 1)")


def geometric_init(U):
    """GeometricInterrupts.__init__: the precondition `scale > 0, factor > 1` of the `next` contract is established by the
    constructor itself -- whatever it accepts defines a strictly increasing schedule scale*factor^k (for 0 < factor <= 1 or
    scale <= 0 the sequence is not increasing and `next` answers times that are earlier than the query or repeat)"""
    def body(it):
        scale, factor = z3.Real("scale"), z3.Real("factor")
        obj = it.instantiate(_cls(it, "GeometricInterrupts"), [scale, factor], {})
        return obj, scale, factor

    n_ret = 0
    for p, res in enumerate(explore_paths(U, body)):
        P = prem_of(res.ctx)
        scale, factor = z3.Real("scale"), z3.Real("factor")
        if res.outcome != "return":
            U.prove(f"Geometric.__init__.path{p}.rejects_only_parameters_without_an_increasing_schedule", P,
                    z3.Not(z3.And(scale > 0, factor > 1)), info={"exc": str(res.exc)})
            continue
        n_ret += 1
        obj, scale, factor = res.value
        U.prove(f"Geometric.__init__.path{p}.accepted_factor>1_(schedule_scale*factor^k_increases)", P, factor > 1)
        U.prove(f"Geometric.__init__.path{p}.accepted_scale>0", P, scale > 0)
        U.prove(f"Geometric.__init__.path{p}.parameters_kept", P,
                z3.And(to_z3(obj.attrs["scale"]) == scale, to_z3(obj.attrs["factor"]) == factor))
        U.prove(f"Geometric.__init__.path{p}.no_previous_answer_yet", P, z3.BoolVal(obj.attrs.get("_t_next", 0) is None))
        U.cover(f"Geometric.__init__.path{p}.cover", P + [scale > 0, factor > 1])
    U.prove("Geometric.__init__.some_parameters_are_accepted", [], z3.BoolVal(n_ret > 0))


def _subterms(t):
    seen, todo = set(), [t]
    while todo:
        x = todo.pop()
        if x.get_id() in seen:
            continue
        seen.add(x.get_id())
        yield x
        todo.extend(x.children())


def parse_interrupt_dispatch(U):
    """parse_interrupt maps numbers to ConstantInterrupts(dt) and sequences to FixedInterrupts"""
    def body(it):
        f = it.get_function(MOD, "parse_interrupt")
        dt = z3.Real("dt")
        r = it.call(f, [dt], {})
        return r, dt

    for p, res in enumerate(explore_paths(U, body)):
        P = prem_of(res.ctx)
        if res.outcome != "return":
            # a number that is a usable period (dt > 0) is never rejected; dt <= 0 has no schedule and may raise
            U.prove(f"parse_interrupt[number].path{p}.raises_only_for_non_positive_numbers", P, z3.Not(z3.Real("dt") > 0), info={"exc": str(res.exc)})
            continue
        r, dt = res.value
        ok = isinstance(r, Instance) and r.cls is not None and r.cls.name == "ConstantInterrupts"
        U.prove(f"parse_interrupt[number].path{p}.is_ConstantInterrupts", P, z3.BoolVal(ok))
        if ok:
            U.prove(f"parse_interrupt[number].path{p}.dt_kept", P, to_z3(r.attrs["dt"]) == dt)


def fixed_init_unit(U):
    """FixedInterrupts.__init__ / copy: the schedule object holds exactly the given times in the given order (a single
    number becomes a one-element list), copies hold the same times in their own array"""
    from ..arrays import NDArr

    def body(it):
        cls = _cls(it, "FixedInterrupts")
        a = [z3.Real(f"a{i}") for i in range(3)]
        lst = it.instantiate(cls, [list(a)], {})
        single = it.instantiate(cls, [a[0]], {})
        cp = it.call(it.getattr(lst, "copy"), [], {})
        return a, lst, single, cp

    for p, res in enumerate(explore_paths(U, body)):
        P = prem_of(res.ctx)
        if res.outcome != "return":
            U.prove(f"Fixed.__init__.path{p}.returns_normally", P, z3.BoolVal(False), info={"exc": str(res.exc)})
            continue
        a, lst, single, cp = res.value
        for name, obj, want in (("list", lst, a), ("single_number", single, a[:1]), ("copy", cp, a)):
            arr = obj.attrs.get("interrupts")
            ok = isinstance(arr, NDArr) and arr.ndim == 1 and arr.shape[0] == len(want)
            U.prove(f"Fixed.__init__.path{p}.{name}.holds_the_given_times_in_order", P,
                    z3.And(z3.BoolVal(bool(ok)), *[to_z3(arr.read((i,))) == want[i] for i in range(len(want))]) if ok else z3.BoolVal(False))
        U.prove(f"Fixed.__init__.path{p}.copy_has_its_own_array", P, z3.BoolVal(cp.attrs["interrupts"].buf is not lst.attrs["interrupts"].buf))


UNITS = [
    ("Constant.__init__", constant_init),
    ("Constant.initialize", constant_initialize),
    ("Constant.next", constant_next),
    ("Logarithmic.__init__", logarithmic_init),
    ("Logarithmic.next", logarithmic_next),
    ("Fixed.__init__", fixed_init_unit),
    ("Fixed.initialize", fixed_initialize),
    ("Fixed.next", fixed_next),
    ("Fixed.exhausted", fixed_exhausted),
    ("Geometric.__init__", geometric_init),
    ("Geometric.next", geometric),
    ("parse_interrupt", parse_interrupt_dispatch),
]

TRUSTED = ["ghost lattice index k and the witness k' = k+1+ceil(..) are contract-side terms; ceil/floor exact over ToInt"]
ASSUMPTIONS = [
    "FixedInterrupts: the given list is strictly increasing (precondition from the statement)",
    "ConstantInterrupts/LogarithmicInterrupts initialize/next: dt > 0 (established by the constructor, unit Constant.__init__); Logarithmic: factor >= 1 (statement: growing gaps)",
    "GeometricInterrupts.next: scale > 0, factor > 1 (established by the constructor, unit Geometric.__init__), queries t > 0; power/log axioms as listed",
    "queries need not be monotone for the proved clauses; 'up to round-off' is exact in real arithmetic",
]
NOT_COVERED = ["RealtimeInterrupts (wall clock; the statement says deterministic types)"]


def bounded(tier, seed):
    """bounded stand-in (NOT counted as proved): the real classes on random schedules / query sequences"""
    from ..runner import native

    n = 150 if tier == "quick" else 3000
    res = native("interrupts.py", {"seed": seed, "n": n})
    if not res.get("ok"):
        raise RuntimeError(f"native driver failed: {res}")
    return [{"name": "interrupt_classes_vs_reference", "bound": f"{n} random schedules per class, 3-8 queries each (on / just after / far beyond scheduled times)",
             "cases": res["cases"], "failures": res["failures"]}]
