"""C18 -- Poisson/Laplace solvers return solutions of the discrete problem (DESIGN.md §4, C18).

(M) for every grid class the assembled sparse system satisfies, entry by entry and for all sizes,
    (M u + v)_row = Laplace-stencil( pad(u) with virtual points given by the boundary conditions )_row ,
    where a boundary condition enters through the contract of `get_sparse_matrix_data`:
    virtual point = const + f1*u[k1] (+ f2*u[k2]) with arbitrary const, f1, f2 (per face cell) and
    arbitrary distinct columns k1, k2 -- this covers value, derivative, mixed, curvature and periodic
    conditions, homogeneous or not, on both sides of every axis (incl. the inner boundary of annuli);
(S) `solve_poisson` returns normally only along paths on which np.allclose(mat.dot(result), rhs) was
    evaluated on the returned vector and came out true; every other path raises RuntimeError.  Nothing is
    assumed about spsolve / lsmr (they return arbitrary vectors or raise MatrixRankWarning).
"""

from __future__ import annotations

import os

# the entry obligation of the 3-d Cartesian matrix nests more than 48 undecided If conditions along one proof path
# (three axes x both sides x row / column position): the case-splitting normal-form prover needs a deeper budget here
os.environ.setdefault("PDV_RATNF_DEPTH", "400")

from fractions import Fraction

import z3

from ..arrays import NDArr, fresh_array, sym_array
from ..ctx import PyRaise
from ..objects import Instance
from ..specs import operators as S
from ..values import Opaque, Unsupported, fresh_name, to_z3
from .common import CellGeom, FlatIndex, SymGrid, explore_paths, prem_of

PROPERTY = "C18"

MODULES = {
    "cartesian": "pde.backends.scipy.operators.cartesian",
    "polar": "pde.backends.scipy.operators.polar_sym",
    "spherical": "pde.backends.scipy.operators.spherical_sym",
    "cylindrical": "pde.backends.scipy.operators.cylindrical_sym",
}


class SymBC:
    """contract of one side of one axis: virtual point = const(b) + f1(b) u[k1, b] (+ f2(b) u[k2, b])"""

    def __init__(self, g: SymGrid, axis, upper, kind, tag):
        """kind: 'adjacent' (value / derivative / mixed: one entry, the adjacent cell), 'periodic' (one
        entry, the cell at the opposite end), 'second' (curvature: the two cells next to the boundary) --
        the index structure returned by get_virtual_point_data of the boundary-condition classes"""
        order = 2 if kind == "second" else 1
        self.kind = kind
        self.g, self.axis, self.upper, self.order = g, axis, upper, order
        nb = g.num_axes - 1
        sorts = [z3.IntSort()] * nb + [z3.RealSort()]
        mk = (lambda n: z3.Function(f"{n}_{tag}", *sorts)) if nb else (lambda n: (lambda *a, c=z3.Real(f"{n}_{tag}"): c))
        self.const, self.f1, self.f2 = mk("const"), mk("f1"), mk("f2")
        self.k1, self.k2 = z3.Int(f"k1_{tag}"), z3.Int(f"k2_{tag}")
        N = g.N[axis]
        near, far = (N - 1, 0) if upper else (0, N - 1)
        second = N - 2 if upper else 1
        if kind == "periodic":
            self.facts = [self.k1 == far]
        else:
            self.facts = [self.k1 == near]
        if order == 2:
            self.facts += [self.k2 == second]

    def data(self, idx):
        """get_sparse_matrix_data(idx)"""
        b = [to_z3(x) for a, x in enumerate(idx) if a != self.axis]
        entries = {self.k1: self.f1(*b)}
        if self.order == 2:
            entries[self.k2] = self.f2(*b)
        return (self.const(*b), entries)

    def ghost(self, U, cell, with_const=True):
        """virtual point next to the face cell ``cell`` (index tuple whose `axis` entry is ignored)"""
        b = [to_z3(x) for a, x in enumerate(cell) if a != self.axis]

        def at(k):
            c = list(cell)
            c[self.axis] = k
            return U(*c)

        v = self.f1(*b) * at(self.k1)
        if self.order == 2:
            v = v + self.f2(*b) * at(self.k2)
        if with_const:
            v = v + self.const(*b)
        return v


def _bcs_stub(g, sides):
    """BoundariesList as far as the matrix builders use it: grid, iteration / indexing over axes"""
    axes = []
    for a in range(g.num_axes):
        lo, hi = sides[a]

        def gsm(idx, lo=lo, hi=hi, a=a):
            # the side is identified by the entry of idx for this axis: -1 (low) or N (high)
            e = idx[a]
            from ..values import concrete
            if concrete(e) == -1:
                return lo.data(idx)
            return hi.data(idx)

        axes.append(Instance(None, {"get_sparse_matrix_data": gsm, "low": lo, "high": hi}, name=f"BoundaryAxis{a}"))
    grid = g.instance()
    return Instance(None, {"grid": grid, "__getitem__": lambda k: axes[k], "__iter__": lambda: list(axes),
                           "check_value_rank": lambda r: None, "__isinstance__": ("BoundariesList",)}, name="BoundariesList<sym>")


def matrix_unit(kind, dim, orders, hole=None):
    """orders: per axis (kind_low, kind_high) with kinds 'adjacent' | 'periodic' | 'second'"""
    num_axes = dim if kind == "cartesian" else S.grid_layout(kind)[0]
    fn_name = {1: "_get_laplace_matrix_1d", 2: "_get_laplace_matrix_2d", 3: "_get_laplace_matrix_3d"}[dim] if kind == "cartesian" else "_get_laplace_matrix"

    def unit(U):
        it = U.interp()
        ctx = it.ctx
        g = SymGrid(kind, num_axes)
        for f in g.facts:
            ctx.assume(f)
        for a in range(num_axes):
            ctx.assume(g.N[a] >= 2)  # the statement: grids with at least two cells per axis
        if kind != "cartesian":
            # per-cell abstraction plus the two facts the builders use about the first cell
            if hole:
                ctx.assume(g.lo[0] > 0)
            else:
                ctx.assume(g.lo[0] == 0)
            ctx.assume(g.coord(0, 0) == g.lo[0] + g.h[0] / 2)
        sides = []
        for a in range(num_axes):
            lo = SymBC(g, a, False, orders[a][0], f"a{a}lo")
            hi = SymBC(g, a, True, orders[a][1], f"a{a}hi")
            for f in lo.facts + hi.facts:
                ctx.assume(f)
            sides.append((lo, hi))
        if kind != "cartesian" and not hole:
            # regularity at r = 0: the virtual point mirrors the first cell (homogeneous Neumann)
            lo = sides[0][0]
            ctx.assume(lo.k1 == 0)
        bcs = _bcs_stub(g, sides)
        flat = FlatIndex(ctx, g.N) if num_axes > 1 else None
        func = it.get_function(MODULES[kind], fn_name)
        if flat is not None:
            def override(real_fn, flat=flat):
                # the closure found in the source must be the row-major flattening
                args = [z3.Int(fresh_name("a")) for _ in range(num_axes)]
                real = it.call_function(real_fn, args, {})
                U.prove("flat_index_is_row_major", list(ctx.assumptions), to_z3(real) == flat.real_formula(args))
                return flat
            it.local_def_overrides[(fn_name, "i")] = override
        if kind == "spherical":
            # rl = r_min + dr*arange, rs = centres: tie the per-cell abstraction to the shell radii used here
            pass
        matrix, vector = it.call(func, [bcs], {})
        U.absorb(it)
        prem = list(ctx.assumptions) + list(ctx.pc)
        row = [z3.Int(f"x{a}") for a in range(num_axes)]
        col = [z3.Int(f"y{a}") for a in range(num_axes)]
        for a in range(num_axes):
            prem += [row[a] >= 0, row[a] < g.N[a], col[a] >= 0, col[a] < g.N[a]]
        prem += g.cell_facts(row)
        if kind != "cartesian":
            # consecutive centres differ by h (GridInv); needed because the spherical builder computes
            # shell radii as r_min + dr*k while the specification uses centre +- h/2
            kk = z3.Int("k")
            rules = [z3.ForAll([kk], g.coord_fn[0](kk) == g.lo[0] + (z3.ToReal(kk) + Fraction(1, 2)) * g.h[0])]
            for kv in (row[0], z3.IntVal(0), g.N[0] - 1):
                prem += [g.coord(0, kv) == g.lo[0] + (z3.ToReal(kv) + Fraction(1, 2)) * g.h[0]]
        else:
            rules = []
        geom = CellGeom(g.h, r=g.coord(0, row[0]) if kind != "cartesian" else None)
        conservative = kind == "spherical"

        def spec_row(Ufun, with_const):
            def P(cell):
                """padded field: valid cells, or the virtual point of the boundary condition"""
                val = Ufun(*cell)
                for a in range(num_axes):
                    lo, hi = sides[a]
                    val = z3.If(cell[a] == -1, lo.ghost(Ufun, cell, with_const),
                                z3.If(cell[a] == g.N[a], hi.ghost(Ufun, cell, with_const), val))
                return val

            def u(comp, off):
                return P([row[a] + off[a] for a in range(num_axes)])

            return S.operator_spec(kind, "laplace", u, geom, dim=dim, conservative=conservative)[()]

        # coefficient of u[col] in row `row`: apply the specification to the indicator of `col`
        def indicator(*cell):
            return z3.If(z3.And(*[to_z3(cell[a]) == col[a] for a in range(num_axes)]), z3.RealVal(1), z3.RealVal(0))

        def zero(*cell):
            return z3.RealVal(0)

        ridx = flat.spec(*row) if flat else row[0]
        cidx = flat.spec(*col) if flat else col[0]
        got = to_z3(matrix.read((ridx, cidx)))
        gotv = to_z3(vector.read((ridx, 0)))
        # facts instantiated while reading (inverse axioms of the flattening) are premises as well
        prem = list(ctx.assumptions) + [p for p in prem if not any(p.eq(a) for a in ctx.assumptions)]
        U.prove("matrix_entry==stencil_coefficient", prem, got == spec_row(indicator, False),
                info={"kind": "M", "prefer": "ratnf", "ratnf_rules": rules, "replay_payload": dict(kind=kind, dim=dim, orders=orders, hole=hole)})
        U.prove("vector_entry==stencil_constant", prem, gotv == spec_row(zero, True),
                info={"kind": "M", "prefer": "ratnf", "ratnf_rules": rules, "replay_payload": dict(kind=kind, dim=dim, orders=orders, hole=hole)})
        if flat is not None:
            claims = [z3.Implies(z3.And(*pc), gd) if pc else gd for pc, gd in flat.range_obligations]
            U.prove("flattened_indices_in_range", list(ctx.assumptions), z3.And(*claims))
        U.cover("pre.cover", prem)
        pin = [h == 1 for h in g.h] + [n == 4 for n in g.N] + [r == 1 for r in row] + [c == 1 for c in col]
        U.cover("canary.spec_perturbed", prem + pin, got != spec_row(indicator, False) + 1)
        U.assume_note("contract of get_sparse_matrix_data (virtual point = const + sum factor*u[column]) is proved against the boundary-condition classes in C02")
        U.assume_note("default configuration operators.conservative_stencil=True (the spherical matrix is the conservative flux form)")

    return unit


# ------------------------------------------------------------------ (S) solve_poisson
def solver_unit(U):
    from ..ctx import Explorer

    log = {}

    def run(ctx):
        from ..interp import Interp
        it = Interp(ctx)
        U.interps.append(it)
        n = z3.Int("n")
        ctx.assume(n >= 1)
        checks = []  # (vector name, Bool result of allclose on it)

        def vec(name):
            return sym_array(fresh_name(name), (n,))

        mat = Instance(None, {"dot": lambda x: ("matdot", x)}, name="csc_matrix")
        matrix = Instance(None, {"tocsc": lambda: mat}, name="dok_matrix")
        vector = Instance(None, {"toarray": lambda: sym_array("vec2d", (n, 1))}, name="dok_vector")

        def spsolve(m, rhs):
            if ctx.branch(z3.Bool(fresh_name("spsolve_rank_warning"))):
                raise PyRaise("MatrixRankWarning")
            return vec("spsolve_result")

        def lsmr(m, rhs):
            return (vec("lsmr_result"), Opaque("istop"))

        def allclose(a, b, rtol=None, atol=None):
            assert isinstance(a, tuple) and a[0] == "matdot", "allclose must be applied to mat.dot(result)"
            r = z3.Bool(fresh_name("allclose"))
            checks.append((a[1], b, r, rtol, atol))
            return r

        linalg = Instance(None, {"spsolve": spsolve, "lsmr": lsmr, "MatrixRankWarning": Opaque("MatrixRankWarning")}, name="linalg")
        np_ = it.stub_modules["numpy"].attrs
        np_["allclose"] = allclose
        np_["ravel"] = lambda a: a if a.ndim == 1 else (_ for _ in ()).throw(Unsupported("ravel"))
        np_["linalg"] = Instance(None, {"norm": lambda x: Opaque("norm")}, name="np.linalg")
        it.stub_modules["scipy"].attrs["sparse"].attrs["linalg"] = linalg
        it.stub_modules["scipy.sparse.linalg"] = type(it.stub_modules["scipy"])("scipy.sparse.linalg", {"MatrixRankWarning": Opaque("MatrixRankWarning")})
        it.binop_hooks = None
        factory = it.get_function("pde.backends.scipy.operators.common", "make_general_poisson_solver")
        solve = it.call(factory, [matrix, vector, "auto"], {})
        arr = sym_array("rhs_field", (n,))
        out = sym_array("out", (n,))
        log["it"] = it
        it.call(solve, [arr, out], {})
        return (out, checks, arr, n)

    ex = Explorer()
    # subtraction of a ("matdot", x) tuple only happens inside the error message; keep it opaque
    results = ex.explore(run)
    n_ret = n_raise = 0
    for k, res in enumerate(results):
        ctx = res.ctx
        prem = list(ctx.assumptions) + list(ctx.pc)
        if res.outcome == "raise":
            n_raise += 1
            U.prove(f"path{k}.only_RuntimeError_is_raised", prem, z3.BoolVal(res.exc.exc_type == "RuntimeError"),
                    info={"exception": res.exc.exc_type})
            # an error path must have seen a failed residual check of the last candidate
            continue
        n_ret += 1
        out, checks, arr, n = res.value
        j = z3.Int("j")
        ok = z3.BoolVal(False)
        for (cand, rhs, r, rtol, atol) in checks:
            # the returned field is the candidate of a check that evaluated true, with the documented tolerances
            same = to_z3(out.read((j,))) == to_z3(cand.read((j,)))
            tol_ok = (rtol == Fraction(1, 100000)) and (atol == Fraction(1, 100000))
            ok = z3.Or(ok, z3.And(r, same, z3.BoolVal(bool(tol_ok))))
        U.prove(f"path{k}.returned_field_passed_residual_check", prem + [j >= 0, j < n], ok)
    U.prove("some_path_returns", [], z3.BoolVal(n_ret >= 1))
    U.prove("some_path_raises", [], z3.BoolVal(n_raise >= 1))
    U.assume_note("np.allclose(mat.dot(x), rhs, 1e-5, 1e-5) true means the residual is within solver accuracy; mat.dot is SciPy's matrix-vector product")


def _units():
    units = []
    nonper = [(lo, hi) for lo in ("adjacent", "second") for hi in ("adjacent", "second")]
    cart = nonper + [("periodic", "periodic")]
    for d in (1, 2, 3):
        for o in cart:
            units.append((f"cartesian{d}.matrix[low={o[0]},high={o[1]}]", matrix_unit("cartesian", d, [o] * d)))
    # mixed assignments on different axes
    units.append(("cartesian2.matrix[x=(second,adjacent),y=periodic]", matrix_unit("cartesian", 2, [("second", "adjacent"), ("periodic", "periodic")])))
    units.append(("cartesian3.matrix[x=periodic,y=(adjacent,second),z=(second,second)]", matrix_unit("cartesian", 3, [("periodic", "periodic"), ("adjacent", "second"), ("second", "second")])))
    for kind in ("polar", "spherical"):
        for hole in (False, True):
            for o in nonper:
                if not hole and o[0] == "second":
                    continue
                units.append((f"{kind}.matrix[hole={hole},low={o[0]},high={o[1]}]", matrix_unit(kind, None, [o], hole)))
    for hole in (False, True):
        for o in nonper:
            if not hole and o[0] == "second":
                continue
            for oz in cart:
                units.append((f"cylindrical.matrix[hole={hole},r={o[0]}/{o[1]},z={oz[0]}/{oz[1]}]", matrix_unit("cylindrical", None, [o, oz], hole)))
    units.append(("common.solve_poisson", solver_unit))
    return units


def poisson_wrapper_unit(U):
    """pdes/laplace.py: solve_poisson_equation hands the caller's boundary conditions and right-hand side to the solver
    routine, returns exactly what the routine wrote, and NEVER returns when the routine failed (an unsolvable discrete
    problem must raise, whatever the magnitude of the right-hand side)"""
    from ..arrays import sym_array
    from ..ctx import PyRaise
    from ..objects import Instance
    from ..values import Opaque
    from .common import explore_paths, prem_of

    def body(it):
        n = z3.Int("n")
        it.ctx.assume(n >= 1)
        log = {}
        bc_token = Instance(None, {}, name="the caller's bc")
        bcs_obj = Instance(None, {}, name="BoundariesList")
        grid = Instance(None, {"get_boundary_conditions": lambda bc, **k: (log.setdefault("bc", bc), bcs_obj)[1]}, name="grid")
        rhs_data = sym_array("rhs", (n,))
        rhs = Instance(None, {"grid": grid, "data": rhs_data, "magnitude": z3.Real("rhs_magnitude")}, name="rhs field")
        solution = z3.Function("solution_written_by_the_solver", z3.IntSort(), z3.RealSort())

        def solver(a, out):
            log["solver_args"] = (a, out)
            if it.ctx.branch(z3.Bool("linear_solve_succeeds")):
                j = z3.Int("jj")
                from ..arrays import MapLayer
                out.buf.push(MapLayer(out.buf.content, [(j, 0, out.shape[0])], True, out.base_index((j,)), solution(j)))
                return None
            raise PyRaise("RuntimeError", ("solver did not converge / singular matrix",))

        def factory(bcs=None, **kw):
            log["factory_bcs"] = bcs
            return solver

        backend = Instance(None, {"get_operator_info": lambda g, name: (log.setdefault("op", (g, name)), Instance(None, {"factory": factory}, name="OperatorInfo"))[1]}, name="scipy backend")
        it.stub_names["get_backend"] = lambda *a, **k: backend
        made = []

        def ScalarField(g, label=None, **kw):
            f = Instance(None, {"grid": g, "label": label, "data": sym_array("result_buffer", (n,))}, name="result field")
            made.append(f)
            return f

        it.overrides["ScalarField"] = ScalarField
        r = it.call(it.get_function("pde.pdes.laplace", "solve_poisson_equation"), [rhs, bc_token], {"label": "lbl"})
        return r, log, made, rhs_data, bc_token, bcs_obj, grid, solution, n

    ok_paths = fail_paths = 0
    for p, res in enumerate(explore_paths(U, body)):
        P = prem_of(res.ctx)
        succeeded = z3.Bool("linear_solve_succeeds")
        nm = f"solve_poisson_equation.path{p}"
        if res.outcome == "raise":
            fail_paths += 1
            U.prove(f"{nm}.raises_only_when_the_linear_solve_failed", P, z3.And(z3.Not(succeeded), z3.BoolVal(res.exc.exc_type == "RuntimeError")))
            continue
        ok_paths += 1
        r, log, made, rhs_data, bc_token, bcs_obj, grid, solution, n = res.value
        U.prove(f"{nm}.returns_only_when_the_linear_solve_succeeded", P, succeeded,
                info={"witness": "a failed solve must never be turned into a returned field", "replay_payload": {"wrapper": "poisson"}})
        okw = len(made) == 1 and r is made[0] and log.get("bc") is bc_token and log.get("factory_bcs") is bcs_obj and log.get("op", (None, None))[0] is grid and log.get("op", (None, None))[1] == "poisson_solver"
        U.prove(f"{nm}.caller's_conditions_and_grid_reach_the_solver_factory", P, z3.BoolVal(bool(okw)))
        a, out = log.get("solver_args", (None, None))
        U.prove(f"{nm}.solver_gets_rhs_data_and_writes_into_the_returned_field", P, z3.BoolVal(a is not None and a.buf is rhs_data.buf and isinstance(r, Instance) and out.buf is r.attrs["data"].buf))
        j = z3.Int("j")
        if isinstance(r, Instance):
            U.prove(f"{nm}.returned_data_is_what_the_solver_wrote", P + [j >= 0, j < n], to_z3(r.attrs["data"].read((j,))) == solution(j))
    U.prove("solve_poisson_equation.both_outcomes_explored", [], z3.BoolVal(ok_paths >= 1 and fail_paths >= 1))


def axis_sparse_data_unit(axis, periodic):
    """the real BoundaryAxisBase.get_sparse_matrix_data (the per-axis dispatch the matrix builders call): a virtual point
    below / above the axis gets exactly what the lower / upper condition answers (so the sign of anti-periodic conditions
    and every other coefficient of the side conditions reach the matrix), an interior point is itself with weight 1"""
    def unit(U):
        def body(it):
            cls = it.module_attr(it.load_module("pde.grids.boundaries.axis"), "BoundaryAxisBase")
            N = [z3.Int("N0"), z3.Int("N1")]
            for n_ in N:
                it.ctx.assume(n_ >= 1)
            flags = [z3.Bool("periodic_other_axis"), z3.Bool("periodic_other_axis")]
            flags[axis] = periodic
            grid = Instance(None, {"shape": tuple(N), "periodic": flags, "num_axes": 2}, name="grid")
            answers = {}

            def side(name):
                def get(idx):
                    answers[name] = (Instance(None, {}, name=f"constant of the {name} condition"), Instance(None, {}, name=f"entries of the {name} condition"))
                    return answers[name]
                return Instance(None, {"get_sparse_matrix_data": get, "grid": grid, "axis": axis, "upper": name == "upper"}, name=f"{name} condition")

            ax = Instance(cls, {"low": side("lower"), "high": side("upper"), "grid": grid, "axis": axis})
            c, other = z3.Int("coordinate_along_the_axis"), z3.Int("coordinate_along_the_other_axis")
            it.ctx.assume(z3.And(c >= -1, c <= N[axis]))
            idx = (c, other) if axis == 0 else (other, c)
            r = it.call(it.getattr(ax, "get_sparse_matrix_data"), [idx], {})
            return r, answers, c, N

        n = 0
        for p, res in enumerate(explore_paths(U, body)):
            P = prem_of(res.ctx)
            nm = f"path{p}"
            if res.outcome != "return":
                U.prove(f"{nm}.returns_normally", P, z3.BoolVal(False), info={"exc": str(res.exc)})
                continue
            n += 1
            r, answers, c, N = res.value
            is_pair = isinstance(r, tuple) and len(r) == 2
            low_ans = is_pair and "lower" in answers and r[0] is answers["lower"][0] and r[1] is answers["lower"][1]
            up_ans = is_pair and "upper" in answers and r[0] is answers["upper"][0] and r[1] is answers["upper"][1]
            interior = is_pair and isinstance(r[1], dict) and len(r[1]) == 1 and not isinstance(r[0], Instance)
            U.prove(f"{nm}.point_below_the_axis_gets_the_answer_of_the_lower_condition", P + [c == -1], z3.BoolVal(bool(low_ans)))
            U.prove(f"{nm}.point_above_the_axis_gets_the_answer_of_the_upper_condition", P + [c == N[axis]], z3.BoolVal(bool(up_ans)))
            if interior:
                (k, v), = r[1].items()
                U.prove(f"{nm}.interior_point_is_itself_with_weight_1", P + [c >= 0, c < N[axis]], z3.And(to_z3(k) == c, to_z3(v) == 1, to_z3(r[0]) == 0))
            else:
                U.prove(f"{nm}.interior_point_is_itself_with_weight_1", P + [c >= 0, c < N[axis]], z3.BoolVal(False))
        U.prove("has_three_paths", [], z3.BoolVal(n >= 3))

    return unit


UNITS = _units() + [("wrapper.solve_poisson_equation", poisson_wrapper_unit)]
UNITS += [(f"BoundaryAxisBase.get_sparse_matrix_data[axis={a},periodic={p}]", axis_sparse_data_unit(a, p)) for a in (0, 1) for p in (False, True)]
# 3-d Cartesian assembly takes minutes per configuration: thorough tier only (quick tier: bounded native check)
THOROUGH_ONLY = {n for n, _ in UNITS if n.startswith("cartesian3.")}


# ------------------------------------------------------------------ replay and bounded stand-in (native)
def _configs():
    nonper = [(lo, hi) for lo in ("adjacent", "second") for hi in ("adjacent", "second")]
    out = []
    for d in (1, 2, 3):
        for o in nonper + [("periodic", "periodic")]:
            out.append(dict(kind="cartesian", dim=d, orders=[list(o)] * d, hole=None))
    out.append(dict(kind="cartesian", dim=3, orders=[["periodic", "periodic"], ["adjacent", "second"], ["second", "second"]], hole=None))
    for kind in ("polar", "spherical"):
        for hole in (False, True):
            for o in nonper:
                if not hole and o[0] == "second":
                    continue
                out.append(dict(kind=kind, dim=None, orders=[list(o)], hole=hole))
    for hole in (False, True):
        for o in nonper:
            if not hole and o[0] == "second":
                continue
            for oz in nonper + [("periodic", "periodic")]:
                out.append(dict(kind="cylindrical", dim=None, orders=[list(o), list(oz)], hole=hole))
    return out


def replay(o):
    """replay a refuted assembly obligation: solve_poisson_equation on concrete grids of the same class
    with boundary conditions of the same kinds, result fed back into field.laplace(bc)"""
    from ..runner import native

    cfg = (o.get("info") or {}).get("replay_payload")
    if not cfg:
        return {"reproduced": None, "note": "no native replay recipe for this obligation"}
    cfg = dict(cfg, orders=[list(x) for x in cfg["orders"]])
    res = native("poisson.py", {"configs": [cfg], "per_config": 8, "seed": 1})
    if not res.get("ok"):
        return {"reproduced": None, "error": res}
    if res["failures"]:
        return {"reproduced": True, "native": res["failures"][0]}
    return {"reproduced": False, "note": "native runs satisfied the residual check on 8 random instances"}


def bounded(tier, seed):
    from ..runner import native

    configs = _configs()
    per = 2 if tier == "quick" else 8
    res = native("poisson.py", {"configs": configs, "per_config": per, "seed": seed}, timeout=3000)
    if not res.get("ok"):
        raise RuntimeError(f"native driver failed: {res}")
    return [{"name": "solve_poisson_then_laplace", "bound": f"{len(configs)} grid/BC-kind configurations x {per} random instances (2..6 cells per axis, random rhs and BC constants); curvature conditions on every side of 2-d / 3-d Cartesian grids are not fed to the real solver (SuperLU of the installed scipy crashes the interpreter intermittently on them)",
             "cases": res["cases"], "reported_as_errors": res["reported_as_errors"], "ill_conditioned_skipped": res.get("ill_conditioned_skipped"),
             "configurations_skipped_superlu_crash": res.get("configurations_skipped_superlu_crash"), "failures": res["failures"]}]


TRUSTED = [
    "pdv/specs/operators.py Laplace stencils (conservative flux form on spherical grids = default configuration)",
    "contract of get_sparse_matrix_data: virtual point = const + f1*u[k1] (+ f2*u[k2]) with the index structure of get_virtual_point_data (adjacent / opposite / two adjacent cells)",
    "scipy.sparse.dok_matrix item get/set/+=/setdiag/*= modelled as a dense 2-d array of zeros; mat.dot = matrix-vector product",
    "row-major flattening abstracted as an injective constructor (proved to be the closure's formula; inverse axioms are true of div/mod)",
]
ASSUMPTIONS = [
    "np.allclose(mat.dot(x), rhs, rtol=1e-5, atol=1e-5) true is what 'to solver accuracy' means; nothing is assumed about spsolve/lsmr",
    "grids with r_min = 0: the inner condition is the regularity condition (virtual point = first cell)",
    "3-d Cartesian assembly is proved in the thorough tier only (minutes per configuration); the quick tier covers it by the bounded native check",
]
NOT_COVERED = ["make_laplace_from_matrix wrapper (trusted wrapper around mat.dot)", "solve_laplace_equation (two lines on top of solve_poisson_equation) and the operator lookup by name: bounded native check only"]
