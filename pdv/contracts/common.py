"""Shared predicates and symbolic stand-ins used by the contract modules (GridInv etc.)."""

from __future__ import annotations

from fractions import Fraction

import z3

from ..arrays import fresh_array, sym_array
from ..objects import Instance
from ..values import Opaque, fresh_name, to_z3

GRID_CLASS = {"cartesian": "CartesianGrid", "polar": "PolarSymGrid", "spherical": "SphericalSymGrid", "cylindrical": "CylindricalSymGrid"}
OP_MODULE = {
    "cartesian": "pde.backends.numba.operators.cartesian",
    "polar": "pde.backends.numba.operators.polar_sym",
    "spherical": "pde.backends.numba.operators.spherical_sym",
    "cylindrical": "pde.backends.numba.operators.cylindrical_sym",
}


class SymGrid:
    """symbolic grid satisfying GridInv in the per-cell abstraction (DESIGN §2.3):

    shape N_a >= 1, spacings h_a > 0, cell centres c_a(k) opaque with c_a(k+1) = c_a(k) + h_a made
    available on demand; for curvilinear grids r(k) >= h/2 (first centre is at r_min + h/2, r_min >= 0).
    """

    def __init__(self, kind, num_axes, tag=""):
        self.kind = kind
        self.num_axes = num_axes
        self.N = [z3.Int(f"N{a}{tag}") for a in range(num_axes)]
        self.h = [z3.Real(f"h{a}{tag}") for a in range(num_axes)]
        self.lo = [z3.Real(f"lo{a}{tag}") for a in range(num_axes)]
        self.coord_fn = [z3.Function(f"c{a}{tag}", z3.IntSort(), z3.RealSort()) for a in range(num_axes)]
        self.facts = []
        for a in range(num_axes):
            self.facts += [self.N[a] >= 1, self.h[a] > 0]
        if kind != "cartesian":
            self.facts.append(self.lo[0] >= 0)
        self.dim = {"cartesian": num_axes, "polar": 2, "spherical": 3, "cylindrical": 3}[kind]

    def coord(self, a, k):
        return self.coord_fn[a](to_z3(k))

    def cell_facts(self, idx):
        """facts about the cell with (0-based, valid) index idx"""
        f = []
        if self.kind != "cartesian":
            f.append(self.coord(0, idx[0]) >= self.h[0] / 2)
        return f

    def instance(self):
        disc = fresh_array("discretization", (self.num_axes,), lambda idx: _select(self.h, idx[0]))
        coords = tuple(
            fresh_array(f"axes_coords[{a}]", (self.N[a],), (lambda idx, a=a: self.coord(a, idx[0])))
            for a in range(self.num_axes)
        )
        bounds = tuple((self.lo[a], self.lo[a] + z3.ToReal(self.N[a]) * self.h[a]) for a in range(self.num_axes))
        attrs = dict(
            shape=tuple(self.N), discretization=disc, axes_coords=coords, axes_bounds=bounds,
            dim=self.dim, num_axes=self.num_axes, periodic=[Opaque("periodic")] * self.num_axes,
        )
        attrs["__isinstance__"] = (GRID_CLASS[self.kind], "GridBase")
        return Instance(None, attrs, name=f"{GRID_CLASS[self.kind]}<sym>")


def _select(items, k):
    from ..values import concrete, ite

    c = concrete(k)
    if c is not None:
        return items[c]
    res = items[-1]
    for i in range(len(items) - 2, -1, -1):
        res = ite(to_z3(k) == i, items[i], res)
    return res


class CellGeom:
    """geometry of one cell handed to the specification (duck-typed: .h[a], .r, .num_axes)"""

    def __init__(self, h, r=None):
        self.h = list(h)
        self.r = r
        self.num_axes = len(self.h)


class NumbaBackendStub(Instance):
    pass


def make_backend_stub():
    """backend object as far as the operator factories use it: logging and configuration look-ups.
    `multithreading_threshold` is an arbitrary integer, so `parallel=` is arbitrary (both serial and
    multi-threaded compilation of the same kernel are covered); `use_spectral` is the default False."""
    thr = z3.Int(fresh_name("multithreading_threshold"))

    def _config_parameter(name, default=None):
        if name == "multithreading_threshold":
            return thr
        if name == "use_spectral":
            return False if default is None else default
        return Opaque(f"backend config {name}")

    return Instance(None, {"_config_parameter": _config_parameter, "_logger": Opaque("logger"),
                           "__isinstance__": ("NumbaBackend", "BackendBase"), "name": "numba"}, name="NumbaBackend<stub>")


CONFIG_DEFAULTS = {
    "operators.conservative_stencil": True,
    "operators.tensor_symmetry_check": True,
    "operators.cartesian.laplacian_2d_corner_weight": 0,
    "operators.cartesian.default_backend": "numba",
}


class ConfigStub(dict):
    pass


class FlatIndex:
    """row-major flattening  (a_0, .., a_{n-1}) -> ((a_0*N_1 + a_1)*N_2 + ..)  abstracted as an
    uninterpreted injective constructor with ground-instantiated inverse axioms
        0 <= a_j < N_j (j >= 1)  =>  unflat_j(flat(a)) = a_j ,
    which are true of the real flattening (div/mod).  `check_real_definition` proves that the closure
    found in the source *is* the row-major formula."""

    _n = 0

    def __init__(self, ctx, dims):
        from .. import arrays as A

        FlatIndex._n += 1
        self.ctx = ctx
        self.dims = list(dims)
        n = len(dims)
        self.F = z3.Function(f"flat{FlatIndex._n}", *([z3.IntSort()] * n), z3.IntSort())
        self.inv = [z3.Function(f"unflat{FlatIndex._n}_{j}", z3.IntSort(), z3.IntSort()) for j in range(n)]
        A.INJECTIVE[self.F.name()] = (self.inv, self.dims)
        self.seen = set()
        self.range_obligations = []

    def spec(self, *args):
        """term for specification-side use (ranges are premises of the obligation, no range obligation)"""
        return self.__call__(*args, _oblig=False)

    def __call__(self, *args, _oblig=True):
        args = [to_z3(a) for a in args]
        t = self.F(*args)
        if t.get_id() not in self.seen:
            from .. import arrays as A

            self.seen.add(t.get_id())
            A._axiom_seen.add(t.get_id())
            guard = z3.And(*[z3.And(args[j] >= 0, args[j] < to_z3(self.dims[j])) for j in range(1, len(args))]) if len(args) > 1 else z3.BoolVal(True)
            self.ctx.assume(A.injective_axiom(t))
            # the flattened index is used as an array index: trailing components must be in range
            if _oblig:
                self.range_obligations.append((list(self.ctx.pc), guard))
        return t

    def real_formula(self, args):
        r = to_z3(args[0])
        for j in range(1, len(args)):
            r = r * to_z3(self.dims[j]) + to_z3(args[j])
        return r


def explore_paths(U, body, max_paths=256):
    """run ``body(interp)`` along every feasible path (fresh interpreter per path); returns PathResults
    whose ``.it`` is the path's interpreter.  Obligations recorded on the paths are absorbed by U."""
    from ..ctx import Explorer
    from ..interp import Interp

    its = {}

    def run(ctx):
        it = Interp(ctx)
        U.interps.append(it)
        its[id(ctx)] = it
        return body(it)

    results = Explorer(max_paths).explore(run)
    for r in results:
        r.it = its[id(r.ctx)]
    return results


def prem_of(ctx):
    return list(ctx.assumptions) + list(ctx.pc)
