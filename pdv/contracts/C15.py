"""C15 -- fields share or isolate memory as documented (DESIGN.md §4, C15): heap model of NumPy views/copies.

Proved over the real arithmetic helpers of fields/base.py with fields as records of heap buffers
(`data` = view [1:-1] of the padded buffer): binary operations return a copy and write only into it
(operands unchanged), in-place operations write only the valid cells of `self` (ghost cells and the other
operand untouched) and return `self`, unary operations build a new field through the copying `data=`
constructor path.  The data/_data_full view link is the C04 re-binding obligation.  Everything about
collections, component views and storages is the labelled bounded native check."""

from __future__ import annotations

import z3

from ..arrays import MapLayer, NDArr, sym_array
from ..objects import Instance
from ..values import Opaque, fresh_name, to_z3
from .common import explore_paths, prem_of

PROPERTY = "C15"
N = z3.Int("N")
OPF = z3.Function("op", z3.RealSort(), z3.RealSort(), z3.RealSort())


def _field(it, name, tag=("FieldBase", "DataFieldBase")):
    cls = it.load_module("pde.fields.base").get("FieldBase")
    full = sym_array(f"{name}_padded", (N + 2,))
    made = []
    grid = Instance(None, {"assert_grid_compatible": lambda g: None}, name="grid")

    def copy(dtype=None, **kw):
        c, _ = _field(it, f"copy_of_{name}")
        made.append(c)
        return c

    f = Instance(cls, {"grid": grid, "_data_valid": full.index(slice(1, -1)), "__data_full": full, "label": "lbl", "copy": copy,
                       "assert_field_compatible": lambda other, accept_scalar=False: None})
    return f, made


def _op(out_log):
    def op(a, b, out=None):
        ra = a.frozen()
        rb = b.frozen() if isinstance(b, NDArr) else None
        j = z3.Int(fresh_name("j"))
        val = OPF(to_z3(ra((j,))), to_z3(rb((j,))) if rb else to_z3(b))
        out_log.append(out)
        out.buf.push(MapLayer(out.buf.content, [(j, 0, out.shape[0])], True, out.base_index((j,)), val))
        return out
    return op


def binary_unit(other_kind, inplace):
    def unit(U):
        def body(it):
            it.ctx.assume(N >= 1)
            it.stub_modules["numpy"].attrs["result_type"] = lambda *a: Opaque("dtype")
            f, made = _field(it, "self")
            if other_kind == "field":
                o, _ = _field(it, "other")
                scls = it.load_module("pde.fields.scalar").get("ScalarField")
                o.attrs["__isinstance__"] = ("ScalarField",)
                o.cls = scls if False else o.cls
                other = o
            else:
                other = z3.Real("scalar")
            before_self = f.attrs["__data_full"].buf.content
            before_other = other.attrs["__data_full"].buf.content if other_kind == "field" else None
            outs = []
            name = "_binary_operation_inplace" if inplace else "_binary_operation"
            r = it.call(it.getattr(f, name), [other, _op(outs)], {"scalar_second": False})
            return f, other, made, r, before_self, before_other, outs

        for p, res in enumerate(explore_paths(U, body)):
            P = prem_of(res.ctx)
            nm = f"path{p}"
            if res.outcome != "return":
                U.prove(f"{nm}.returns_normally", P, z3.BoolVal(False), info={"exc": str(res.exc)})
                continue
            f, other, made, r, b_self, b_other, outs = res.value
            q = z3.Int("q")
            Pq = P + [q >= 0, q < N + 2]
            full = f.attrs["__data_full"]
            if other_kind == "field":
                of = other.attrs["__data_full"]
                U.prove(f"{nm}.other_operand_unchanged_(valid_and_ghost_cells)", Pq, to_z3(of.read((q,))) == to_z3(b_other.read((q,))))
            if inplace:
                U.prove(f"{nm}.returns_self", P, z3.BoolVal(r is f))
                U.prove(f"{nm}.writes_only_valid_cells_of_self_(ghost_cells_untouched)", Pq + [z3.Or(q == 0, q == N + 1)], to_z3(full.read((q,))) == to_z3(b_self.read((q,))))
                U.prove(f"{nm}.valid_cells_hold_the_result", P + [q >= 1, q <= N], to_z3(full.read((q,))) == OPF(to_z3(b_self.read((q,))), to_z3(b_other.read((q,))) if other_kind == "field" else z3.Real("scalar")))
                U.prove(f"{nm}.no_copy_is_made", P, z3.BoolVal(len(made) == 0 and len(outs) == 1 and outs[0].buf is full.buf))
            else:
                U.prove(f"{nm}.returns_a_copy_never_an_operand", P, z3.BoolVal(len(made) == 1 and r is made[0] and r is not f and r is not other))
                U.prove(f"{nm}.self_unchanged_(valid_and_ghost_cells)", Pq, to_z3(full.read((q,))) == to_z3(b_self.read((q,))))
                U.prove(f"{nm}.result_written_into_the_copy_only", P, z3.BoolVal(len(outs) == 1 and len(made) == 1 and outs[0].buf is made[0].attrs["__data_full"].buf))
                if len(made) == 1:
                    rf = made[0].attrs["__data_full"]
                    U.prove(f"{nm}.copy_does_not_alias_an_operand", P, z3.BoolVal(rf.buf is not full.buf and (other_kind != "field" or rf.buf is not other.attrs["__data_full"].buf)))

    return unit


def unary_unit(U):
    def body(it):
        it.ctx.assume(N >= 1)
        f, made = _field(it, "self")
        built = []
        ctor = Instance(None, {"__call__": lambda *a, **kw: built.append((a, kw)) or Instance(None, {}, name="new_field")}, name="FieldClass")
        f.attrs["__class__"] = ctor
        seen = []

        def op(x):
            seen.append(x)
            return x  # worst case for aliasing: a NumPy ufunc that returns a view of its argument (np.real)

        it.call(it.getattr(f, "_unary_operation"), [op], {})
        return f, built, seen

    for p, res in enumerate(explore_paths(U, body)):
        P = prem_of(res.ctx)
        if res.outcome != "return":
            U.prove(f"unary.path{p}.returns_normally", P, z3.BoolVal(False), info={"exc": str(res.exc)})
            continue
        f, built, seen = res.value
        ok = len(built) == 1 and len(seen) == 1 and seen[0].buf is f.attrs["_data_valid"].buf and tuple(seen[0].shape) == tuple(f.attrs["_data_valid"].shape)
        U.prove(f"unary.path{p}.operates_on_the_valid_data", P, z3.BoolVal(ok))
        if len(built) == 1:
            a, kw = built[0]
            U.prove(f"unary.path{p}.new_field_built_through_the_copying_data=_path_(never_adopting_an_array_with_ghost_cells)", P,
                    z3.BoolVal("data" in kw and not kw.get("with_ghost_cells", False) and kw.get("grid") is f.attrs["grid"]))
    U.assume_note("contract of DataFieldBase.__init__: `data=` is copied into a newly allocated padded array; `with_ghost_cells=True` adopts the given array")


def pickle_unit(U):
    """pickle / copy.deepcopy of a field: the real __getstate__ (and __setstate__ if the class has one) with the
    pickle protocol in between -- every ndarray of the state is restored as an independent array of equal content
    (NumPy does not preserve views across pickling), a new object gets the state through __setstate__ or, without
    one, through __dict__.update.  Afterwards `data` must again be a live view of the padded array."""
    def body(it):
        it.ctx.assume(N >= 1)
        fcls = it.load_module("pde.fields.base").get("FieldBase")
        grid = Instance(None, {"num_axes": 1, "_shape_full": (N + 2,), "_idx_valid": (slice(1, -1),), "__eq__": None}, name="grid")
        full = sym_array("padded", (N + 2,))
        f = Instance(fcls, {"_grid": grid, "__data_full": full, "_data_valid": full.index(slice(1, -1)), "label": "lbl",
                            "_cache_methods": {"make_interpolator": {"key": Opaque("helper bound to the old array")}}})
        state = it.call(it.getattr(f, "__getstate__"), [], {})
        restored = {k: (v.copy() if isinstance(v, NDArr) else v) for k, v in state.items()}
        g = Instance(fcls, {})
        m, _ = fcls.lookup("__setstate__")
        if m is not None:
            it.call(it.getattr(g, "__setstate__"), [restored], {})
        else:
            g.attrs.update(restored)
        before = g.attrs["__data_full"].frozen()
        w = z3.Real("written_through_data")
        g.attrs["_data_valid"].assign(slice(None), w)
        return f, g, full, before, w

    for p, res in enumerate(explore_paths(U, body)):
        P = prem_of(res.ctx)
        nm = f"pickle.path{p}"
        if res.outcome != "return":
            U.prove(f"{nm}.returns_normally", P, z3.BoolVal(False), info={"exc": str(res.exc)})
            continue
        f, g, full, before, w = res.value
        gf, gv = g.attrs.get("__data_full"), g.attrs.get("_data_valid")
        ok = isinstance(gf, NDArr) and isinstance(gv, NDArr)
        U.prove(f"{nm}.restored_object_has_its_arrays", P, z3.BoolVal(ok))
        if not ok:
            continue
        j = z3.Int("j")
        U.prove(f"{nm}.restored_data_is_a_view_of_the_restored_padded_array", P, z3.BoolVal(gv.buf is gf.buf),
                info={"witness": "a write through .data after unpickling must reach the array the operators read", "replay_payload": {"pickle": True}})
        U.prove(f"{nm}.a_write_through_data_reaches_the_valid_cells_of_the_padded_array", P + [j >= 1, j <= N], to_z3(gf.read((j,))) == w)
        U.prove(f"{nm}.ghost_cells_keep_the_pickled_values", P + [z3.Or(j == 0, j == N + 1)], to_z3(gf.read((j,))) == to_z3(full.read((j,))))
        U.prove(f"{nm}.contents_equal_the_source_before_the_write", P + [j >= 0, j <= N + 1], to_z3(before((j,))) == to_z3(full.read((j,))))
        U.prove(f"{nm}.no_memory_shared_with_the_source", P, z3.BoolVal(gf.buf is not full.buf and gv.buf is not full.buf))
        U.prove(f"{nm}.method_cache_is_not_carried_over", P, z3.BoolVal(not g.attrs.get("_cache_methods")))
    U.assume_note("pickle / deepcopy restore every ndarray of the state as an independent array of equal content (views are not preserved) and hand the state to __setstate__ or __dict__.update")


def collection_unit(copy_fields, duplicate=False):
    """the real FieldCollection.__init__ (with the real FieldBase.__init__, _data_full / _data_flat properties of
    ScalarField and VectorField, label setter) on a scalar and a two-component vector field: afterwards the collection
    owns one array, member k is a VIEW of rows [offset_k, offset_k + components_k) of it (same buffer, same cells, so
    writes through either side are seen through the other), the contents are those of the given fields, and with
    copy_fields=True (or a field given twice) the given fields themselves are left alone.
    Contracts (assumed): number_array(list of rows) = a new array whose row k equals the k-th element; field.copy() =
    a field of the same class with its own array of equal content; np.may_share_memory = same buffer."""
    from ..arrays import fresh_array

    def unit(U):
        def body(it):
            it.ctx.assume(N >= 1)
            ccls = it.module_attr(it.load_module("pde.fields.collection"), "FieldCollection")
            classes = {"scalar": it.module_attr(it.load_module("pde.fields.scalar"), "ScalarField"), "vector": it.module_attr(it.load_module("pde.fields.vectorial"), "VectorField")}
            grid = Instance(None, {"num_axes": 1, "dim": 2, "_shape_full": (N + 2,), "shape": (N,), "_idx_valid": (slice(1, -1),), "__eq__": lambda o: True}, name="grid")

            def make(kind, name):
                shape = (N + 2,) if kind == "scalar" else (2, N + 2)
                full = sym_array(name, shape)
                f = Instance(classes[kind], {"_grid": grid, "__data_full": full, "_data_valid": full.index((slice(1, -1),) if kind == "scalar" else (slice(None), slice(1, -1))), "_label": name, "kind": kind})

                def copy(label=None, dtype=None, f=f, kind=kind, name=name):
                    c = make(kind, "copy_of_" + name)
                    c.attrs["__data_full"].assign((slice(None),) * len(shape), f.attrs["__data_full"])
                    c.attrs["copy_of"] = f
                    return c

                f.attrs["copy"] = copy
                return f

            given = [make("scalar", "s"), make("vector", "v")]
            if duplicate:
                given.append(given[0])
            snapshot = [g.attrs["__data_full"].frozen() for g in given]
            buffers = [g.attrs["__data_full"].buf for g in given]

            def number_array(rows, dtype=None, copy=None):
                rows = list(rows)
                readers = [r.frozen() for r in rows]

                def content(idx):
                    k = to_z3(idx[0])
                    v = to_z3(readers[-1]((idx[1],)))
                    for i in range(len(rows) - 2, -1, -1):
                        v = z3.If(k == i, to_z3(readers[i]((idx[1],))), v)
                    return v

                return fresh_array("collection_data", (len(rows), N + 2), content)

            it.stub_names["number_array"] = number_array
            it.stub_modules["numpy"].attrs["may_share_memory"] = lambda a, b: a.buf is b.buf
            callers_list = list(given)
            c = it.instantiate(ccls, [callers_list], {"copy_fields": copy_fields})
            c.attrs["__callers_list__"] = callers_list
            return c, given, snapshot, buffers

        for p, res in enumerate(explore_paths(U, body)):
            P = prem_of(res.ctx)
            nm = f"path{p}"
            if res.outcome != "return":
                U.prove(f"{nm}.returns_normally", P, z3.BoolVal(False), info={"exc": str(res.exc)})
                continue
            c, given, snapshot, buffers = res.value
            members = c.attrs.get("_fields", [])
            full, valid = c.attrs.get("__data_full"), c.attrs.get("_data_valid")
            copies = copy_fields or duplicate
            rows = sum(1 if g.attrs["kind"] == "scalar" else 2 for g in given)
            ok = isinstance(full, NDArr) and isinstance(valid, NDArr) and len(members) == len(given) and valid.buf is full.buf and concrete_eq(full.shape[0], rows)
            U.prove(f"{nm}.collection_owns_one_array_with_one_row_per_component_and_data_is_a_view_of_it", P, z3.BoolVal(bool(ok)))
            # the list of members is the collection's own: later changes of the caller's list cannot add "members" without rows
            U.prove(f"{nm}.member_list_is_not_the_caller's_list_object", P, z3.BoolVal(members is not c.attrs.get("__callers_list__")))
            if not ok:
                continue
            j = z3.Int("j")
            Pj = P + [j >= 0, j < N]
            off = 0
            for k, (g, m) in enumerate(zip(given, members)):
                kind = g.attrs["kind"]
                ncomp = 1 if kind == "scalar" else 2
                mf, mv = m.attrs.get("__data_full"), m.attrs.get("_data_valid")
                U.prove(f"{nm}.member{k}.is_{'a_copy_of' if copies else ''}_the_given_field", P, z3.BoolVal((m.attrs.get("copy_of") is g) if copies else (m is g)))
                U.prove(f"{nm}.member{k}.shares_the_collection's_array", P, z3.BoolVal(isinstance(mf, NDArr) and mf.buf is full.buf and mv.buf is full.buf))
                for comp in range(ncomp):
                    midx = (j,) if kind == "scalar" else (comp, j)
                    same_cell = z3.And(*[to_z3(a) == to_z3(b) for a, b in zip(mv.base_index(midx), valid.base_index((off + comp, j)))])
                    U.prove(f"{nm}.member{k}.component{comp}_is_row_{off + comp}_of_the_collection_(same_memory_cells)", Pj, same_cell)
                    fidx = (j + 1,) if kind == "scalar" else (comp, j + 1)
                    U.prove(f"{nm}.member{k}.component{comp}_has_the_content_of_the_given_field", Pj, to_z3(valid.read((off + comp, j))) == to_z3(snapshot[k](fidx)))
                if copies:
                    U.prove(f"{nm}.given_field{k}_is_left_alone", P, z3.BoolVal(g.attrs["__data_full"].buf is buffers[k] and g.attrs["__data_full"].buf is not full.buf and g.attrs["_data_valid"].buf is buffers[k]))
                off += ncomp

    return unit


def collection_derived_unit(U):
    """slices, append and copy of a collection build the result through the constructor contract above: slices and
    append hand the (un-copied) member fields to it with copy_fields=True, so the result never aliases its sources;
    copy() hands over copies with copy_fields=False; appended collections contribute their member fields in order"""
    def body(it):
        ccls = it.module_attr(it.load_module("pde.fields.collection"), "FieldCollection")
        built = []

        def ctor(interp, args, kw):
            built.append((list(args[1]), dict(kw)))
            args[0].attrs["_fields"] = list(args[1])
            args[0].attrs["_label"] = kw.get("label")

        it.contracts[("pde.fields.collection", "FieldCollection.__init__")] = ctor
        it.contracts[("pde.fields.collection", "_FieldLabels.__init__")] = lambda interp, args, kw: args[0].attrs.update(collection=args[1])

        def member(name):
            f = Instance(None, {"label": name, "name": name, "__isinstance__": ("DataFieldBase", "FieldBase")}, name=name)
            f.attrs["copy"] = lambda **kw: Instance(None, {"copy_of": f, "label": name}, name="copy of " + name)
            return f

        a, b, c, d, e = (member(n) for n in "abcde")
        coll = Instance(ccls, {"_fields": [a, b, c], "_label": "lbl"})
        other = Instance(ccls, {"_fields": [d], "_label": "other"})
        labels_of = lambda x: [f.attrs["label"] for f in x.attrs["_fields"]]
        for x in (coll, other):
            x.attrs["labels"] = labels_of(x)
        n0 = len(built)
        sl = it.call(it.getattr(coll, "__getitem__"), [slice(1, 3)], {})
        r_slice = built[n0:]
        n0 = len(built)
        ap = it.call(it.getattr(coll, "append"), [e, other], {})
        r_append = built[n0:]
        n0 = len(built)
        cp = it.call(it.getattr(coll, "copy"), [], {})
        r_copy = built[n0:]
        one = it.call(it.getattr(coll, "__getitem__"), [1], {})
        return (a, b, c, d, e), r_slice, r_append, r_copy, one, sl, ap, cp, coll

    for p, res in enumerate(explore_paths(U, body)):
        P = prem_of(res.ctx)
        nm = f"path{p}"
        if res.outcome != "return":
            U.prove(f"{nm}.returns_normally", P, z3.BoolVal(False), info={"exc": str(res.exc)})
            continue
        (a, b, c, d, e), r_slice, r_append, r_copy, one, sl, ap, cp, coll = res.value
        same = lambda xs, ys: len(xs) == len(ys) and all(x is y for x, y in zip(xs, ys))

        def isolated(call, sources):
            """one constructor call; position i holds source field i itself with copy_fields=True (the constructor
            copies it) or a copy of it (then either flag is fine): the result never aliases a source"""
            if len(call) != 1:
                return False
            fields, kw = call[0]
            cf = kw.get("copy_fields", False)
            return len(fields) == len(sources) and all((x is y and cf is True) or x.attrs.get("copy_of") is y for x, y in zip(fields, sources))

        U.prove(f"{nm}.slice_builds_a_collection_of_the_selected_members_that_cannot_alias_them", P, z3.BoolVal(isolated(r_slice, [b, c])))
        U.prove(f"{nm}.append_builds_members+appended_fields+members_of_appended_collections_in_order_without_aliasing_any_source", P,
                z3.BoolVal(isolated(r_append, [a, b, c, e, d])))
        U.prove(f"{nm}.copy_builds_a_collection_of_member_copies", P, z3.BoolVal(isolated(r_copy, [a, b, c])))
        U.prove(f"{nm}.integer_index_returns_the_member_itself_(a_view_by_the_constructor_contract)", P, z3.BoolVal(one is b))
        U.prove(f"{nm}.the_source_collection_keeps_its_members", P, z3.BoolVal(same(coll.attrs["_fields"], [a, b, c])))


def concrete_eq(a, b):
    from ..values import concrete
    return concrete(a) == b if not isinstance(a, int) else a == b


def setitem_unit(U):
    """the real FieldCollection.__setitem__: assigning through a position or a label writes the data of exactly ONE member
    (the one at the position / the first one carrying the label -- labels may repeat, e.g. after fc.append(fc)) and leaves
    every other member alone; an unknown label is a KeyError"""
    labels = ["u", "v", "u", None]
    cases = [(0, 0), (2, 2), (3, 3), ("u", 0), ("v", 1), ("w", None)]
    for index, target in cases:
        def body(it, index=index):
            cls = it.module_attr(it.load_module("pde.fields.collection"), "FieldCollection")
            members = [Instance(None, {"label": lab, "data": Opaque(f"data of member {k} before")}, name=f"member{k}", strict=False) for k, lab in enumerate(labels)]
            before = [m.attrs["data"] for m in members]
            fc = Instance(cls, {"_fields": members})
            value = Opaque("assigned value")
            it.call(it.getattr(fc, "__setitem__"), [index, value], {})
            return members, before, value

        for p, res in enumerate(explore_paths(U, body)):
            P = prem_of(res.ctx)
            nm = f"fc[{index!r}]=value.path{p}"
            if target is None:
                U.prove(f"{nm}.unknown_label_is_a_KeyError", P, z3.BoolVal(res.outcome == "raise" and res.exc.exc_type == "KeyError"))
                continue
            if res.outcome != "return":
                U.prove(f"{nm}.returns_normally", P, z3.BoolVal(False), info={"exc": str(res.exc)})
                continue
            members, before, value = res.value
            U.prove(f"{nm}.member{target}_gets_the_value", P, z3.BoolVal(members[target].attrs.get("data") is value))
            U.prove(f"{nm}.no_other_member_is_written", P, z3.BoolVal(all(m.attrs.get("data") is b for k, (m, b) in enumerate(zip(members, before)) if k != target)),
                    info={"written": [k for k, (m, b) in enumerate(zip(members, before)) if m.attrs.get("data") is not b]})


UNITS = [("pickle_roundtrip_of_a_field", pickle_unit), ("FieldCollection.__setitem__", setitem_unit)]
UNITS += [(f"FieldCollection.__init__[copy_fields={c}{',field given twice' if d else ''}]", collection_unit(c, d)) for c, d in ((False, False), (True, False), (False, True))]
UNITS += [("FieldCollection.slice_append_copy", collection_derived_unit)]
UNITS += [(f"{'inplace' if ip else 'binary'}_operation[other={ok}]", binary_unit(ok, ip)) for ip in (False, True) for ok in ("scalar", "field")] + [("unary_operation", unary_unit)]


def bounded(tier, seed):
    from ..runner import native

    res = native("memory.py", {"seed": seed, "n": 2 if tier == "quick" else 12}, timeout=3000)
    if not res.get("ok"):
        raise RuntimeError(f"native driver failed: {res}")
    return [{"name": "sharing_and_isolation_over_operation_sequences", "bound": "fields of ranks 0-2 (float64 and complex128) and collections on 4 grid classes: np.shares_memory and write-through checks for data/_data_full, collection members, component views, copies, slices, append, arithmetic, unary ops, operators, in-place ops, transposes, storages",
             "cases": res["cases"], "failures": res["failures"]}]


TRUSTED = ["NumPy view/copy table of pdv/arrays.py (basic indexing = view, arithmetic / np.array = fresh buffer)", "contract of DataFieldBase.__init__ and of field.copy() (fresh padded buffer)"]
ASSUMPTIONS = ["'all sequences of operations' is reduced to each operation preserving the sharing/isolation invariants"]
NOT_COVERED = ["tensor members of collections (reshape(-1, ..) merging two axes), FieldCollection.from_state / from_data re-linking, component views of vector and tensor fields, storages: bounded native check only",
               "dtypes other than float64/complex128 (component views of other dtypes are documented copies)"]


def _layout_units():
    """clause 'layout fixed as fields in order and tensor components row-major': FieldCollection.from_data cuts the flat array
    into dim**rank rows per field in order -- the C14 contract of from_data, re-checked here because this property names the layout"""
    from . import C14
    return [(f"layout.{n}", f) for n, f in C14.UNITS if n == "FieldCollection.from_data"]


UNITS += _layout_units()
