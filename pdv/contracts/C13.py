"""C13 -- stochastic steps add exactly the documented noise (DESIGN.md §4, C13).

One-cell heap model as in C06; rhs F, noise variance V and its derivative V' are uninterpreted functions
of (state, t); the Gaussian draw is a ghost-counted stub returning xi_k on its k-th call; the cell volume
is an arbitrary positive real (non-uniform volumes: the one cell is any cell)."""

from __future__ import annotations

from fractions import Fraction

import z3

from ..arrays import NDArr, fresh_array, sym_array
from ..interp import LoopSpec
from ..objects import Instance
from ..specs import steppers as S
from ..values import SQRT_FN, Opaque, fresh_name, to_real, to_z3
from .common import explore_paths, prem_of

PROPERTY = "C13"
F = z3.Function("F", z3.RealSort(), z3.RealSort(), z3.RealSort())
V = z3.Function("V", z3.RealSort(), z3.RealSort(), z3.RealSort())
VD = z3.Function("Vd", z3.RealSort(), z3.RealSort(), z3.RealSort())
XI = z3.Function("xi", z3.IntSort(), z3.RealSort())
ALPHA = {"ito": 0, "stratonovich": Fraction(1, 2), "anti-ito": 1}


def _f2(fn):
    return lambda u, t: fn(to_z3(to_real(u)), to_z3(to_real(t)))


def sq(x):
    return SQRT_FN(to_z3(to_real(x)))


class Env:
    def __init__(self, it, mod, cls, interpretation, extra=None):
        self.it = it
        self.dt, self.vol = z3.Real("dt"), z3.Real("vol")
        it.ctx.assume(self.dt > 0)
        it.ctx.assume(self.vol > 0)
        self.draws = []
        self.var_calls = []

        def rhs(arr, t):
            val = _f2(F)(arr.read((0,)), t)
            return fresh_array("rhs", (1,), lambda idx: val)

        def make_noise_variance(state, backend=None, ret_diff=False):
            def nv(arr, t):
                u = arr.read((0,))
                self.var_calls.append((u, t))
                v = fresh_array("var", (1,), lambda idx: _f2(V)(u, t))
                if ret_diff:
                    return (v, fresh_array("vard", (1,), lambda idx: _f2(VD)(u, t)))
                return v
            return nv

        def make_gaussian_noise(state, rng=None):
            def draw():
                k = len(self.draws)
                self.draws.append(k)
                return fresh_array("dW", (1,), lambda idx: XI(k))
            return draw

        pde_cls = it.module_attr(it.load_module("pde.pdes.base"), "PDEBase")
        self.pde = Instance(pde_cls, {"noise_interpretation": interpretation, "use_noise_variance": True, "use_noise_realization": False,
                                      "make_noise_variance": make_noise_variance, "rng": Opaque("rng"), "is_sde": True})
        backend = Instance(None, {"make_pde_rhs": lambda eq, state: rhs, "make_gaussian_noise": make_gaussian_noise,
                                  "compile_function": lambda f: f, "name": "numpy"}, name="backend")
        cls = it.module_attr(it.load_module(mod), cls)
        attrs = {"pde": self.pde, "backend": backend, "info": {}, "_logger": Opaque("logger")}
        attrs.update(extra or {})
        self.solver = Instance(cls, attrs)
        it.stub_names["get_array_namespace"] = lambda x: it.stub_modules["numpy"]
        grid = Instance(None, {"cell_volumes": fresh_array("cell_volumes", (1,), lambda idx: self.vol)}, name="grid")
        self.state_field = Instance(None, {"grid": grid, "data": sym_array("template", (1,))}, name="state")


def _sqrt_axioms(dt, vol, v):
    """ground instances of sqrt(a) sqrt(b) = sqrt(a b) (a, b >= 0) and sqrt(x)^2 = x at the terms used"""
    a1 = z3.Implies(v >= 0, sq(dt) * sq(v / vol) == sq(v * dt / vol))
    a2 = z3.Implies(v >= 0, sq(dt) * sq(v * (1 / vol)) == sq(v * dt / vol))
    a3 = sq(dt) * sq(dt) == dt
    a4 = z3.Implies(v >= 0, sq(v / vol) == sq(v * (1 / vol)))
    a5 = z3.Implies(v >= 0, sq(dt * v * (1 / vol)) == sq(v * dt / vol))
    return [a1, a2, a3, a4, a5]


def explicit_unit(mod, cls, factory, spec, name):
    def unit(U):
        for interp_name, alpha in ALPHA.items():
            def body(it, interp_name=interp_name):
                env = Env(it, mod, cls, interp_name)
                step = it.call(it.getattr(env.solver, factory), [env.state_field, env.dt], {})
                u = sym_array("u", (1,))
                u0 = to_z3(u.read((0,)))
                t = z3.Real("t")
                it.ctx.assume(V(u0, t) >= 0)
                out = it.call(step, [u, t], {})
                return env, u, u0, t, out

            for p, res in enumerate(explore_paths(U, body)):
                P = prem_of(res.ctx)
                nm = f"{name}[{interp_name}].path{p}"
                if res.outcome != "return":
                    U.prove(f"{nm}.returns_normally", P, z3.BoolVal(False), info={"exc": str(res.exc)})
                    continue
                env, u, u0, t, out = res.value
                U.prove(f"{nm}.exactly_one_gaussian_draw_per_step", P, z3.BoolVal(len(env.draws) == 1))
                U.prove(f"{nm}.alpha_from_interpretation_table", P, to_z3(to_real(it_alpha(env))) == z3.RealVal(alpha))
                want = spec(u0, t, env.dt, _f2(F), _f2(V), _f2(VD), z3.RealVal(alpha), env.vol, XI(0), sq)
                ax = _sqrt_axioms(env.dt, env.vol, V(u0, t))
                U.prove(f"{nm}.step==deterministic+sqrt(var*dt/vol)*xi+drift(+milstein)", P + ax, to_z3(u.read((0,))) == want)
                U.prove(f"{nm}.variance_evaluated_at_pre_step_state", P,
                        z3.And(*[z3.And(to_z3(to_real(a)) == u0, to_z3(to_real(b)) == t) for a, b in env.var_calls]) if env.var_calls else z3.BoolVal(False))
                U.prove(f"{nm}.updates_in_place", P, z3.BoolVal(isinstance(out, NDArr) and out.buf is u.buf))
                # vanishing variance (and derivative) gives the deterministic update
                U.prove(f"{nm}.zero_variance=>deterministic_step", P + ax + [V(u0, t) == 0, VD(u0, t) == 0, sq(z3.RealVal(0)) == 0, sq(0 * env.dt / env.vol) == 0],
                        to_z3(u.read((0,))) == S.euler(u0, t, env.dt, _f2(F)))
                U.cover(f"{nm}.cover", P)
        U.assume_note("sqrt axioms: sqrt(a)sqrt(b)=sqrt(ab) for a,b>=0, sqrt(x)^2=x, sqrt(0)=0 (ground instances at the terms the code builds)")

    return unit


def it_alpha(env):
    it = env.it
    return it.getattr(env.pde, "_noise_drift_factor")


def implicit_stochastic(U):
    def body(it):
        maxiter, maxerror = z3.Int("maxiter"), z3.Real("maxerror")
        it.ctx.assume(maxiter >= 1)
        env = Env(it, "pde.solvers.implicit", "ImplicitSolver", "ito", extra={"maxiter": maxiter, "maxerror": maxerror})
        step = it.call(it.getattr(env.solver, "_make_single_step_fixed_dt_stochastic"), [env.state_field, env.dt], {})
        u = sym_array("u", (1,))
        u0 = to_z3(u.read((0,)))
        t = z3.Real("t")
        it.ctx.assume(V(u0, t) >= 0)
        ghost = {"x": None, "first": None}
        base = u0 + sq(env.dt * V(u0, t) / env.vol) * XI(0)  # the state the iteration starts from

        def inv(interp, fr, k):
            cur = to_z3(u.read((0,)))
            st = fr.locals.get("state_t")
            if ghost["first"] is None:
                ghost["first"] = cur
            ok = to_z3(st.read((0,))) == base if isinstance(st, NDArr) else z3.BoolVal(False)
            return z3.And(ok, z3.Implies(k == 0, cur == ghost["first"]), z3.BoolVal(len(env.draws) == 1))

        def havoc(interp, fr):
            ghost["x"] = z3.Real(fresh_name("x"))
            u.assign(slice(None), ghost["x"])
            sp = fr.locals.get("state_prev")
            if isinstance(sp, NDArr):
                sp.assign(slice(None), z3.Real(fresh_name("sp")))

        it.loop_specs[(step.qualname, 1)] = LoopSpec(inv, havoc, "semi_implicit.iteration")
        ax = _sqrt_axioms(env.dt, env.vol, V(u0, t))
        for a in ax:
            it.ctx.assume(a)
        out = it.call(step, [u, t], {})
        return env, u, u0, t, ghost, base, maxerror

    n_ret = 0
    for p, res in enumerate(explore_paths(U, body)):
        P = prem_of(res.ctx)
        nm = f"semi_implicit.path{p}"
        if res.outcome == "cut":
            continue
        if res.outcome == "raise":
            U.prove(f"{nm}.only_ConvergenceError", P, z3.BoolVal(res.exc.exc_type == "ConvergenceError"))
            continue
        n_ret += 1
        env, u, u0, t, ghost, base, maxerror = res.value
        cur = to_z3(u.read((0,)))
        x = ghost["x"]
        U.prove(f"{nm}.result==base+dt*F(x,t+dt)_with_base=state+sqrt(dt*var/vol)*xi", P, cur == base + env.dt * F(x, t + env.dt))
        U.prove(f"{nm}.predictor==base+dt*F(state,t)", P, ghost["first"] == base + env.dt * F(u0, t))
        U.prove(f"{nm}.exactly_one_gaussian_draw_per_step", P, z3.BoolVal(len(env.draws) == 1))
        U.prove(f"{nm}.converged", P, (cur - x) * (cur - x) < maxerror * maxerror)
    U.prove("semi_implicit.has_return_path", [], z3.BoolVal(n_ret >= 1))


def gaussian_noise_numpy(U):
    def body(it):
        calls = []
        shape = (z3.Int("n0"), z3.Int("n1"))
        rng = Instance(None, {"standard_normal": lambda shp: calls.append(shp) or Opaque("normal numbers")}, name="rng")
        field = Instance(None, {"data": sym_array("d", shape)}, name="field")
        be = Instance(it.module_attr(it.load_module("pde.backends.numpy.backend"), "NumpyBackend"), {})
        fn = it.call(it.getattr(be, "make_gaussian_noise"), [field], {"rng": rng})
        n0 = len(calls)
        it.call(fn, [], {})
        n1 = len(calls)
        it.call(fn, [], {})
        return calls, n0, n1, shape

    for p, res in enumerate(explore_paths(U, body)):
        P = prem_of(res.ctx)
        if res.outcome != "return":
            U.prove(f"numpy.make_gaussian_noise.path{p}.returns_normally", P, z3.BoolVal(False), info={"exc": str(res.exc)})
            continue
        calls, n0, n1, shape = res.value
        ok = n0 == 0 and n1 == 1 and len(calls) == 2 and all(tuple(c) == tuple(shape) for c in calls)
        U.prove(f"numpy.make_gaussian_noise.path{p}.one_standard_normal_draw_of_data_shape_per_call_on_the_given_generator", P, z3.BoolVal(ok))
    U.assume_note("NumPy Generator.standard_normal yields the successive draws of the generator (seeded => reproducible)")


def noise_variance_default(U):
    """default make_noise_variance: per tensor component (data fields) / per field (collections)"""
    for order in ("scalar,vector", "vector,scalar"):
        _noise_variance_collection(U, order)


def _noise_variance_collection(U, order):
    ranks = [0, 1] if order == "scalar,vector" else [1, 0]
    sizes = [3 ** r for r in ranks]
    slices = [slice(0, sizes[0]), slice(sizes[0], 4)]

    def body(it):
        pde_cls = it.module_attr(it.load_module("pde.pdes.base"), "SDEBase")
        v = [z3.Real("v0"), z3.Real("v1")]
        # collection of a scalar field and a 3-component vector field in either order: 4 rows
        n = z3.Int("n")
        it.ctx.assume(n >= 1)
        grid = Instance(None, {"num_axes": 1, "dim": 3}, name="grid")
        members = [Instance(None, {"rank": r, "grid": grid}, name=f"member_rank{r}") for r in ranks]
        state = Instance(None, {"grid": grid, "data": sym_array("d", (4, n)), "data_shape": (4,), "_slices": list(slices), "fields": members,
                                "__len__": lambda: 2, "__iter__": lambda: list(members), "__getitem__": lambda k: members[k],
                                "__isinstance__": ("FieldCollection", "FieldBase")}, name="collection")
        eq = Instance(pde_cls, {"noise": [v[0], v[1]], "_logger": Opaque("logger")})
        backend = Instance(None, {"numpy_to_native": lambda a: a}, name="backend")
        fn = it.call(it.getattr(eq, "make_noise_variance"), [state], {"backend": backend, "ret_diff": False})
        arr = it.call(fn, [sym_array("s", (4, n)), z3.Real("t")], {})
        return arr, v

    for p, res in enumerate(explore_paths(U, body)):
        P = prem_of(res.ctx)
        if res.outcome != "return":
            U.prove(f"make_noise_variance[collection {order}].path{p}.returns_normally", P, z3.BoolVal(False), info={"exc": str(res.exc)})
            continue
        arr, v = res.value
        ok_shape = isinstance(arr, NDArr) and tuple(arr.shape) == (4, 1)
        U.prove(f"make_noise_variance[collection {order}].path{p}.shape_broadcasts_over_grid", P, z3.BoolVal(ok_shape))
        if ok_shape:
            for k in range(4):
                U.prove(f"make_noise_variance[collection {order}].path{p}.row{k}_gets_variance_of_its_field", P, to_z3(arr.read((k, 0))) == (v[0] if k < sizes[0] else v[1]))


RNG_CLASSES = {"DiffusionPDE": "pde.pdes.diffusion", "KPZInterfacePDE": "pde.pdes.kpz_interface", "KuramotoSivashinskyPDE": "pde.pdes.kuramoto_sivashinsky"}


def rng_forwarded_unit(clsname):
    """the generator (and the noise strength) given to a stochastic equation class reach SDEBase / PDEBase through
    the real __init__ chain: eq.rng is np.random.default_rng(<the given generator>), which NumPy defines to be that
    generator itself; make_gaussian_noise (contract above) draws from eq.rng"""
    def unit(U):
        def body(it):
            cls = it.load_module(RNG_CLASSES[clsname]).get(clsname)
            gen = Instance(None, {}, name="the generator given to the equation")
            seen = []

            def default_rng(x=None):
                seen.append(x)
                return x if isinstance(x, Instance) else Instance(None, {"fresh": True}, name="fresh unseeded generator")

            it.stub_modules["numpy"].attrs["random"] = Instance(None, {"default_rng": default_rng}, name="np.random")
            noise = z3.Real("noise")
            eq = it.instantiate(cls, [], {"rng": gen, "noise": noise})
            return eq, gen, noise

        for p, res in enumerate(explore_paths(U, body)):
            P = prem_of(res.ctx)
            if res.outcome != "return":
                U.prove(f"{clsname}.path{p}.returns_normally", P, z3.BoolVal(False), info={"exc": str(res.exc)})
                continue
            eq, gen, noise = res.value
            U.prove(f"{clsname}.path{p}.equation_draws_from_the_generator_it_was_given", P, z3.BoolVal(eq.attrs.get("rng") is gen),
                    info={"witness": "a seeded run is reproducible bit for bit only if the supplied generator is the one used"})
            got = eq.attrs.get("noise")
            U.prove(f"{clsname}.path{p}.noise_strength_is_kept", P, to_z3(got.read(())) == noise if isinstance(got, NDArr) and got.ndim == 0 else (to_z3(got) == noise if got is not None and not isinstance(got, NDArr) else z3.BoolVal(False)))
        U.assume_note("np.random.default_rng(generator) returns that generator (NumPy documentation)")

    return unit


UNITS = [(f"rng_reaches_the_base_class[{c}]", rng_forwarded_unit(c)) for c in RNG_CLASSES] + [
    ("euler_maruyama.single_step", explicit_unit("pde.solvers.euler", "EulerSolver", "_make_single_step_fixed_dt_stochastic", S.euler_maruyama, "euler_maruyama")),
    ("milstein.single_step", explicit_unit("pde.solvers.milstein", "MilsteinSolver", "_make_single_step_fixed_dt_stochastic", S.milstein, "milstein")),
    ("implicit.stochastic_step", implicit_stochastic),
    ("numpy.make_gaussian_noise", gaussian_noise_numpy),
    ("pdes.make_noise_variance", noise_variance_default),
]


def bounded(tier, seed):
    from ..runner import native

    n = 6 if tier == "quick" else 60
    res = native("stochastic.py", {"seed": seed, "n": n}, timeout=3000)
    if not res.get("ok"):
        raise RuntimeError(f"native driver failed: {res}")
    return [{"name": "seeded_runs_vs_documented_increment", "bound": f"{n} random instances per (solver, interpretation) on grids with non-uniform cell volumes, numpy backend, field-dependent variance; PDE class with per-field variances for rhs given as dict / pairs and variances as dict / list / partial dict",
             "cases": res["cases"], "failures": res["failures"]}]


TRUSTED = ["pdv/specs/steppers.py euler_maruyama / milstein formulas (from the statement)", "one-cell state model with uninterpreted F, V, V' (elementwise genericity)"]
ASSUMPTIONS = ["NumPy Generator yields successive draws; sqrt axioms as listed", "use_noise_realization interface is off (the statement is about variances)", "numba's own RNG is not claimed"]
NOT_COVERED = ["make_noise_variance of PDE subclasses other than the default", "numba make_gaussian_noise"]
