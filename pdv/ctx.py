"""Path context, path exploration by re-execution, obligations."""

from __future__ import annotations

import time

import z3

from .values import Unsupported, concrete, is_sym, to_z3

FEAS_TIMEOUT_MS = 3000

# ids of premises that are conservative definitions of ghost functions (recursive definitions of
# uninterpreted functions that occur nowhere else): dropping them cannot turn an unsatisfiable set of
# premises into a satisfiable one, so satisfiability queries may ignore them
DEFINITIONAL: set = set()


def mark_definitional(term):
    DEFINITIONAL.add(term.get_id())
    return term


class InfeasiblePath(Exception):
    pass


class PyRaise(Exception):
    """the interpreted code raised a Python exception"""

    def __init__(self, exc_type: str, args=(), value=None):
        super().__init__(f"{exc_type}{args!r}")
        self.exc_type = exc_type
        self.exc_args = args
        self.value = value


class Obligation:
    def __init__(self, name, premises, claim, kind="prove", info=None):
        self.name = name
        self.premises = list(premises)
        self.claim = claim
        self.kind = kind  # 'prove' (premises => claim valid) | 'cover' (premises & claim sat)
        self.info = info or {}


class Ctx:
    """one execution path: path condition, assumptions, recorded obligations"""

    def __init__(self, explorer=None):
        self.explorer = explorer
        self.pc: list = []  # path condition (branch decisions)
        self.assumptions: list = []  # contract preconditions / class invariants
        self.obligations: list[Obligation] = []
        self.decisions: list = []
        self.pos = 0
        self.prefix: list = []
        self.notes: list[str] = []
        self.opaque_calls: list[str] = []
        self._solver = None
        self.auto_bounds: list = []  # (description, condition) index-in-bounds facts to prove
        self.heap_mutations = 0

    # ------------------------------------------------------------ solver for feasibility
    def solver(self):
        if self._solver is None:
            self._solver = z3.Solver()
            self._solver.set("timeout", FEAS_TIMEOUT_MS)
            for a in self.assumptions + self.pc:
                self._solver.add(a)
        return self._solver

    def assume(self, cond):
        if cond is True:
            return
        if cond is False:
            raise InfeasiblePath()
        self.assumptions.append(cond)
        if self._solver is not None:
            self._solver.add(cond)

    def assume_pc(self, cond):
        """assumption that belongs to the current path only (e.g. a loop invariant after havoc)"""
        if cond is True:
            return
        self.add_pc(to_z3(cond))

    def add_pc(self, cond):
        self.pc.append(cond)
        if self._solver is not None:
            self._solver.add(cond)

    def feasible(self, cond) -> bool:
        s = self.solver()
        s.push()
        s.add(cond)
        r = s.check()
        s.pop()
        return r != z3.unsat  # unknown counts as feasible (sound: only adds obligations)

    def branch(self, cond) -> bool:
        """decide a (possibly symbolic) condition on this path; may fork the exploration"""
        if isinstance(cond, bool):
            return cond
        if not is_sym(cond):
            return bool(cond)
        if not z3.is_bool(cond):
            cond = cond != 0
        c = concrete(cond)
        if c is not None:
            return bool(c)
        cond = z3.simplify(cond)
        if self.pos < len(self.prefix):
            d = self.prefix[self.pos]
            self.pos += 1
            self.decisions.append(d)
            take = d[0]
        else:
            t_ok = self.feasible(cond)
            f_ok = self.feasible(z3.Not(cond))
            if t_ok and f_ok:
                take = True
                self.decisions.append((True, False))
                if self.explorer is None:
                    # no exploration is running: silently following one branch would leave the other
                    # one unchecked, so the unit is undecided instead
                    raise Unsupported(f"symbolic branch outside path exploration: {cond}")
                self.explorer.enqueue([*self.decisions[:-1], (False, True)])
            elif t_ok:
                take = True
                self.decisions.append((True, True))
            elif f_ok:
                take = False
                self.decisions.append((False, True))
            else:
                raise InfeasiblePath()
            self.pos += 1
        self.add_pc(cond if take else z3.Not(cond))
        return take

    # ------------------------------------------------------------ obligations
    def prove(self, name, claim, extra_premises=(), info=None):
        if claim is True:
            claim = z3.BoolVal(True)
        if claim is False:
            claim = z3.BoolVal(False)
        self.obligations.append(
            Obligation(name, self.assumptions + self.pc + list(extra_premises), to_z3(claim), "prove", info)
        )

    def cover(self, name, cond=True, info=None):
        self.obligations.append(
            Obligation(name, self.assumptions + self.pc, to_z3(cond), "cover", info)
        )

    def bounds_hook(self, kind, a, b, n):
        if kind == "index":
            cond = z3.And(to_z3(a) >= 0, to_z3(a) < to_z3(n))
            desc = f"0 <= {a} < {n}"
        else:
            cond = z3.And(to_z3(a) >= 0, to_z3(a) <= to_z3(b), to_z3(b) <= to_z3(n))
            desc = f"0 <= {a} <= {b} <= {n}"
        c = concrete(cond)
        if c is True:
            return
        self.auto_bounds.append((desc, list(self.pc), cond))


class PathResult:
    def __init__(self, ctx, outcome, value=None, exc=None):
        self.ctx = ctx
        self.outcome = outcome  # 'return' | 'raise'
        self.value = value
        self.exc = exc


class Explorer:
    """explore all feasible paths of ``run(ctx)`` by re-execution with decision prefixes"""

    def __init__(self, max_paths=256):
        self.queue: list = []
        self.max_paths = max_paths

    def enqueue(self, prefix):
        self.queue.append(prefix)

    def explore(self, run, setup=None):
        results = []
        self.queue = [[]]
        n = 0
        while self.queue:
            prefix = self.queue.pop()
            n += 1
            if n > self.max_paths:
                raise Unsupported(f"more than {self.max_paths} paths")
            ctx = Ctx(self)
            ctx.prefix = prefix
            try:
                state = setup(ctx) if setup else None
                value = run(ctx, state) if setup else run(ctx)
                results.append(PathResult(ctx, "return", value=value))
            except InfeasiblePath:
                continue
            except PyRaise as e:
                results.append(PathResult(ctx, "raise", exc=e))
            except Exception as e:
                if type(e).__name__ == "PathCut":
                    results.append(PathResult(ctx, "cut"))
                else:
                    raise
        return results
