"""CLI:  python3-vt -m pdv.check <ID> --tier quick|thorough [--replay <path>] [--only <substr>]

exit 0 held (known findings printed) / 1 VIOLATION / 2 UNDECIDED / 3 checker broken.
"""

from __future__ import annotations

import argparse
import hashlib
import importlib
import json
import os
import sys
import time
import traceback

from . import runner
from .runner import VERIF

COMMON_TRUSTED = [
    "pdv symbolic interpreter (pdv/interp.py, arrays.py, values.py, builtins_model.py): Python semantics of the interpreted subset, map-loop rule with proved independence side conditions",
    "z3 4.x / 5.x (wheel z3-solver) as decision procedure; sympy rational-function normal form (pdv/ratnf.py) for polynomial identities, side conditions by z3; cvc5 as second solver",
    "machine arithmetic treated as mathematical: float = real, int = unbounded integer, no NaN/Inf/overflow/rounding",
    "numba compiles the nopython subset with CPython semantics; prange executes every iteration exactly once",
    "NumPy model of pdv/builtins_model.py and pdv/arrays.py (basic indexing = view, arithmetic = fresh array, broadcasting)",
]


def main(argv=None):
    ap = argparse.ArgumentParser()
    ap.add_argument("prop")
    ap.add_argument("--tier", default=os.environ.get("VERIF_TIER", "quick"))
    ap.add_argument("--only", default=None)
    ap.add_argument("--jobs", type=int, default=None)
    ap.add_argument("--replay", default=None)
    ap.add_argument("--write-baseline", action="store_true")
    ap.add_argument("--no-evidence", action="store_true")
    ap.add_argument("--bounded-only", action="store_true", help="seed sweeps of the bounded stand-ins: no proof units, no baseline, no evidence")
    args = ap.parse_args(argv)
    tier = args.tier if args.tier in ("quick", "thorough") else "quick"
    seed = int(os.environ.get("VERIF_SEED", "0") or 0)
    prop = args.prop
    t0 = time.time()
    try:
        mod = importlib.import_module(f"pdv.contracts.{prop}")
    except Exception:
        traceback.print_exc()
        print(f"CHECKER-BROKEN property={prop} cannot import contract module")
        return 3
    if args.replay:
        return do_replay(mod, prop, args.replay)
    units = [n for n, _ in mod.UNITS]
    if tier == "quick":
        units = [u for u in units if u not in getattr(mod, "THOROUGH_ONLY", ())]
    if args.only:
        units = [u for u in units if args.only in u]
    if args.bounded_only:
        units, args.no_evidence = [], True
    results = runner.run_units(f"pdv.contracts.{prop}", units, tier, jobs=args.jobs)
    # units with undecided proof obligations are re-run once with little parallelism (solver budgets are
    # wall-clock; a busy machine must not turn a provable obligation into UNDECIDED)
    # ... and a counter-model found in a weakened theory (ground instances of abstraction axioms) is re-examined too
    retry = [r["unit"] for r in results if any(o["kind"] != "cover" and (o["status"] == "unknown" or (o["status"] == "refuted" and o.get("weak_theory")))
                                               for o in r["results"])]
    if retry:
        again = {r["unit"]: r for r in runner.run_units(f"pdv.contracts.{prop}", retry, tier, jobs=min(4, len(retry)))}
        results = [again.get(r["unit"], r) if r["unit"] in again and not again[r["unit"]]["error"] else r for r in results]
    results.sort(key=lambda r: r["unit"])

    findings = runner.load_known_findings()
    obligations = []
    undecided = []
    broken = []
    for r in results:
        if r["error"]:
            k = r["error"]["kind"]
            (broken if k == "crash" else undecided).append((r["unit"], k, r["error"]["msg"], r["error"].get("tb", "")))
        if not r["results"] and not r["error"]:
            broken.append((r["unit"], "zero-obligations", "unit generated no obligation", ""))
        obligations.extend(r["results"])

    # ---- bounded stand-ins / native runtime contract checks (labelled bounded; never counted as proved)
    bounded = []
    if hasattr(mod, "bounded") and not args.only:
        # thorough tier: the native drivers are run for a second, different seed as well
        for n, sd in enumerate([seed] if tier == "quick" else [seed, seed + 101]):
            try:
                part = mod.bounded(tier, sd) or []
            except Exception as e:
                broken.append(("bounded", "crash", f"{type(e).__name__}: {e}", traceback.format_exc()[-2000:]))
                break
            for b in part:
                b["seed"] = sd
                if n:
                    b["bound"] = f"(second seed) {b.get('bound', '')}"
            bounded.extend(part)

    # ---- baseline of obligation names
    base_path = os.path.join(VERIF, "baselines", f"{prop}.{tier}.json")
    names = sorted(o["name"] for o in obligations)
    if args.write_baseline:
        os.makedirs(os.path.dirname(base_path), exist_ok=True)
        json.dump(names, open(base_path, "w"), indent=0)
    missing = []
    if os.path.exists(base_path) and not args.only and not args.bounded_only:
        expected = set(json.load(open(base_path)))
        missing = sorted(expected - set(names))
        for m in missing:
            # an obligation that belongs to a unit that could not run is already reported there
            undecided.append((m, "obligation-missing-from-run", "listed in baseline but not generated", ""))

    # covers / canaries are vacuity guards, kept apart from the proof obligations
    covers = [o for o in obligations if o["kind"] == "cover"]
    obligations = [o for o in obligations if o["kind"] != "cover"]
    for o in covers:
        if o["status"] == "uncovered":
            broken.append((o["name"], "vacuous", "precondition / canary is unsatisfiable: the contract is vacuous or too weak", ""))
    cover_unknown = [o["name"] for o in covers if o["status"] == "unknown"]
    if covers and len(cover_unknown) > len(covers) // 2:
        undecided.append(("covers", "solver-unknown", f"{len(cover_unknown)} of {len(covers)} vacuity guards undecided", ""))
    discharged = [o for o in obligations if o["status"] == "proved"]
    refuted = [o for o in obligations if o["status"] == "refuted"]
    unknown = [o for o in obligations if o["status"] in ("unknown", "solver-disagreement")]
    for o in unknown:
        if o["status"] == "solver-disagreement":
            broken.append((o["name"], "solver-disagreement", "z3 and cvc5 disagree", ""))
        else:
            undecided.append((o["name"], "solver-unknown", o.get("reason", ""), ""))

    # ---- violations: refuted obligations and failed bounded checks
    violations = []
    known_lines = []
    downgraded = []
    os.makedirs(os.path.join(os.environ.get("PDV_REPLAY_DIR", os.path.join(VERIF, "replays")), prop), exist_ok=True)
    for o in refuted:
        kf = runner.match_known(prop, o["name"], findings)
        if kf:
            known_lines.append(f"KNOWN-FINDING: property={prop} {kf.get('what', o['name'])}")
            continue
        rep = None
        if hasattr(mod, "replay"):
            try:
                rep = mod.replay(o)
            except Exception as e:
                rep = {"reproduced": None, "error": f"{type(e).__name__}: {e}"}
        if not (rep or {}).get("reproduced"):
            # no replay recipe for this obligation (or it found nothing): a failing input that the native driver of
            # this property found on the same tree, exercising the same functions, is attached instead
            nat = [f for b in bounded for f in b.get("failures", []) if not runner.match_known(prop, f"bounded/{b['name']}/{f.get('id', '')}", findings)]
            if nat:
                rep = {"reproduced": True, "native": nat[0], "previous": rep,
                       "note": "failing input found by the native driver of this property on the same tree (not derived from the solver's model)"}
        if o.get("weak_theory") and not (rep or {}).get("reproduced"):
            # counter-model of the weakened theory that the real code does not reproduce: undecided, not a violation
            _write_replay(prop, o, rep)
            undecided.append((o["name"], "counter-model-of-weakened-theory-not-reproduced",
                              "the solver's model satisfies only the instantiated axioms of an abstraction and the native replay matched the contract", ""))
            unknown.append(o)
            downgraded.append(o)
            continue
        path = _write_replay(prop, o, rep)
        violations.append((o, rep, path))
    refuted = [o for o in refuted if not any(o is d for d in downgraded)]
    for b in bounded:
        for fail in b.get("failures", []):
            nm = f"bounded/{b['name']}/{fail.get('id', '')}"
            kf = runner.match_known(prop, nm, findings)
            if kf:
                line = f"KNOWN-FINDING: property={prop} {kf.get('what', nm)}"
                if line not in known_lines:
                    known_lines.append(line)
                continue
            o = {"name": nm, "status": "failed-natively", "kind": "bounded", "model": None, "info": {**fail, "_seed": b.get("seed", seed), "_tier": tier}}
            path = _write_replay(prop, o, {"reproduced": True, "native": fail})
            violations.append((o, {"reproduced": True}, path))

    wall = time.time() - t0
    if not args.no_evidence and not args.only:
        write_evidence(mod, prop, tier, seed, results, obligations, discharged, refuted, unknown, undecided,
                       broken, bounded, violations, known_lines, wall, covers, cover_unknown)

    # ---- report
    for line in sorted(set(known_lines)):
        print(line)
    n_ob = len(obligations)
    print(f"[{prop}] tier={tier} units={len(units)} obligations={n_ob} (+{len(covers)} vacuity guards, {len(cover_unknown)} undecided) discharged={len(discharged)} "
          f"refuted={len(refuted)} unknown={len(unknown)} bounded_checks={len(bounded)} wall={wall:.1f}s")
    if broken:
        for u, k, msg, tb in broken[:20]:
            print(f"CHECKER-BROKEN property={prop} unit={u} {k}: {msg}")
            if tb:
                print(tb)
        if not violations:
            return 3
    if violations:
        seen = set()
        for o, rep, path in violations:
            tail = ""
            if not (rep and rep.get("reproduced") is True):
                tail = " no-failing-input-found"
            if rep and rep.get("reproduced") is False and rep.get("engine_disagrees"):
                # native run agrees with the specification on the model's input: engine modelling error
                print(f"CHECKER-BROKEN property={prop} obligation={o['name']} refuted but native run satisfies the contract on the counter-model")
                continue
            line = f"VIOLATION property={prop} replay={path}{tail}"
            if line not in seen:
                seen.add(line)
                print(f"  failed obligation: {o['name']}")
                print(line)
        if seen:
            return 1
        return 3
    if undecided:
        for u, k, msg, _ in undecided[:40]:
            print(f"UNDECIDED property={prop} {u} {k}: {str(msg)[:300]}")
        return 2
    if n_ob == 0 and not args.bounded_only:
        print(f"CHECKER-BROKEN property={prop} zero obligations")
        return 3
    return 0


def _write_replay(prop, o, rep):
    h = hashlib.sha256(o["name"].encode()).hexdigest()[:12]
    path = os.path.join(os.environ.get("PDV_REPLAY_DIR", os.path.join(VERIF, "replays")), prop, f"{h}.json")
    doc = {"property": prop, "obligation": o["name"], "status": o["status"], "solver": o.get("solver"),
           "model": o.get("model"), "smt2": o.get("smt2"), "info": o.get("info"), "replay_input": o.get("replay"),
           "native_result": rep}
    json.dump(doc, open(path, "w"), indent=1, default=str)
    return path


def do_replay(mod, prop, path):
    doc = json.load(open(path))
    o = {"name": doc["obligation"], "info": doc.get("info") or {}, "replay": doc.get("replay_input"), "model": doc.get("model"),
         "status": doc.get("status")}
    if doc.get("status") == "failed-natively":
        if hasattr(mod, "replay_bounded"):
            rep = mod.replay_bounded(doc["info"])
        else:
            # the failing input was found by the native driver of this property: run the driver again with the same
            # seed and tier on the current tree and look for the same failure
            info = doc.get("info") or {}
            want = doc["obligation"].split("/")[-1]
            try:
                again = mod.bounded(info.get("_tier", "quick"), info.get("_seed", 0)) or []
                hits = [f for b in again for f in b.get("failures", []) if f.get("id", "") == want]
                rep = {"reproduced": bool(hits), "native": hits[0] if hits else None, "note": "native driver re-run with the recorded seed"}
            except Exception as e:
                rep = {"reproduced": None, "error": f"{type(e).__name__}: {e}"}
    else:
        rep = mod.replay(o) if hasattr(mod, "replay") else None
    print(json.dumps(rep, indent=1, default=str))
    if rep and rep.get("reproduced") is True:
        print(f"VIOLATION property={prop} replay={path}")
        return 1
    return 0


def write_evidence(mod, prop, tier, seed, results, obligations, discharged, refuted, unknown, undecided, broken,
                   bounded, violations, known_lines, wall, covers=(), cover_unknown=()):
    by_solver = {}
    for o in discharged:
        by_solver[o["solver"]] = by_solver.get(o["solver"], 0) + 1
    functions = {}
    dropped, notes, assumptions = set(), set(), []
    map_loops = prange = 0
    for r in results:
        functions.update(r.get("functions", {}))
        dropped |= set(r.get("dropped", []))
        notes |= set(r.get("notes", []))
        for a in r.get("assumptions", []):
            if a not in assumptions:
                assumptions.append(a)
        map_loops += r.get("map_loops", 0)
        prange += r.get("prange_loops", 0)
    samples = []
    for o in obligations[:: max(1, len(obligations) // 6)][:6]:
        samples.append({"obligation": o["name"], "status": o["status"], "solver": o["solver"], "time_s": o["time_s"]})
    level = getattr(mod, "LEVEL", "proof")
    findings = runner.load_known_findings()
    known_refuted = [o["name"] for o in refuted if runner.match_known(prop, o["name"], findings)]
    cov = {
        # obligations refuted exactly as listed in known_findings.json (genuine defects recorded, not repaired) are
        # reported separately: they are not part of what this run claims to have proved
        "obligations": len(obligations) - len(known_refuted),
        "known_finding_obligations": known_refuted,
        "discharged": len(discharged),
        "refuted": len(refuted) - len(known_refuted),
        "undecided": len(unknown) + len(undecided),
        "checker_cmd": f"python3-vt -m pdv.check {prop} --tier {tier}",
        "trusted_base": COMMON_TRUSTED + list(getattr(mod, "TRUSTED", [])),
        "by_backend": by_solver,
        "vacuity_guards": {"covers_and_canaries": len(covers), "satisfiable": sum(1 for o in covers if o["status"] == "covered"), "undecided": list(cover_unknown)[:20]},
        "solver_time_s": round(sum(o["time_s"] for o in obligations), 2),
        "units": len(results),
        "functions_under_contract": functions,
        "n_functions_under_contract": len(functions),
        "symbolic_loops_cut_by_auto_invariant": map_loops,
        "prange_loops_with_schedule_independence_obligation": prange,
        "dropped_by_extraction": sorted(dropped),
        "interpreter_notes": sorted(notes)[:60],
        "samples": samples,
        "bounded_standins": [{k: v for k, v in b.items() if k != "failures"} | {"failures": len(b.get("failures", []))} for b in bounded],
        "known_findings_reported": sorted(set(known_lines)),
        "undecided_items": [f"{u}: {k}" for u, k, _, _ in undecided][:40],
        "evaluations": len(obligations) + sum(b.get("cases", 0) for b in bounded),
        "distinct_nontrivial": len({o["name"] for o in obligations}),
        "rule": "one obligation per (function, configuration, output component, clause); non-trivial = a validity query (covers/canaries excluded); bounded stand-ins are counted in evaluations only",
        "not_covered": list(getattr(mod, "NOT_COVERED", [])),
    }
    ev = {
        "property_id": prop, "tier": tier, "seed": seed, "level": level, "coverage": cov,
        "assumptions": assumptions + list(getattr(mod, "ASSUMPTIONS", [])),
        "wall_s": round(wall, 2), "violations": len(violations),
    }
    os.makedirs(os.path.join(VERIF, "evidence"), exist_ok=True)
    json.dump(ev, open(os.path.join(VERIF, "evidence", f"{prop}.json"), "w"), indent=1, default=str)


if __name__ == "__main__":
    sys.exit(main())
