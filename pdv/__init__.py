"""pdv -- a small verification-condition generator for the numba-style Python subset used by
py-pde.  It never imports ``pde``; it reads /repo with ``ast`` on every run (see DESIGN.md §2)."""

REPO = "/repo"
