"""pdv -- a small verification-condition generator for the numba-style Python subset used by
py-pde.  It never imports ``pde``; it reads /repo with ``ast`` on every run (see DESIGN.md §2)."""

import os as _os

# the registered checks always verify /repo; PDV_REPO lets the seeded-change regression (tools/run_seeds.sh)
# point the same machinery at a scratch worktree
REPO = _os.environ.get("PDV_REPO", "/repo")
