"""Symbolic value domain: scalars (python int / Fraction / bool or z3 terms) and functional arrays.

Semantics assumed (DESIGN.md §2.4): ints are unbounded mathematical integers, floats are
mathematical reals (a float literal denotes the decimal number that is written), no NaN/Inf
except the explicit ``INF`` token.
"""

from __future__ import annotations

import itertools
from fractions import Fraction

import z3


class Unsupported(Exception):
    """The verified code uses something outside the interpreted subset -> UNDECIDED."""


class ScheduleDependence(Unsupported):
    """a scalar that is carried from one iteration of an nb.prange loop to the next is read inside the loop: the
    result depends on how numba distributes the iterations over threads (each thread starts from the initial value)"""


class Opaque:
    """A value the engine does not model (loggers, backends, jit options ...).

    It may be passed around, have attributes taken and be called (all recorded); using it in
    arithmetic that reaches an obligation, a branch, or an index raises Unsupported.
    """

    def __init__(self, what: str):
        self.what = what

    def __repr__(self):
        return f"Opaque({self.what})"


class Inf:
    """+/- infinity token (np.inf, math.inf)."""

    def __init__(self, sign=1):
        self.sign = sign

    def __repr__(self):
        return "inf" if self.sign > 0 else "-inf"

    def __eq__(self, other):
        return isinstance(other, Inf) and other.sign == self.sign

    def __hash__(self):
        return hash(("Inf", self.sign))


INF = Inf(1)
NINF = Inf(-1)

_counter = itertools.count()


def fresh_name(base: str) -> str:
    return f"{base}!{next(_counter)}"


def is_sym(x) -> bool:
    return isinstance(x, z3.ExprRef)


def is_bool(x) -> bool:
    return isinstance(x, bool) or (is_sym(x) and z3.is_bool(x))


def is_int(x) -> bool:
    if isinstance(x, bool):
        return False
    return isinstance(x, int) or (is_sym(x) and z3.is_int(x))


def is_real(x) -> bool:
    return isinstance(x, (Fraction, float)) or (is_sym(x) and z3.is_real(x))


def is_num(x) -> bool:
    return is_int(x) or is_real(x) or isinstance(x, bool)


def is_scalar(x) -> bool:
    return is_num(x) or is_bool(x)


def frac(x) -> Fraction:
    if isinstance(x, float):
        # a float literal denotes the decimal that is written (shortest repr)
        return Fraction(repr(x))
    return Fraction(x)


def to_z3(x):
    if is_sym(x):
        return x
    if isinstance(x, bool):
        return z3.BoolVal(x)
    if isinstance(x, int):
        return z3.IntVal(x)
    if isinstance(x, float):
        x = frac(x)
    if isinstance(x, Fraction):
        return z3.RealVal(x)
    raise Unsupported(f"cannot turn {x!r} into a term")


def to_real(x):
    """z3 Real term (or Fraction) for a numeric value."""
    if is_sym(x):
        if z3.is_int(x):
            return z3.ToReal(x)
        if z3.is_bool(x):
            return z3.If(x, z3.RealVal(1), z3.RealVal(0))
        return x
    if isinstance(x, bool):
        return Fraction(int(x))
    if isinstance(x, (int, float, Fraction)):
        return frac(x)
    raise Unsupported(f"not numeric: {x!r}")


def to_num(x):
    """bools become ints when used arithmetically"""
    if isinstance(x, bool):
        return int(x)
    if is_sym(x) and z3.is_bool(x):
        return z3.If(x, z3.IntVal(1), z3.IntVal(0))
    return x


def simp(x):
    if is_sym(x):
        return z3.simplify(x)
    return x


def concrete(x):
    """python value of a (simplified) term if it is a numeral / boolean constant else None"""
    if not is_sym(x):
        return x
    x = z3.simplify(x)
    if z3.is_int_value(x):
        return x.as_long()
    if z3.is_rational_value(x):
        return Fraction(x.numerator_as_long(), x.denominator_as_long())
    if z3.is_true(x):
        return True
    if z3.is_false(x):
        return False
    return None


def maybe_concrete(x):
    c = concrete(x)
    return x if c is None else c


def _both_int(a, b):
    return is_int(a) and is_int(b)


def _arith_args(a, b):
    """coerce a pair to a common numeric kind, returning (a, b, symbolic?)"""
    a, b = to_num(a), to_num(b)
    if isinstance(a, float):
        a = frac(a)
    if isinstance(b, float):
        b = frac(b)
    if not is_sym(a) and not is_sym(b):
        return a, b, False
    if _both_int(a, b):
        return to_z3(a), to_z3(b), True
    return to_z3(to_real(a)), to_z3(to_real(b)), True


def floor_real(x):
    """floor of a real term as an Int term"""
    if not is_sym(x):
        import math

        return math.floor(x)
    return z3.ToInt(x)  # z3 ToInt is floor


def ceil_real(x):
    if not is_sym(x):
        import math

        return math.ceil(x)
    f = z3.ToInt(x)
    return z3.If(z3.ToReal(f) == x, f, f + 1)


def round_half_even(x):
    """Python's round() / np.round on a real: nearest integer, ties to even"""
    if not is_sym(x):
        return round(frac(x))
    f = z3.ToInt(x)
    d = x - z3.ToReal(f)
    half = z3.RealVal(Fraction(1, 2))
    return z3.If(d < half, f, z3.If(d > half, f + 1, z3.If(f % 2 == 0, f, f + 1)))


POW_FN = z3.Function("pow", z3.RealSort(), z3.RealSort(), z3.RealSort())
SQRT_FN = z3.Function("sqrt", z3.RealSort(), z3.RealSort())
LOG_FN = z3.Function("log", z3.RealSort(), z3.RealSort())
EXP_FN = z3.Function("exp", z3.RealSort(), z3.RealSort())
SIN_FN = z3.Function("sin", z3.RealSort(), z3.RealSort())
COS_FN = z3.Function("cos", z3.RealSort(), z3.RealSort())
SINH_FN = z3.Function("sinh", z3.RealSort(), z3.RealSort())
COSH_FN = z3.Function("cosh", z3.RealSort(), z3.RealSort())
ARCTAN2_FN = z3.Function("arctan2", z3.RealSort(), z3.RealSort(), z3.RealSort())
ARCCOS_FN = z3.Function("arccos", z3.RealSort(), z3.RealSort())
HYPOT_FN = z3.Function("hypot", z3.RealSort(), z3.RealSort(), z3.RealSort())
PI = z3.Real("pi")

USED_AXIOM_FUNCS: set[str] = set()


def ufunc_real(fn, *args):
    USED_AXIOM_FUNCS.add(fn.name())
    return fn(*[to_z3(to_real(a)) for a in args])


def power(a, b):
    a, b = to_num(a), to_num(b)
    if isinstance(b, float):
        b = frac(b)
    if isinstance(b, Fraction) and b.denominator == 1:
        b_int = int(b)
        b_was_real = True
    elif isinstance(b, int):
        b_int = b
        b_was_real = False
    else:
        cb = concrete(b)
        if cb is not None and Fraction(cb).denominator == 1:
            b_int = int(cb)
            b_was_real = not is_int(b)
        else:
            if isinstance(b, Fraction) and b == Fraction(1, 2):
                return ufunc_real(SQRT_FN, a)
            return ufunc_real(POW_FN, a, b)
    if not is_sym(a):
        if isinstance(a, float):
            a = frac(a)
        if b_int >= 0:
            r = a**b_int
            return frac(r) if (b_was_real and isinstance(r, int)) else r
        return Fraction(1) / (Fraction(a) ** (-b_int))
    if abs(b_int) > 8:
        return ufunc_real(POW_FN, a, b_int)
    if b_int == 0:
        return 1 if is_int(a) and not b_was_real else Fraction(1)
    base = a if (is_int(a) and b_int > 0 and not b_was_real) else to_z3(to_real(a))
    r = base
    for _ in range(abs(b_int) - 1):
        r = r * base
    if b_int < 0:
        r = z3.RealVal(1) / r
    return r


def binop(op: str, a, b):
    """arithmetic on scalars with Python semantics (ints exact, floats as reals)"""
    if isinstance(a, Opaque) or isinstance(b, Opaque):
        return Opaque(f"({a!r} {op} {b!r})")
    if isinstance(a, Inf) or isinstance(b, Inf):
        return _inf_binop(op, a, b)
    if op == "**":
        return power(a, b)
    if op in ("&", "|", "^") and is_bool(a) and is_bool(b):
        if not is_sym(a) and not is_sym(b):
            return {"&": a and b, "|": a or b, "^": a != b}[op]
        a, b = to_z3(a), to_z3(b)
        return {"&": z3.And(a, b), "|": z3.Or(a, b), "^": z3.Xor(a, b)}[op]
    x, y, sym = _arith_args(a, b)
    if not sym:
        if op == "+":
            return x + y
        if op == "-":
            return x - y
        if op == "*":
            return x * y
        if op == "/":
            if y == 0:
                raise Unsupported("concrete division by zero")
            return Fraction(x) / Fraction(y)
        if op == "//":
            r = x // y
            return r
        if op == "%":
            return x % y
        raise Unsupported(f"binop {op}")
    if op == "+":
        return x + y
    if op == "-":
        return x - y
    if op == "*":
        return x * y
    if op == "/":
        return to_z3(to_real(x)) / to_z3(to_real(y))
    if op == "//":
        if z3.is_int(x) and z3.is_int(y):
            return _int_floordiv(x, y)
        return z3.ToReal(z3.ToInt(x / y))
    if op == "%":
        if z3.is_int(x) and z3.is_int(y):
            return x - y * _int_floordiv(x, y)
        q = z3.ToReal(z3.ToInt(x / y))
        return x - y * q
    raise Unsupported(f"binop {op}")


def _int_floordiv(x, y):
    cy = concrete(y)
    if cy is not None and cy > 0:
        return x / y
    # z3: x = y*(x div y) + (x mod y), 0 <= mod < |y|.  floor: for y<0, floor(x/y) = -ceil(x/(-y))
    q = x / y
    return z3.If(y > 0, q, z3.If(x % y == 0, q, q - 1))


def _inf_binop(op, a, b):
    def sign_of(v):
        c = concrete(v) if not isinstance(v, Inf) else None
        if isinstance(v, Inf):
            return v.sign
        if c is None:
            raise Unsupported("arithmetic of infinity with a symbolic value")
        return (c > 0) - (c < 0)

    if op in ("+", "-"):
        if isinstance(a, Inf) and not isinstance(b, Inf):
            return a
        if isinstance(b, Inf) and not isinstance(a, Inf):
            return b if op == "+" else Inf(-b.sign)
        sb = b.sign if op == "+" else -b.sign
        if a.sign == sb:
            return a
        raise Unsupported("inf - inf")
    if op == "*":
        s = sign_of(a) * sign_of(b)
        if s == 0:
            raise Unsupported("0 * inf")
        return Inf(s)
    if op == "/":
        if isinstance(b, Inf) and not isinstance(a, Inf):
            return Fraction(0)
        if isinstance(a, Inf) and not isinstance(b, Inf):
            s = sign_of(b)
            if s == 0:
                raise Unsupported("inf / 0")
            return Inf(a.sign * s)
    raise Unsupported(f"infinity in {op}")


def neg(a):
    if isinstance(a, Opaque):
        return a
    if isinstance(a, Inf):
        return Inf(-a.sign)
    a = to_num(a)
    if isinstance(a, float):
        a = frac(a)
    return -a


def compare(op: str, a, b):
    """comparison with Python semantics; returns bool or z3 Bool"""
    if isinstance(a, Opaque) or isinstance(b, Opaque):
        return Opaque(f"({a!r} {op} {b!r})")
    if isinstance(a, Inf) or isinstance(b, Inf):
        return _inf_compare(op, a, b)
    if is_bool(a) and is_bool(b) and op in ("==", "!="):
        if not is_sym(a) and not is_sym(b):
            return (a == b) if op == "==" else (a != b)
        a, b = to_z3(a), to_z3(b)
        return (a == b) if op == "==" else (a != b)
    if not (is_num(a) or is_bool(a)) or not (is_num(b) or is_bool(b)):
        # non numeric: plain python comparison (strings, tuples, None ...)
        if op == "==":
            return a == b
        if op == "!=":
            return a != b
        if op == "<":
            return a < b
        if op == "<=":
            return a <= b
        if op == ">":
            return a > b
        if op == ">=":
            return a >= b
    x, y, sym = _arith_args(a, b)
    if op == "==":
        r = x == y
    elif op == "!=":
        r = x != y
    elif op == "<":
        r = x < y
    elif op == "<=":
        r = x <= y
    elif op == ">":
        r = x > y
    elif op == ">=":
        r = x >= y
    else:
        raise Unsupported(f"compare {op}")
    if sym:
        c = concrete(r)
        return r if c is None else c
    return bool(r)


def _inf_compare(op, a, b):
    if isinstance(a, Inf) and isinstance(b, Inf):
        x, y = a.sign, b.sign
    elif isinstance(a, Inf):
        x, y = a.sign, 0
    else:
        x, y = 0, b.sign
    # a finite value compares like 0 against +-inf
    return {"==": x == y, "!=": x != y, "<": x < y, "<=": x <= y, ">": x > y, ">=": x >= y}[op]


def logical_not(a):
    if isinstance(a, Opaque):
        return a
    if is_sym(a):
        if not z3.is_bool(a):
            return simp(a == 0)
        return maybe_concrete(z3.Not(a))
    return not a


def ite(c, a, b):
    """value-level if-then-else on scalars"""
    cc = concrete(c) if is_sym(c) else c
    if cc is True:
        return a
    if cc is False:
        return b
    if isinstance(a, Inf) or isinstance(b, Inf):
        raise Unsupported("symbolic choice involving infinity")
    if is_bool(a) and is_bool(b):
        return z3.If(c, to_z3(a), to_z3(b))
    x, y, _ = _arith_args(a, b)
    return z3.If(c, to_z3(x), to_z3(y))


def smin(a, b):
    if isinstance(a, Inf):
        return b if a.sign > 0 else a
    if isinstance(b, Inf):
        return a if b.sign > 0 else b
    if not is_sym(a) and not is_sym(b):
        return min(to_num(a), to_num(b))
    return ite(compare("<=", a, b), a, b)


def smax(a, b):
    if isinstance(a, Inf):
        return a if a.sign > 0 else b
    if isinstance(b, Inf):
        return b if b.sign > 0 else a
    if not is_sym(a) and not is_sym(b):
        return max(to_num(a), to_num(b))
    return ite(compare(">=", a, b), a, b)


def sabs(a):
    if isinstance(a, Inf):
        return INF
    if not is_sym(a):
        a = to_num(a)
        return abs(frac(a)) if isinstance(a, float) else abs(a)
    return z3.If(a >= 0, a, -a)


def term_consts(t, acc=None):
    """set of uninterpreted constants (by id) occurring in a term"""
    if acc is None:
        acc = {}
    seen = set()

    def rec(e):
        if e.get_id() in seen:
            return
        seen.add(e.get_id())
        if z3.is_const(e) and e.decl().kind() == z3.Z3_OP_UNINTERPRETED:
            acc[e.get_id()] = e
        for ch in e.children():
            rec(ch)

    if is_sym(t):
        rec(t)
    return acc


def mentions(t, consts) -> bool:
    if not is_sym(t):
        return False
    ids = {c.get_id() for c in consts}
    return any(i in ids for i in term_consts(t))
