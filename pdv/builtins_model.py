"""Models of Python builtins, math, numba decorators and the NumPy functions the verified code uses.

Every entry here is part of the trusted base (DESIGN.md §2.4(4)); the thorough tier conformance-
tests the NumPy entries against real NumPy.
"""

from __future__ import annotations

import itertools
from fractions import Fraction

import z3

from . import arrays as A
from .arrays import NDArr
from .ctx import PyRaise
from .objects import BoundMethod, Class, Function, Instance, NativeMethod, RangeVal
from .values import (
    ARCCOS_FN,
    ARCTAN2_FN,
    COS_FN,
    EXP_FN,
    HYPOT_FN,
    INF,
    LOG_FN,
    NINF,
    PI,
    SIN_FN,
    SINH_FN,
    COSH_FN,
    SQRT_FN,
    Inf,
    Opaque,
    Unsupported,
    binop,
    ceil_real,
    compare,
    concrete,
    floor_real,
    frac,
    is_bool,
    is_int,
    is_num,
    is_real,
    is_scalar,
    is_sym,
    ite,
    logical_not,
    power,
    round_half_even,
    sabs,
    simp,
    smax,
    smin,
    to_real,
    to_z3,
    ufunc_real,
)


class StubModule:
    def __init__(self, name, attrs):
        self.name = name
        self.attrs = attrs

    def __repr__(self):
        return f"<stub module {self.name}>"


def _identity_decorator(*args, **kwargs):
    """jit / register_jitable / fill_in_docstring: both ``@deco`` and ``@deco(...)`` forms"""
    if len(args) == 1 and not kwargs and isinstance(args[0], (Function, BoundMethod)):
        return args[0]
    if args and callable(args[0]) and not kwargs:
        return args[0]

    def deco(f):
        return f

    return deco


def _to_float(x):
    if isinstance(x, NDArr):
        if x.ndim == 0 or all(concrete(s) == 1 for s in x.shape):
            return _to_float(x.read(tuple(0 for _ in x.shape)))
        raise Unsupported("float() of an array")
    if isinstance(x, Inf):
        return x
    if isinstance(x, str):
        if x in ("inf", "+inf"):
            return INF
        if x == "-inf":
            return NINF
        return Fraction(x)
    if isinstance(x, Opaque):
        return x
    return to_real(x)


def _to_int(x):
    if isinstance(x, NDArr):
        return _to_int(x.read(tuple(0 for _ in x.shape)))
    if isinstance(x, bool):
        return int(x)
    if is_int(x):
        return x
    if isinstance(x, Opaque):
        return x
    if isinstance(x, str):
        return int(x)
    if not is_sym(x):
        x = frac(x)
        return int(x)  # truncation toward zero
    f = z3.ToInt(x)
    return z3.If(x >= 0, f, z3.If(z3.ToReal(f) == x, f, f + 1))


def _round(x, nd=None):
    if nd is not None:
        raise Unsupported("round with digits")
    if is_int(x):
        return x
    return round_half_even(x)


def make_builtins(interp):
    def _len(x):
        if isinstance(x, NDArr):
            if x.ndim == 0:
                raise PyRaise("TypeError", ("len() of unsized object",))
            return x.shape[0]
        if isinstance(x, RangeVal):
            return smax(0, binop("-", x.stop, x.start))
        if isinstance(x, Instance):
            if "__len__" in x.attrs:
                return interp.call(x.attrs["__len__"], [], {})
            if x.cls is not None:
                m, _ = x.cls.lookup("__len__")
                if m is not None:
                    return interp.call_function(m, [x], {})
        if isinstance(x, Opaque):
            return Opaque(f"len({x.what})")
        if is_scalar(x) or x is None:
            raise PyRaise("TypeError", ("object has no len()",))
        return len(x)

    def _range(*args):
        if len(args) == 1:
            return RangeVal(0, args[0], 1)
        if len(args) == 2:
            return RangeVal(args[0], args[1], 1)
        return RangeVal(*args)

    def _isinstance(obj, cls):
        if isinstance(obj, Opaque):
            return Opaque("isinstance")
        if isinstance(cls, tuple):
            rs = [_isinstance(obj, c) for c in cls]
            if any(r is True for r in rs):
                return True
            if any(isinstance(r, Opaque) for r in rs):
                return Opaque("isinstance")
            return False
        if isinstance(cls, Class):
            if isinstance(obj, Instance):
                if obj.cls is None:
                    tags = obj.attrs.get("__isinstance__", ())
                    return cls.name in tags
                return obj.cls.is_subclass(cls) or cls.name in obj.attrs.get("__isinstance__", ())
            return False
        if isinstance(cls, TypeTag):
            return cls.check(obj)
        if cls is slice:
            return isinstance(obj, slice)
        if isinstance(cls, ExcTag):
            return isinstance(obj, PyRaise) and (obj.exc_type == cls.name or cls.name in ("Exception", "BaseException"))
        if isinstance(cls, Opaque):
            if isinstance(obj, (Instance, NDArr)) or is_scalar(obj) or isinstance(obj, (str, list, tuple, dict)) or obj is None:
                if "numbers" in cls.what:
                    return is_num(obj)
                # classes of libraries that are not modelled: none of the modelled values is an instance
                if any(t in cls.what for t in FOREIGN_CLASSES):
                    return False
                ISINSTANCE_OPAQUE_LOG.add(cls.what)
            return Opaque("isinstance")
        raise Unsupported(f"isinstance(_, {cls!r})")

    def _min(*args, **kw):
        if kw:
            raise Unsupported("min with key/default")
        items = interp.iterate(args[0]) if len(args) == 1 else list(args)
        r = items[0]
        for x in items[1:]:
            r = smin(r, x)
        return r

    def _max(*args, **kw):
        if kw:
            raise Unsupported("max with key/default")
        items = interp.iterate(args[0]) if len(args) == 1 else list(args)
        r = items[0]
        for x in items[1:]:
            r = smax(r, x)
        return r

    def _sum(it, start=0):
        r = start
        for x in interp.iterate(it):
            r = interp.binop("+", r, x)
        return r

    def _all(it):
        cs = [interp.truth(x) for x in interp.iterate(it)]
        if any(c is False for c in cs):
            return False
        cs = [c for c in cs if c is not True]
        if not cs:
            return True
        if any(isinstance(c, Opaque) for c in cs):
            return Opaque("all")
        return z3.And(*cs) if len(cs) > 1 else cs[0]

    def _any(it):
        cs = [interp.truth(x) for x in interp.iterate(it)]
        if any(c is True for c in cs):
            return True
        cs = [c for c in cs if c is not False]
        if not cs:
            return False
        if any(isinstance(c, Opaque) for c in cs):
            return Opaque("any")
        return z3.Or(*cs) if len(cs) > 1 else cs[0]

    def _enumerate(it, start=0):
        return [(i + start, x) for i, x in enumerate(interp.iterate(it))]

    def _zip(*its, strict=False):
        lists = [interp.iterate(i) for i in its]
        if strict and len({len(x) for x in lists}) > 1:
            raise PyRaise("ValueError", ("zip() arguments have different lengths",))
        return list(zip(*lists))

    def _getattr(obj, name, *default):
        try:
            return interp.getattr(obj, name)
        except Unsupported:
            if default:
                return default[0]
            raise

    def _hasattr(obj, name):
        if name == "__iter__" and not isinstance(obj, Instance):
            return isinstance(obj, (list, tuple, dict, set, str, NDArr, RangeVal))
        if name == "__len__" and not isinstance(obj, Instance):
            return isinstance(obj, (list, tuple, dict, set, str)) or (isinstance(obj, NDArr) and obj.ndim > 0)
        if isinstance(obj, Instance):
            if name in obj.attrs:
                return True
            if obj.cls is not None:
                m, _ = obj.cls.lookup(name)
                from .objects import Property
                if isinstance(m, Property):
                    # hasattr evaluates the property: an AttributeError inside the getter means False
                    try:
                        interp.getattr(obj, name)
                        return True
                    except PyRaise as e:
                        if e.exc_type == "AttributeError":
                            return False
                        raise
                return m is not None
            return False
        if isinstance(obj, Opaque):
            return Opaque("hasattr")
        try:
            interp.getattr(obj, name)
            return True
        except Unsupported:
            return False

    def _abs(x):
        if isinstance(x, NDArr):
            return A.elementwise(sabs, x, name="abs")
        return sabs(x)

    def _divmod(a, b):
        return (binop("//", a, b), binop("%", a, b))

    def _callable(x):
        return isinstance(x, (Function, BoundMethod, Class, NativeMethod)) or (callable(x) and not isinstance(x, (Instance, Opaque)))

    def _type(x):
        if isinstance(x, Instance):
            return x.cls
        return TypeTag.of(x)

    def _sorted(it, key=None, reverse=False):
        items = interp.iterate(it)
        if key is not None:
            raise Unsupported("sorted with key")
        if any(is_sym(x) for x in items):
            raise Unsupported("sorting symbolic values")
        return sorted(items, reverse=reverse)

    def _tuple(it=()):
        return tuple(interp.iterate(it))

    def _list(it=()):
        return list(interp.iterate(it))

    def _bool(x=False):
        return interp.truth(x)

    def _str(x=""):
        if isinstance(x, str):
            return x
        if isinstance(x, int) and not isinstance(x, bool):
            return str(x)
        return Opaque("str(...)")

    def _iter(x):
        return ListIterator(interp.iterate(x))

    def _next(it, *default):
        if isinstance(it, ListIterator):
            if it.pos >= len(it.items):
                if default:
                    return default[0]
                raise PyRaise("StopIteration")
            it.pos += 1
            return it.items[it.pos - 1]
        raise Unsupported("next() on unmodelled iterator")

    b = {
        "len": _len, "range": _range, "isinstance": _isinstance, "min": _min, "max": _max, "sum": _sum,
        "all": _all, "any": _any, "enumerate": _enumerate, "zip": _zip, "getattr": _getattr,
        "hasattr": _hasattr, "abs": _abs, "divmod": _divmod, "callable": _callable, "type": _type,
        "sorted": _sorted, "tuple": TypeTag("tuple", _tuple), "list": TypeTag("list", _list), "bool": TypeTag("bool", _bool), "str": TypeTag("str", _str),
        "float": TypeTag("float", _to_float), "int": TypeTag("int", _to_int), "round": _round,
        "dict": TypeTag("dict", lambda *a, **k: dict(*a, **k)), "set": TypeTag("set", lambda it=(): set(interp.iterate(it))),
        "frozenset": TypeTag("frozenset", lambda it=(): frozenset(interp.iterate(it))),
        "reversed": lambda it: list(reversed(interp.iterate(it))),
        "iter": _iter, "next": _next, "id": lambda x: id(x), "repr": lambda x: Opaque("repr"),
        "print": lambda *a, **k: None, "slice": slice, "Ellipsis": Ellipsis,
        "True": True, "False": False, "None": None, "NotImplemented": Opaque("NotImplemented"),
        "complex": TypeTag("complex", lambda *a: (_ for _ in ()).throw(Unsupported("complex()"))),
        "object": TypeTag("object", None), "issubclass": lambda a, b: (a.is_subclass(b) if isinstance(a, Class) and isinstance(b, Class) else Opaque("issubclass")),
        "pow": power, "map": lambda f, *its: [interp.call(f, list(xs), {}) for xs in zip(*[interp.iterate(i) for i in its])],
        "filter": lambda f, it: [x for x in interp.iterate(it) if interp.truth(interp.call(f, [x], {}))],
        "vars": lambda o: o.attrs, "hash": lambda o: Opaque("hash"),
    }
    for exc in ("ValueError", "TypeError", "RuntimeError", "NotImplementedError", "IndexError", "KeyError",
                "StopIteration", "AssertionError", "AttributeError", "Exception", "DeprecationWarning",
                "ZeroDivisionError", "OverflowError", "ImportError", "ModuleNotFoundError", "UserWarning",
                "FloatingPointError", "ArithmeticError", "LookupError", "OSError", "BaseException"):
        b[exc] = ExcTag(exc)
    return b


# unmodelled library classes whose instances cannot occur among the modelled values (isinstance is False)
FOREIGN_CLASSES = ("sympy", "h5py", "numba.types", "nb.types", "types.", "jax", "torch", "scipy", "mpi4py", "pathlib", "Path", "logging", "matplotlib", "ExprRef")
ISINSTANCE_OPAQUE_LOG: set = set()


class ExcTag:
    def __init__(self, name):
        self.name = name

    def __call__(self, *args):
        return PyRaise(self.name, args)

    def __repr__(self):
        return self.name


class ListIterator:
    def __init__(self, items):
        self.items, self.pos = items, 0


class TypeTag:
    """python builtin types used both as constructors and in isinstance"""

    def __init__(self, name, ctor):
        self.name, self.ctor = name, ctor

    def __call__(self, *a, **k):
        if self.ctor is None:
            raise Unsupported(f"calling type {self.name}")
        return self.ctor(*a, **k)

    def __repr__(self):
        return f"<type {self.name}>"

    def __eq__(self, other):
        return isinstance(other, TypeTag) and other.name == self.name

    def __hash__(self):
        return hash(("TypeTag", self.name))

    @staticmethod
    def of(x):
        if isinstance(x, bool) or (is_sym(x) and z3.is_bool(x)):
            return TypeTag("bool", None)
        if is_int(x):
            return TypeTag("int", None)
        if is_real(x) or isinstance(x, Inf):
            return TypeTag("float", None)
        for t, n in ((str, "str"), (list, "list"), (tuple, "tuple"), (dict, "dict"), (set, "set")):
            if isinstance(x, t):
                return TypeTag(n, None)
        if isinstance(x, NDArr):
            return TypeTag("ndarray", None)
        if x is None:
            return TypeTag("NoneType", None)
        return Opaque("type(...)")

    def check(self, obj):
        n = self.name
        if n == "object":
            return True
        if n == "bool":
            return is_bool(obj) and not isinstance(obj, Opaque)
        if n == "int":
            return is_int(obj) or isinstance(obj, bool)
        if n == "float":
            return is_real(obj) or isinstance(obj, Inf)
        if n == "complex":
            return False
        if n in ("number", "Number", "Real", "Integral", "Complex"):
            if n == "Integral":
                return is_int(obj)
            return is_num(obj) or isinstance(obj, Inf)
        if n == "str":
            return isinstance(obj, str)
        if n == "list":
            return isinstance(obj, list)
        if n == "tuple":
            return isinstance(obj, tuple)
        if n == "dict":
            return isinstance(obj, dict)
        if n in ("set", "frozenset"):
            return isinstance(obj, (set, frozenset))
        if n == "ndarray":
            return isinstance(obj, NDArr)
        if n in ("Sequence",):
            return isinstance(obj, (list, tuple, str))
        if n in ("Iterable",):
            return isinstance(obj, (list, tuple, str, dict, set, NDArr, RangeVal))
        if n in ("Callable",):
            return isinstance(obj, (Function, BoundMethod, NativeMethod)) or (callable(obj) and not isinstance(obj, (Instance, Opaque, TypeTag)))
        if n == "NoneType":
            return obj is None
        if n == "slice":
            return isinstance(obj, slice)
        if n == "range":
            return isinstance(obj, RangeVal)
        raise Unsupported(f"isinstance check against {n}")


# ---------------------------------------------------------------------------------- numpy model
def _lift1(fn, name, kind="real"):
    def f(x, *a, **k):
        if isinstance(x, (list, tuple)):
            x = A.array_from_nested(x)
        if isinstance(x, NDArr):
            return A.elementwise(fn, x, name=name, kind=kind)
        if isinstance(x, Opaque):
            return x
        return fn(x)

    return f


def _lift2(fn, name, kind="real"):
    def f(x, y, *a, **k):
        if isinstance(x, (list, tuple)):
            x = A.array_from_nested(x)
        if isinstance(y, (list, tuple)):
            y = A.array_from_nested(y)
        if isinstance(x, NDArr) or isinstance(y, NDArr):
            return A.elementwise(fn, x, y, name=name, kind=kind)
        if isinstance(x, Opaque) or isinstance(y, Opaque):
            return Opaque(name)
        return fn(x, y)

    return f


def _sqrt(x):
    c = concrete(x) if is_sym(x) else x
    if c is not None and not isinstance(c, Inf):
        c = frac(c)
        import math

        for v in (c.numerator, c.denominator):
            if math.isqrt(v) ** 2 != v:
                break
        else:
            return Fraction(math.isqrt(c.numerator), math.isqrt(c.denominator))
    return ufunc_real(SQRT_FN, x)


def _sin(x):
    if not is_sym(x) and x == 0:
        return Fraction(0)
    return ufunc_real(SIN_FN, x)


def _sinh(x):
    if not is_sym(x) and x == 0:
        return Fraction(0)
    return ufunc_real(SINH_FN, x)


def _cosh(x):
    if not is_sym(x) and x == 0:
        return Fraction(1)
    return ufunc_real(COSH_FN, x)


def _cos(x):
    if not is_sym(x) and x == 0:
        return Fraction(1)
    return ufunc_real(COS_FN, x)


def _shape_tuple(shape, interp):
    if isinstance(shape, (list, tuple)):
        return tuple(shape)
    if isinstance(shape, NDArr):
        return tuple(shape.elements())
    return (shape,)


def _const_array(val):
    def make(shape, dtype=None, **k):
        shape = _shape_tuple(shape, None)
        return A.fresh_array("const", shape, lambda idx: val)

    return make


def _sum_elements(items):
    r = 0
    for x in items:
        r = binop("+", r, x)
    return r


def _np_issubdtype(a, b):
    """the arrays of the model hold real numbers, i.e. they stand for floating-point arrays (like isrealobj / iscomplexobj
    below): the dtype of a modelled array is no integer type and is a floating type; integer-typed arrays are outside the
    model (bounded native cases cover them); anything else stays unmodelled"""
    if isinstance(a, Opaque) and a.what == "dtype" and isinstance(b, TypeTag):
        if b.name == "Integral":
            return False
        if b.name == "float":
            return True
    return Opaque("issubdtype")


def _np_sum(interp):
    def f(x, axis=None, **k):
        if isinstance(x, (list, tuple)):
            x = A.array_from_nested(x)
        if not isinstance(x, NDArr):
            return x
        if axis is None:
            if any(is_sym(s) for s in x.shape):
                raise Unsupported("sum over all elements of an array whose shape is symbolic")
            flat = A._flatten(x.elements(), x.ndim) if x.ndim else [x.read(())]
            return _sum_elements(flat)
        return _reduce_axis(x, axis, _sum_elements, interp)

    return f


def _reduce_axis(x, axis, red, interp):
    if isinstance(axis, (tuple, list)):
        for a in sorted([a % x.ndim for a in axis], reverse=True):
            x = _reduce_axis(x, a, red, interp)
        return x
    axis = axis % x.ndim
    n = concrete(x.shape[axis])
    if n is None:
        raise Unsupported("reduction along an axis of symbolic length")
    rd = x.frozen()
    new_shape = x.shape[:axis] + x.shape[axis + 1 :]

    def fn(idx):
        return red([rd(tuple(idx[:axis]) + (j,) + tuple(idx[axis:])) for j in range(n)])

    if not new_shape:
        return fn(())
    return A.fresh_array("reduce", new_shape, fn)


def make_numpy(interp):
    def np_array(obj, dtype=None, copy=True, **k):
        if isinstance(obj, NDArr):
            return obj.copy()
        if isinstance(obj, (list, tuple)):
            return A.array_from_nested(obj)
        if is_scalar(obj):
            return A.fresh_array("scalar", (), lambda idx: obj)
        if isinstance(obj, Opaque):
            return obj
        raise Unsupported(f"np.array of {type(obj).__name__}")

    def np_asarray(obj, dtype=None, **k):
        if isinstance(obj, NDArr):
            return obj
        return np_array(obj)

    def np_empty_like(x, dtype=None, **k):
        return A.sym_array(A.fresh_name("empty"), x.shape)

    def np_empty(shape, dtype=None, **k):
        return A.sym_array(A.fresh_name("empty"), _shape_tuple(shape, interp))

    def np_full_like(x, val, dtype=None, **k):
        if isinstance(x, (list, tuple)):
            x = A.array_from_nested(x)
        if not isinstance(x, NDArr):
            return val  # 0-d result treated as a scalar
        return A.fresh_array("full_like", x.shape, lambda idx: val)

    def np_zeros_like(x, dtype=None, **k):
        return np_full_like(x, Fraction(0))

    def np_ones_like(x, dtype=None, **k):
        return np_full_like(x, Fraction(1))

    def np_full(shape, val, **k):
        return A.fresh_array("full", _shape_tuple(shape, interp), lambda idx: val)

    def np_arange(*args, **k):
        if len(args) == 1:
            start, stop = 0, args[0]
        else:
            start, stop = args[0], args[1]
        if len(args) > 2 and concrete(args[2]) != 1:
            raise Unsupported("arange with step")
        n = binop("-", stop, start)
        return A.fresh_array("arange", (n,), lambda idx: binop("+", start, idx[0]), kind="int")

    def np_isclose(a, b, *args, **kw):
        if is_scalar(a) and is_scalar(b) and not isinstance(a, NDArr) and not isinstance(b, NDArr):
            # closeness within floating-point tolerances has no counterpart over the reals: arbitrary outcome
            return z3.Bool(A.fresh_name("np.isclose"))
        return Opaque("np.isclose")

    def np_isscalar(x):
        return is_scalar(x) and not isinstance(x, NDArr)

    def np_ndim(x):
        if isinstance(x, NDArr):
            return x.ndim
        if isinstance(x, (list, tuple)):
            return A.array_from_nested(x).ndim
        return 0

    def np_shape(x):
        if isinstance(x, NDArr):
            return x.shape
        if isinstance(x, (list, tuple)):
            return A.array_from_nested(x).shape
        return ()

    def np_where(c, a, b):
        return A.elementwise(lambda cc, x, y: ite(cc, x, y) if is_sym(cc) else (x if cc else y), c, a, b, name="where")

    def np_prod(x, axis=None, **k):
        if isinstance(x, (list, tuple)):
            items = list(x)
        elif isinstance(x, NDArr):
            if axis is not None:
                def red(items):
                    r = 1
                    for it in items:
                        r = binop("*", r, it)
                    return r
                return _reduce_axis(x, axis, red, interp)
            items = A._flatten(x.elements(), x.ndim)
        else:
            return x
        r = 1
        for it in items:
            r = binop("*", r, it)
        return r

    def np_dot(a, b):
        if isinstance(a, (list, tuple)):
            a = A.array_from_nested(a)
        if isinstance(b, (list, tuple)):
            b = A.array_from_nested(b)
        if a.ndim == 1 and b.ndim == 1:
            n = concrete(a.shape[0])
            if n is None:
                raise Unsupported("dot of symbolic length")
            return _sum_elements([binop("*", a.read((j,)), b.read((j,))) for j in range(n)])
        if a.ndim == 2 and b.ndim == 1:
            n = concrete(a.shape[1])
            ra, rb = a.frozen(), b.frozen()
            return A.fresh_array("dot", (a.shape[0],), lambda idx: _sum_elements([binop("*", ra((idx[0], j)), rb((j,))) for j in range(n)]))
        raise Unsupported("np.dot shapes")

    def np_broadcast_to(x, shape):
        shape = _shape_tuple(shape, interp)
        if isinstance(x, (list, tuple)):
            x = A.array_from_nested(x)
        if not isinstance(x, NDArr):
            return A.fresh_array("bcast", shape, lambda idx: x)
        rd = x.frozen()
        return A.fresh_array("bcast", shape, lambda idx: rd(A.broadcast_index(x.shape, shape, idx)))

    def np_moveaxis(x, src, dst):
        n = x.ndim
        src, dst = src % n, dst % n
        order = [a for a in range(n) if a != src]
        order.insert(dst, src)
        # view with permuted axes
        inv = {old: new for new, old in enumerate(order)}
        imap = [m if m[0] == "fix" else ("ax", inv[m[1]], m[2], m[3]) for m in x.imap]
        return NDArr(x.buf, imap, tuple(x.shape[o] for o in order))

    def np_atleast_1d(x):
        if isinstance(x, NDArr):
            if x.ndim == 0:
                return x.index((None,))
            return x
        if isinstance(x, (list, tuple)):
            return A.array_from_nested(x)
        return A.fresh_array("atleast1d", (1,), lambda idx: x)

    def np_linspace(a, b, n, endpoint=True, **k):
        cn = concrete(n)
        if endpoint:
            step = binop("/", binop("-", b, a), binop("-", n, 1))
        else:
            step = binop("/", binop("-", b, a), n)
        return A.fresh_array("linspace", (n,), lambda idx: binop("+", a, binop("*", idx[0], step)))

    def np_diff(x):
        rd = x.frozen()
        n = binop("-", x.shape[0], 1)
        return A.fresh_array("diff", (n,), lambda idx: binop("-", rd((binop("+", idx[0], 1),)), rd((idx[0],))))

    def np_any(x, **k):
        if isinstance(x, NDArr):
            flat = A._flatten(x.elements(), x.ndim) if x.ndim else [x.read(())]
            return interp.builtins["any"](flat)
        return interp.builtins["any"](x) if isinstance(x, (list, tuple)) else interp.truth(x)

    def np_all(x, **k):
        if isinstance(x, NDArr):
            flat = A._flatten(x.elements(), x.ndim) if x.ndim else [x.read(())]
            return interp.builtins["all"](flat)
        return interp.builtins["all"](x) if isinstance(x, (list, tuple)) else interp.truth(x)

    def np_isfinite(x):
        if isinstance(x, Inf):
            return False
        if isinstance(x, NDArr):
            return A.elementwise(lambda v: True, x, name="isfinite", kind="bool")
        return True

    def np_isinf(x):
        return isinstance(x, Inf)

    def np_isnan(x):
        if isinstance(x, NDArr):
            return A.elementwise(lambda v: False, x, name="isnan", kind="bool")
        return False

    def np_zeros(shape, dtype=None, **k):
        return A.fresh_array("zeros", _shape_tuple(shape, interp), lambda idx: Fraction(0) if dtype is None or "int" not in str(dtype) else 0)

    def np_ones(shape, dtype=None, **k):
        return A.fresh_array("ones", _shape_tuple(shape, interp), lambda idx: Fraction(1))

    def np_floor(x):
        return to_real(floor_real(to_real(x)))

    def np_ceil(x):
        return to_real(ceil_real(to_real(x)))

    def np_max(x, axis=None, **k):
        if isinstance(x, NDArr):
            flat = A._flatten(x.elements(), x.ndim) if x.ndim else [x.read(())]
        else:
            flat = interp.iterate(x)
        r = flat[0]
        for v in flat[1:]:
            r = smax(r, v)
        return r

    def np_min(x, axis=None, **k):
        if isinstance(x, NDArr):
            flat = A._flatten(x.elements(), x.ndim) if x.ndim else [x.read(())]
        else:
            flat = interp.iterate(x)
        r = flat[0]
        for v in flat[1:]:
            r = smin(r, v)
        return r

    def np_stack(arrs, axis=0):
        arrs = interp.iterate(arrs)
        res = A.array_from_nested([a if isinstance(a, NDArr) else A.fresh_array("s", (), lambda idx, a=a: a) for a in arrs])
        if axis in (0,):
            return res
        return np_moveaxis(res, 0, axis)

    def np_searchsorted(seq, v, side="left"):
        items = interp.iterate(seq)
        k = 0
        for x in items:
            c = compare("<", x, v) if side == "left" else compare("<=", x, v)
            if not isinstance(c, bool):
                c = interp.ctx.branch(c)
            if c:
                k += 1
            else:
                break
        return k

    def np_einsum(spec, *ops, out=None, **k):
        spec = spec.replace(" ", "")
        ops = [A.array_from_nested(o) if isinstance(o, (list, tuple)) else o for o in ops]
        if spec == "j...,ji...->i..." and ops[0].ndim == 1 and ops[1].ndim == 2:
            comp, rot = ops
            n = concrete(comp.shape[0])
            rc, rr = comp.frozen(), rot.frozen()
            return A.fresh_array("einsum", (rot.shape[1],), lambda idx: _sum_elements([binop("*", rc((j,)), rr((j, idx[0]))) for j in range(n)]))
        raise Unsupported(f"einsum `{spec}` with these operand ranks")

    def np_mod(a, b):
        return _lift2(lambda x, y: binop("%", x, y), "mod")(a, b)

    attrs = {
        "array": np_array, "asarray": np_asarray, "asanyarray": np_asarray, "ascontiguousarray": np_asarray,
        "empty_like": np_empty_like, "full_like": np_full_like, "empty": np_empty, "zeros_like": np_zeros_like, "ones_like": np_ones_like,
        "zeros": np_zeros, "ones": np_ones, "full": np_full, "arange": np_arange,
        "isclose": np_isclose, "allclose": lambda *a, **k: Opaque("np.allclose"),
        "isscalar": np_isscalar, "ndim": np_ndim, "shape": np_shape, "where": np_where,
        "prod": np_prod, "sum": _np_sum(interp), "dot": np_dot, "broadcast_to": np_broadcast_to,
        "moveaxis": np_moveaxis, "atleast_1d": np_atleast_1d, "linspace": np_linspace, "diff": np_diff,
        "any": np_any, "all": np_all, "isfinite": np_isfinite, "isinf": np_isinf, "isnan": np_isnan,
        "sqrt": _lift1(_sqrt, "sqrt"), "sin": _lift1(_sin, "sin"), "cos": _lift1(_cos, "cos"), "sinh": _lift1(_sinh, "sinh"), "cosh": _lift1(_cosh, "cosh"),
        "exp": _lift1(lambda x: ufunc_real(EXP_FN, x), "exp"), "log": _lift1(lambda x: ufunc_real(LOG_FN, x), "log"),
        "abs": _lift1(sabs, "abs"), "absolute": _lift1(sabs, "abs"), "fabs": _lift1(sabs, "abs"),
        "arctan2": _lift2(lambda y, x: ufunc_real(ARCTAN2_FN, y, x), "arctan2"),
        "arccos": _lift1(lambda x: ufunc_real(ARCCOS_FN, x), "arccos"),
        "hypot": _lift2(lambda x, y: ufunc_real(HYPOT_FN, x, y), "hypot"),
        "floor": _lift1(np_floor, "floor"), "ceil": _lift1(np_ceil, "ceil"),
        "round": _lift1(lambda x: to_real(round_half_even(to_real(x))), "round"),
        "rint": _lift1(lambda x: to_real(round_half_even(to_real(x))), "rint"),
        "minimum": _lift2(smin, "minimum"), "maximum": _lift2(smax, "maximum"),
        "max": np_max, "min": np_min, "amax": np_max, "amin": np_min,
        "mod": np_mod, "remainder": np_mod, "power": _lift2(power, "power"),
        "divmod": lambda a, b: (_lift2(lambda x, y: to_real(floor_real(binop("/", x, y))), "fdiv")(a, b), np_mod(a, b)),
        "logical_not": _lift1(logical_not, "not", "bool"), "conjugate": lambda x: x, "conj": lambda x: x,
        "real": lambda x: x, "stack": np_stack,
        "searchsorted": np_searchsorted, "einsum": np_einsum, "asanyarray": np_asarray, "copy": lambda x, **k: x.copy() if isinstance(x, NDArr) else x,
        "pi": PI, "inf": INF, "newaxis": None, "nan": Opaque("nan"), "e": Opaque("np.e"),
        "ndarray": TypeTag("ndarray", None), "number": TypeTag("number", None), "double": TypeTag("float", _to_float),
        "float64": TypeTag("float", _to_float), "int64": TypeTag("int", _to_int), "integer": TypeTag("Integral", None),
        "floating": TypeTag("float", None), "complexfloating": TypeTag("complex", None), "bool_": TypeTag("bool", None),
        "complex128": TypeTag("complex", None), "isrealobj": lambda x: True, "iscomplexobj": lambda x: False,
        "iscomplex": lambda x: False, "issubdtype": _np_issubdtype,
        "errstate": Opaque("np.errstate"), "dtype": lambda x: Opaque("dtype"),
        "result_type": lambda *a: Opaque("dtype"), "random": Opaque("np.random"), "nditer": Opaque("np.nditer"),
        "squeeze": lambda x, **k: x, "flatnonzero": Opaque("flatnonzero"),
        "sign": _lift1(lambda x: ite(compare(">", x, 0), 1, ite(compare("<", x, 0), -1, 0)) if is_sym(x) else ((x > 0) - (x < 0)), "sign"),
    }
    return StubModule("numpy", attrs)


def make_math(interp):
    import math as _m

    attrs = {
        "ceil": lambda x: ceil_real(to_real(x)) if not is_int(x) else x,
        "floor": lambda x: floor_real(to_real(x)) if not is_int(x) else x,
        "sqrt": _sqrt, "sin": _sin, "cos": _cos, "pi": PI, "inf": INF,
        "log": lambda x, *b: ufunc_real(LOG_FN, x) if not b else binop("/", ufunc_real(LOG_FN, x), ufunc_real(LOG_FN, b[0])),
        "exp": lambda x: ufunc_real(EXP_FN, x), "isclose": lambda *a, **k: Opaque("math.isclose"),
        "isfinite": lambda x: not isinstance(x, Inf), "isinf": lambda x: isinstance(x, Inf), "isnan": lambda x: False,
        "hypot": lambda x, y: ufunc_real(HYPOT_FN, x, y), "atan2": lambda y, x: ufunc_real(ARCTAN2_FN, y, x),
        "fabs": sabs, "prod": lambda it: make_numpy(interp).attrs["prod"](interp.iterate(it)),
        "trunc": _to_int, "copysign": Opaque("copysign"),
    }
    return StubModule("math", attrs)


def make_numba(interp):
    def prange(*args):
        r = interp.builtins["range"](*args)
        r.parallel = True
        return r

    ext = StubModule("numba.extending", {"register_jitable": _identity_decorator, "overload": lambda *a, **k: (lambda f: Opaque("overload")), "is_jitted": lambda f: False})
    attrs = {
        "prange": prange, "njit": _identity_decorator, "jit": _identity_decorator, "generated_jit": _identity_decorator,
        "extending": ext, "literal_unroll": lambda x: x, "typed": Opaque("nb.typed"),
        # numba types as far as `isinstance(arg, nb.types.X)` in typed dispatch needs them: an omitted / None argument
        "types": StubModule("nb.types", {"NoneType": TypeTag("NoneType", None), "Omitted": TypeTag("NoneType", None)}),
        "typeof": lambda x: Opaque("typeof"), "errors": Opaque("nb.errors"), "core": Opaque("nb.core"), "config": Opaque("nb.config"),
    }
    return StubModule("numba", attrs)


def make_stub_modules(interp):
    np_ = make_numpy(interp)
    nb_ = make_numba(interp)
    mods = {
        "numpy": np_, "math": make_math(interp), "numba": nb_, "numba.extending": nb_.attrs["extending"],
        "numbers": StubModule("numbers", {"Number": TypeTag("Number", None), "Real": TypeTag("Real", None), "Integral": TypeTag("Integral", None), "Complex": TypeTag("Complex", None)}),
        "collections": StubModule("collections", {"abc": StubModule("collections.abc", {"Sequence": TypeTag("Sequence", None), "Iterable": TypeTag("Iterable", None), "Callable": TypeTag("Callable", None)}),
                                                  "OrderedDict": TypeTag("dict", lambda *a, **k: dict(*a, **k)), "defaultdict": Opaque("collections.defaultdict")}),
        "collections.abc": StubModule("collections.abc", {"Sequence": TypeTag("Sequence", None), "Iterable": TypeTag("Iterable", None), "Callable": TypeTag("Callable", None), "Mapping": TypeTag("dict", None)}),
        "typing": StubModule("typing", {"TYPE_CHECKING": False, "Any": Opaque("Any"), "Callable": TypeTag("Callable", None), "Literal": Opaque("Literal"), "cast": lambda t, v: v}),
        "itertools": StubModule("itertools", {"product": lambda *its, repeat=1: [tuple(p) for p in itertools.product(*[interp.iterate(i) for i in its], repeat=repeat)], "chain": lambda *its: [x for i in its for x in interp.iterate(i)]}),
        "functools": StubModule("functools", {"reduce": Opaque("reduce"), "partial": lambda f, *a, **k: (lambda *b, **kk: interp.call(f, [*a, *b], {**k, **kk})), "wraps": lambda f: (lambda g: g)}),
        "scipy": StubModule("scipy", {"sparse": StubModule("scipy.sparse", {
            "dok_matrix": lambda shape, **k: A.fresh_array("dok_matrix", tuple(shape), lambda idx: Fraction(0)),
            "linalg": Opaque("scipy.sparse.linalg")}), "ndimage": Opaque("scipy.ndimage")}),
        "warnings": StubModule("warnings", {"catch_warnings": Opaque("catch_warnings"), "simplefilter": lambda *a, **k: None, "warn": lambda *a, **k: None}),
        "logging": StubModule("logging", {"getLogger": lambda *a: Opaque("logger")}),
        "copy": StubModule("copy", {"copy": lambda x: interp.shallow_copy(x), "deepcopy": lambda x, *a: interp.deep_copy(x)}),
    }
    return mods


def STUB_NAMES(interp):
    """names that are replaced wherever they are imported from (decorators, infrastructure)"""
    return {
        "jit": _identity_decorator, "register_jitable": _identity_decorator, "fill_in_docstring": _identity_decorator,
        "njit": _identity_decorator, "cached_method": _identity_decorator, "cached_property": _identity_decorator,
        "get_backend": lambda *a, **k: Opaque("backend"), "TYPE_CHECKING": False,
        "deprecated": _identity_decorator, "overload": lambda *a, **k: (lambda f: Opaque("overload")),
    }


# ---------------------------------------------------------------------------------- methods of builtin values
def builtin_getattr(interp, obj, name):
    if isinstance(obj, StubModule):
        if name in obj.attrs:
            return obj.attrs[name]
        return Opaque(f"{obj.name}.{name}")
    if isinstance(obj, NDArr):
        return ndarray_attr(interp, obj, name)
    if isinstance(obj, list):
        return list_attr(interp, obj, name)
    if isinstance(obj, dict):
        return dict_attr(interp, obj, name)
    if isinstance(obj, tuple):
        if name == "index":
            return lambda v: obj.index(v)
        if name == "count":
            return lambda v: obj.count(v)
    if isinstance(obj, str):
        if name in ("startswith", "endswith", "split", "lower", "upper", "strip", "replace", "join", "format", "isidentifier", "find", "rsplit", "lstrip", "rstrip", "title", "partition", "rpartition", "count", "isdigit"):
            def m(*a, **k):
                if name == "join":
                    a = (interp.iterate(a[0]),)
                if name == "format":
                    return Opaque("str.format")
                return getattr(obj, name)(*a, **k)
            return m
    if isinstance(obj, (set, frozenset)):
        if name in ("add", "discard", "remove", "update"):
            def m(*a):
                interp.ctx.heap_mutations += 1
                return getattr(obj, name)(*a)
            return m
        if name in ("union", "intersection", "difference", "issubset", "issuperset", "copy"):
            return getattr(obj, name)
    if is_num(obj) or isinstance(obj, Inf):
        if name == "real":
            return obj
        if name == "imag":
            return 0
        if name == "conjugate":
            return lambda: obj
        if name == "is_integer":
            return lambda: compare("==", to_real(floor_real(to_real(obj))), obj)
        if name == "ndim":
            return 0
        if name == "item":
            return lambda: obj
    if isinstance(obj, slice):
        if name in ("start", "stop", "step"):
            return getattr(obj, name)
        if name == "indices":
            def indices(n):
                if any(is_sym(x) for x in (obj.start, obj.stop, obj.step, n)):
                    raise Unsupported("slice.indices with symbolic arguments")
                return obj.indices(n)
            return indices
    if isinstance(obj, RangeVal):
        if name in ("start", "stop", "step"):
            return getattr(obj, name)
    if isinstance(obj, PyRaise):
        if name == "args":
            return obj.exc_args
        if name == "value":
            return obj.value
    if isinstance(obj, Function):
        if name == "__name__":
            return obj.name
        if name in ("__doc__",):
            return ""
        if name == "py_func":
            return obj
    if isinstance(obj, BoundMethod):
        if name == "__func__":
            return obj.func
        if name == "__self__":
            return obj.self_obj
        if name == "__name__":
            return obj.func.name
    if isinstance(obj, TypeTag):
        if name == "__name__":
            return obj.name
    from .interp import _Super, _super_getattr

    if isinstance(obj, _Super):
        return _super_getattr(interp, obj, name)
    if isinstance(obj, ExcTag):
        return Opaque(f"{obj.name}.{name}")
    raise Unsupported(f"attribute `{name}` of {type(obj).__name__} value")


def list_attr(interp, obj, name):
    def mut(fn):
        def m(*a, **k):
            interp.ctx.heap_mutations += 1
            return fn(*a, **k)
        return m

    if name == "append":
        return mut(obj.append)
    if name == "extend":
        return mut(lambda it: obj.extend(interp.iterate(it)))
    if name == "insert":
        return mut(obj.insert)
    if name == "pop":
        def pop(*a):
            interp.ctx.heap_mutations += 1
            try:
                return obj.pop(*a)
            except IndexError:
                raise PyRaise("IndexError", ("pop from empty list",)) from None
        return pop
    if name == "clear":
        return mut(obj.clear)
    if name == "copy":
        return obj.copy
    if name == "index":
        def index(x, *a):
            try:
                return obj.index(x, *a)
            except ValueError as e:
                raise PyRaise("ValueError", (str(e),)) from None
        return index
    if name == "count":
        return obj.count
    if name == "reverse":
        return mut(obj.reverse)
    if name == "sort":
        return mut(obj.sort)
    raise Unsupported(f"list.{name}")


def dict_attr(interp, obj, name):
    if name == "get":
        return lambda k, d=None: obj.get(k, d)
    if name == "items":
        return lambda: list(obj.items())
    if name == "keys":
        return lambda: list(obj.keys())
    if name == "values":
        return lambda: list(obj.values())
    if name == "copy":
        return obj.copy
    if name in ("pop", "update", "setdefault", "clear"):
        def m(*a, **k):
            interp.ctx.heap_mutations += 1
            try:
                return getattr(obj, name)(*a, **k)
            except KeyError as e:
                raise PyRaise("KeyError", e.args) from None
        return m
    raise Unsupported(f"dict.{name}")


def ndarray_attr(interp, x: NDArr, name):
    np_ = interp.stub_modules["numpy"].attrs
    if name == "shape":
        return x.shape
    if name == "ndim":
        return x.ndim
    if name == "size":
        r = 1
        for s in x.shape:
            r = binop("*", r, s)
        return r
    if name == "flags":
        # arrays of the model are ordinary writeable arrays (read-only views are not modelled)
        return Instance(None, {"writeable": True, "__closed__": True}, name="ndarray.flags")
    if name == "dtype":
        return Opaque("dtype")
    if name == "copy":
        return lambda *a, **k: x.copy()
    if name == "real":
        return x
    if name == "T":
        n = x.ndim
        imap = [m if m[0] == "fix" else ("ax", n - 1 - m[1], m[2], m[3]) for m in x.imap]
        return NDArr(x.buf, imap, tuple(reversed(x.shape)))
    if name == "sum":
        return lambda axis=None, **k: np_["sum"](x, axis=axis)
    if name in ("max", "min", "prod", "any", "all"):
        return lambda *a, **k: np_[name](x, *a, **k)
    if name == "mean":
        return lambda *a, **k: binop("/", np_["sum"](x), ndarray_attr(interp, x, "size"))
    if name == "astype":
        def astype(t=None, **k):
            if (isinstance(t, TypeTag) and t.name == "int") or t is int:
                return A.elementwise(_to_int, x, name="astype_int", kind="int")
            return x.copy()
        return astype
    if name == "view":
        return lambda *a, **k: NDArr(x.buf, list(x.imap), tuple(x.shape))  # a new view object on the same buffer
    if name == "fill":
        return lambda v: x.assign(A.ALL, v)
    if name == "item":
        return lambda *a: x.read(tuple(0 for _ in x.shape))
    if name == "flat":
        return FlatView(x)
    if name == "conjugate" or name == "conj":
        return lambda: x
    if name == "dot":
        return lambda b: np_["dot"](x, b)
    if name == "tolist":
        return lambda: x.elements()
    if name == "flags":
        return Opaque("flags")
    if name == "ravel" or name == "flatten":
        def ravel():
            if x.ndim == 1:
                return x if name == "ravel" else x.copy()
            raise Unsupported("ravel of nd array")
        return ravel
    if name == "reshape":
        def reshape(*shape):
            if len(shape) == 1 and isinstance(shape[0], (tuple, list)):
                shape = tuple(shape[0])
            shape = tuple(shape)
            if sum(1 for d in shape if concrete(d) == -1) == 1:
                # one dimension is inferred: supported when the remaining dimensions are the trailing ones of the array
                k = [concrete(d) == -1 for d in shape].index(True)
                rest = shape[k + 1:]
                if k == 0 and len(rest) <= x.ndim and all(concrete(compare("==", a, b)) is True or (is_sym(a) and is_sym(b) and a.eq(b)) for a, b in zip(rest, x.shape[x.ndim - len(rest):])):
                    lead = x.shape[: x.ndim - len(rest)]
                    if len(lead) == 0:
                        shape = (1, *rest)
                    elif len(lead) == 1:
                        shape = (lead[0], *rest)
                    else:
                        raise Unsupported("reshape(-1, ...) that merges several leading axes")
                else:
                    raise Unsupported("reshape with an inferred dimension in this position")
            if shape == tuple(x.shape):
                return x
            # only insertion / removal of axes of length one (a view in NumPy)
            old_nz = [(a, s) for a, s in enumerate(x.shape) if concrete(s) != 1]
            new_nz = [(a, s) for a, s in enumerate(shape) if concrete(s) != 1]
            if len(old_nz) == len(new_nz) and all(concrete(compare("==", s1, s2)) is not False for (_, s1), (_, s2) in zip(old_nz, new_nz)):
                amap = {oa: na for (oa, _), (na, _) in zip(old_nz, new_nz)}
                imap = []
                for m in x.imap:
                    if m[0] == "fix":
                        imap.append(m)
                    elif m[1] in amap:
                        imap.append(("ax", amap[m[1]], m[2], m[3]))
                    else:  # an old axis of length one disappears: index 0
                        imap.append(("fix", m[2]))
                return NDArr(x.buf, imap, shape)
            raise Unsupported("reshape that is not an insertion/removal of unit axes")
        return reshape
    if name == "squeeze":
        return lambda *a, **k: x
    if name == "setflags":
        return lambda **k: None
    if name == "setdiag":
        def setdiag(val):
            vs = [z3.Int(A.fresh_name("d"))]
            x.buf.push(A.MapLayer(x.buf.content, [(vs[0], 0, x.shape[0])], True, x.base_index((vs[0], vs[0])), val))
        return setdiag
    if name in ("tocsc", "tocsr", "todense", "toarray"):
        return lambda: x
    if name == "__array_interface__":
        return {"data": (Opaque(f"address of {x.buf!r}"), False)}
    if name == "ctypes":
        return Opaque("ctypes")
    raise Unsupported(f"ndarray.{name}")


class FlatView:
    def __init__(self, arr):
        self.arr = arr
