"""Functional model of NumPy arrays: buffers with layered writes, views, broadcasting.

A buffer's content is an immutable chain  base-function <- write layers.  A view (NDArr) maps view
indices to buffer indices.  Basic indexing returns views on the same buffer; arithmetic returns
arrays over fresh buffers (NumPy view/copy table, DESIGN.md §2.4(4)).
"""

from __future__ import annotations

import itertools

import z3

from .values import (
    Opaque,
    Unsupported,
    compare,
    concrete,
    fresh_name,
    is_int,
    is_scalar,
    is_sym,
    ite,
    mentions,
    simp,
    to_z3,
)

_buf_ids = itertools.count()

# injective index constructors (row-major flattening abstracted as an uninterpreted function):
# decl name -> list of inverse function decls (one per argument)
INJECTIVE: dict = {}

# hooks installed by the interpreter context
HOOKS = {"read": None, "write": None, "bounds": None, "fact": None}


def _and(*cs):
    cs2 = []
    for c in cs:
        if c is True:
            continue
        if c is False:
            return False
        cs2.append(c)
    if not cs2:
        return True
    if len(cs2) == 1:
        return cs2[0]
    return z3.And(*cs2)


class Content:
    depth = 0

    def read(self, idx):
        raise NotImplementedError


class BaseFn(Content):
    def __init__(self, fn):
        self.fn = fn

    def read(self, idx):
        return self.fn(tuple(idx))


class PointLayer(Content):
    def __init__(self, parent, idx, val, guard=True):
        self.parent, self.idx, self.val, self.guard = parent, tuple(idx), val, guard
        self.depth = parent.depth + 1

    def cond(self, k):
        return _and(self.guard, *[compare("==", a, b) for a, b in zip(k, self.idx)])

    def read(self, k):
        c = self.cond(k)
        if c is True:
            return self.val
        if c is False:
            return self.parent.read(k)
        cc = concrete(c)
        if cc is True:
            return self.val
        if cc is False:
            return self.parent.read(k)
        return ite(c, self.val, self.parent.read(k))


class MapLayer(Content):
    """for all iteration vectors v in the domain (and guard(v)): buf[idx(v)] = val(v)"""

    def __init__(self, parent, vars, guard, idx, val):
        # vars: list of (const, lo, hi)  -- lo <= const < hi ; later bounds may mention earlier consts
        self.parent = parent
        self.vars = list(vars)
        self.guard = guard
        self.idx = tuple(idx)
        self.val = val
        self.depth = parent.depth + 1
        self._solve()

    def _solve(self):
        consts = [v for v, _, _ in self.vars]
        self.pos = {}  # const id -> ('direct', position, d) with idx[p] = v + d
        #                          | ('ctor', position, arg number, inverse decl, d)
        used = set()
        for v in consts:
            found = None
            for p, e in enumerate(self.idx):
                if p in used or not is_sym(e) or not mentions(e, [v]):
                    continue
                d = z3.simplify(e - v)
                if not mentions(d, consts):
                    found = ("direct", p, d)
                    used.add(p)
                    break
            if found is None:
                for p, e in enumerate(self.idx):
                    if not is_sym(e) or not z3.is_app(e) or e.decl().name() not in INJECTIVE:
                        continue
                    invs = INJECTIVE[e.decl().name()][0]
                    for j, a in enumerate(e.children()):
                        if mentions(a, [v]):
                            d = z3.simplify(a - v)
                            if not mentions(d, consts):
                                found = ("ctor", p, j, invs[j], d)
                                break
                    if found:
                        break
            if found is None:
                raise Unsupported(
                    f"write index {self.idx} is not an injective unit-stride function of loop variable {v}"
                )
            self.pos[v.get_id()] = found
        self.used_positions = used

    def inverse(self, k):
        """substitution v -> k[p]-d and the membership condition for buffer index k"""
        subs = []
        for v, _, _ in self.vars:
            f = self.pos[v.get_id()]
            if f[0] == "direct":
                _, p, d = f
                subs.append((v, to_z3(k[p]) - d))
            else:
                _, p, j, inv, d = f
                subs.append((v, inv(to_z3(k[p])) - d))
        conds = []
        for v, lo, hi in self.vars:
            vi = z3.substitute(v, *subs)
            lo_s = z3.substitute(to_z3(lo), *subs)
            hi_s = z3.substitute(to_z3(hi), *subs)
            conds.append(lo_s <= vi)
            conds.append(vi < hi_s)
        if self.guard is not True:
            conds.append(z3.substitute(to_z3(self.guard), *subs))
        for p, e in enumerate(self.idx):
            if p in self.used_positions:
                continue
            e_s = z3.substitute(to_z3(e), *subs) if is_sym(e) else e
            if is_sym(e_s):
                instantiate_injective_axioms(e_s)
            conds.append(compare("==", k[p], e_s))
        return subs, _and(*[c for c in conds if c is not True])

    def read(self, k):
        subs, c = self.inverse(k)
        cc = concrete(c) if is_sym(c) else c
        if cc is False:
            return self.parent.read(k)
        val = z3.substitute(to_z3(self.val), *subs) if is_sym(self.val) else self.val
        if cc is True:
            return val
        return ite(c, val, self.parent.read(k))


def injective_axiom(t):
    """guarded inverse / range facts of a flattening term t = F(a_0, .., a_n) (true of row-major
    flattening):  trailing components in range => unflat_j(t) = a_j ;  all in range => 0 <= t < prod N"""
    invs, dims = INJECTIVE[t.decl().name()]
    args = t.children()
    rng = [z3.And(args[j] >= 0, args[j] < to_z3(dims[j])) for j in range(len(args))]
    guard = z3.And(*rng[1:]) if len(args) > 1 else z3.BoolVal(True)
    total = to_z3(dims[0])
    for d in dims[1:]:
        total = total * to_z3(d)
    return z3.And(
        z3.Implies(guard, z3.And(*[invs[j](t) == args[j] for j in range(len(args))])),
        z3.Implies(z3.And(*rng), z3.And(t >= 0, t < total)),
    )


_axiom_seen = set()


def instantiate_injective_axioms(e):
    if not INJECTIVE or HOOKS["fact"] is None:
        return
    todo = [e]
    seen = set()
    while todo:
        x = todo.pop()
        if x.get_id() in seen:
            continue
        seen.add(x.get_id())
        if z3.is_app(x) and x.decl().name() in INJECTIVE and x.get_id() not in _axiom_seen:
            _axiom_seen.add(x.get_id())
            HOOKS["fact"](injective_axiom(x))
        todo.extend(x.children())


class Buf:
    def __init__(self, name, ndim, content, kind="real"):
        self.id = next(_buf_ids)
        self.name = name
        self.ndim = ndim
        self.content = content
        self.kind = kind  # 'real' | 'int' | 'bool' | 'obj'

    def read(self, idx):
        if HOOKS["read"]:
            HOOKS["read"](self, tuple(idx))
        return self.content.read(tuple(idx))

    def push(self, layer):
        self.content = layer
        if HOOKS["write"]:
            HOOKS["write"](self, layer)

    def __repr__(self):
        return f"Buf#{self.id}({self.name})"


def _len_sub(a, b):
    """a - b for shape arithmetic"""
    if not is_sym(a) and not is_sym(b):
        return a - b
    return simp(to_z3(a) - to_z3(b))


class NDArr:
    """a NumPy array value = view on a buffer"""

    def __init__(self, buf, imap, shape):
        self.buf = buf
        self.imap = list(imap)  # per buffer dim: ('fix', e) | ('ax', view_axis, offset, step)
        self.shape = tuple(shape)

    # ---------------------------------------------------------------- basics
    @property
    def ndim(self):
        return len(self.shape)

    def __repr__(self):
        return f"NDArr({self.buf!r}, shape={self.shape})"

    def base_index(self, vidx):
        out = []
        for m in self.imap:
            if m[0] == "fix":
                out.append(m[1])
            else:
                _, ax, off, step = m
                i = vidx[ax]
                if step == 1:
                    e = i if (not is_sym(off) and off == 0) else (to_z3(off) + to_z3(i) if (is_sym(off) or is_sym(i)) else off + i)
                else:
                    e = to_z3(off) + step * to_z3(i) if (is_sym(off) or is_sym(i)) else off + step * i
                out.append(simp(e) if is_sym(e) else e)
        return tuple(out)

    def read(self, vidx):
        assert len(vidx) == self.ndim, (vidx, self.shape)
        return self.buf.read(self.base_index(vidx))

    def frozen(self):
        """immutable snapshot with the same view geometry"""
        content = self.buf.content
        buf = self.buf
        me = self

        def rd(vidx):
            if HOOKS["read"]:
                HOOKS["read"](buf, me.base_index(vidx))
            return content.read(me.base_index(vidx))

        return rd

    # ---------------------------------------------------------------- indexing
    def _norm_key(self, key):
        if not isinstance(key, tuple):
            key = (key,)
        key = list(key)
        n_specified = sum(1 for k in key if k is not None and k is not Ellipsis)
        if any(k is Ellipsis for k in key):
            if sum(1 for k in key if k is Ellipsis) > 1:
                raise Unsupported("two ellipses in index")
            e = key.index(Ellipsis)
            key[e : e + 1] = [slice(None)] * (self.ndim - n_specified)
        else:
            key += [slice(None)] * (self.ndim - n_specified)
        if sum(1 for k in key if k is not None) != self.ndim:
            raise PyIndexError(f"too many indices for array of shape {self.shape}")
        return key

    def index(self, key):
        """basic indexing: returns a scalar (all axes fixed) or a view"""
        key = self._norm_key(key)
        new_shape = []
        ax_map = {}  # old view axis -> ('fix', e) | ('ax', new_axis, off, step)
        old_ax = 0
        for k in key:
            if k is None:
                new_shape.append(1)
                continue
            n = self.shape[old_ax]
            if isinstance(k, slice):
                start, stop, step = k.start, k.stop, k.step
                if step is None:
                    step = 1
                if step not in (1, -1) or is_sym(step):
                    raise Unsupported(f"slice step {step!r}")
                if step == -1:
                    if start is None and stop is None:
                        ax_map[old_ax] = ("ax", len(new_shape), _len_sub(n, 1), -1)
                        new_shape.append(n)
                        old_ax += 1
                        continue
                    raise Unsupported("partial reversed slice")
                start = 0 if start is None else self._norm_bound(start, n)
                stop = n if stop is None else self._norm_bound(stop, n)
                length = _len_sub(stop, start)
                if not is_sym(length):
                    length = max(0, length)
                elif HOOKS["bounds"]:
                    HOOKS["bounds"]("slice", start, stop, n)
                ax_map[old_ax] = ("ax", len(new_shape), start, 1)
                new_shape.append(length)
            elif isinstance(k, NDArr) or isinstance(k, (list,)):
                raise Unsupported("fancy indexing")
            elif is_int(k) or isinstance(k, bool):
                k = int(k) if isinstance(k, bool) else k
                if not is_sym(k) and k < 0:
                    k = _len_sub(n, -k)
                    if not is_sym(k) and k < 0:
                        raise PyIndexError("index out of bounds")
                if not is_sym(k) and not is_sym(n):
                    if k >= n:
                        raise PyIndexError(f"index {k} out of bounds for axis with size {n}")
                elif HOOKS["bounds"]:
                    HOOKS["bounds"]("index", k, None, n)
                ax_map[old_ax] = ("fix", k)
            elif isinstance(k, Opaque):
                raise Unsupported(f"opaque index {k!r}")
            else:
                raise Unsupported(f"index of type {type(k).__name__}: {k!r}")
            old_ax += 1
        imap = []
        for m in self.imap:
            if m[0] == "fix":
                imap.append(m)
                continue
            _, ax, off, step = m
            t = ax_map[ax]
            if t[0] == "fix":
                e = t[1]
                if step == 1:
                    v = (off + e) if (not is_sym(off) and not is_sym(e)) else simp(to_z3(off) + to_z3(e))
                else:
                    v = (off + step * e) if (not is_sym(off) and not is_sym(e)) else simp(to_z3(off) + step * to_z3(e))
                imap.append(("fix", v))
            else:
                _, nax, off2, step2 = t
                if step == 1:
                    noff = (off + off2) if (not is_sym(off) and not is_sym(off2)) else simp(to_z3(off) + to_z3(off2))
                else:
                    noff = (off + step * off2) if (not is_sym(off) and not is_sym(off2)) else simp(to_z3(off) + step * to_z3(off2))
                imap.append(("ax", nax, noff, step * step2))
        view = NDArr(self.buf, imap, new_shape)
        if not new_shape and not any(k is None for k in key):
            return view.read(())
        return view

    @staticmethod
    def _norm_bound(v, n):
        if isinstance(v, bool):
            v = int(v)
        if not is_int(v):
            raise Unsupported(f"slice bound {v!r}")
        if not is_sym(v):
            if v < 0:
                r = _len_sub(n, -v)
                if not is_sym(r) and r < 0:
                    r = 0
                return r
            if not is_sym(n) and v > n:
                return n
            return v
        return v

    # ---------------------------------------------------------------- writing
    def assign(self, key, value):
        """self[key] = value"""
        target = self if key is ALL else self.index_view(key)
        if not isinstance(target, NDArr):
            raise Unsupported("assign target")
        target._store(value)

    def index_view(self, key):
        """like index() but always returns a (possibly 0-d) view"""
        key = self._norm_key(key)
        if all(k is not None and not isinstance(k, slice) for k in key):
            # all fixed -> 0-d view
            imap = []
            vals = []
            old = 0
            for k in key:
                n = self.shape[old]
                k = int(k) if isinstance(k, bool) else k
                if not is_int(k):
                    raise Unsupported(f"index {k!r}")
                if not is_sym(k) and k < 0:
                    k = _len_sub(n, -k)
                if not is_sym(k) and not is_sym(n):
                    if k >= n or k < 0:
                        raise PyIndexError(f"index {k} out of bounds for axis with size {n}")
                elif HOOKS["bounds"]:
                    HOOKS["bounds"]("index", k, None, n)
                vals.append(k)
                old += 1
            return NDArr(self.buf, [("fix", e) for e in self.base_index(tuple(vals))], ())
        return self.index(tuple(key))

    def _store(self, value):
        if isinstance(value, Opaque):
            raise Unsupported(f"storing opaque value {value!r} into an array")
        if self.ndim == 0:
            if isinstance(value, NDArr):
                if value.ndim != 0 and not all(concrete(s) == 1 for s in value.shape):
                    raise Unsupported("assigning array to scalar position")
                value = value.read(tuple(0 for _ in value.shape))
            self.buf.push(PointLayer(self.buf.content, self.base_index(()), value))
            return
        # region write
        vs = [z3.Int(fresh_name("w")) for _ in self.shape]
        if isinstance(value, NDArr):
            rd = value.frozen()
            val = rd(broadcast_index(value.shape, self.shape, vs))
        elif isinstance(value, (list, tuple)):
            value = array_from_nested(value)
            rd = value.frozen()
            val = rd(broadcast_index(value.shape, self.shape, vs))
        else:
            if not is_scalar(value):
                raise Unsupported(f"storing {value!r}")
            val = value
        # concrete tiny regions are expanded into point writes (keeps terms simple)
        if all(not is_sym(s) for s in self.shape):
            total = 1
            for s in self.shape:
                total *= s
            if total <= 27:
                for multi in itertools.product(*[range(s) for s in self.shape]):
                    v = z3.substitute(to_z3(val), *[(a, z3.IntVal(b)) for a, b in zip(vs, multi)]) if is_sym(val) else val
                    v = simp(v) if is_sym(v) else v
                    self.buf.push(PointLayer(self.buf.content, self.base_index(multi), v))
                return
        idx = self.base_index(vs)
        self.buf.push(
            MapLayer(self.buf.content, [(v, 0, s) for v, s in zip(vs, self.shape)], True, idx, val)
        )

    # ---------------------------------------------------------------- helpers
    def copy(self, name=None):
        rd = self.frozen()
        return fresh_array(name or f"copy({self.buf.name})", self.shape, rd, kind=self.buf.kind)

    def elements(self):
        """all elements of a concrete-shaped array as nested python lists"""
        if any(is_sym(s) for s in self.shape):
            raise Unsupported("iterating over an array of symbolic shape")
        if self.ndim == 0:
            return self.read(())

        def rec(prefix, d):
            if d == self.ndim:
                return self.read(tuple(prefix))
            return [rec(prefix + [i], d + 1) for i in range(self.shape[d])]

        return rec([], 0)


class PyIndexError(Exception):
    pass


class _All:
    pass


ALL = _All()


def broadcast_index(src_shape, dst_shape, dst_idx):
    """index into an array of shape src_shape when broadcast to dst_shape at dst_idx"""
    ns, nd = len(src_shape), len(dst_shape)
    if ns > nd:
        # leading source axes must have size one
        for s in src_shape[: ns - nd]:
            if concrete(s) != 1:
                raise Unsupported(f"cannot broadcast shape {src_shape} to {dst_shape}")
        lead = [0] * (ns - nd)
        rest = broadcast_index(src_shape[ns - nd :], dst_shape, dst_idx)
        return tuple(lead) + tuple(rest)
    out = []
    for a in range(ns):
        s = src_shape[a]
        d = dst_shape[nd - ns + a]
        cs, cd = concrete(s), concrete(d)
        if cs == 1 and cd != 1:
            out.append(0)
        else:
            if cs is not None and cd is not None and cs != cd:
                raise Unsupported(f"shape mismatch {src_shape} vs {dst_shape}")
            out.append(dst_idx[nd - ns + a])
    return tuple(out)


def broadcast_shapes(*shapes):
    n = max(len(s) for s in shapes)
    out = []
    for a in range(n):
        dim = 1
        for s in shapes:
            k = a - (n - len(s))
            if k < 0:
                continue
            d = s[k]
            if concrete(d) == 1:
                continue
            if concrete(dim) == 1:
                dim = d
            else:
                cd, cdim = concrete(d), concrete(dim)
                if cd is not None and cdim is not None and cd != cdim:
                    raise Unsupported(f"cannot broadcast shapes {shapes}")
                if cd is not None and cdim is None:
                    dim = d  # prefer concrete
        out.append(dim)
    return tuple(out)


def fresh_array(name, shape, fn, kind="real"):
    buf = Buf(name, len(shape), BaseFn(fn), kind)
    return NDArr(buf, [("ax", a, 0, 1) for a in range(len(shape))], shape)


def sym_array(name, shape, sort=None, kind="real"):
    """array of unknown contents: an uninterpreted function of the index"""
    sort = sort or z3.RealSort()
    if len(shape) == 0:
        c = z3.Const(name, sort)
        return fresh_array(name, shape, lambda idx: c, kind)
    f = z3.Function(name, *([z3.IntSort()] * len(shape)), sort)
    return fresh_array(name, shape, lambda idx: f(*[to_z3(i) for i in idx]), kind)


def array_from_nested(obj, kind="real"):
    """np.array(list-of-lists) with concrete shape"""
    if isinstance(obj, NDArr):
        return obj.copy()
    shape = []
    o = obj
    while isinstance(o, (list, tuple)):
        shape.append(len(o))
        if len(o) == 0:
            break
        o = o[0]
    if isinstance(o, NDArr):
        # list of arrays -> stack
        sub = [x if isinstance(x, NDArr) else None for x in _flatten(obj, len(shape))]
        if any(s is None for s in sub):
            raise Unsupported("ragged nested array")
        shp = sub[0].shape
        rds = [s.frozen() for s in sub]
        lead = tuple(shape)

        def fn(idx, rds=rds, lead=lead, nl=len(shape)):
            flat = _ravel_concrete(idx[:nl], lead)
            return rds[flat](tuple(idx[nl:]))

        return fresh_array("stack", lead + tuple(shp), fn, kind)
    flat = _flatten(obj, len(shape))
    shape_t = tuple(shape)

    def fn(idx, flat=flat, shape_t=shape_t):
        cs = [concrete(i) for i in idx]
        if all(c is not None for c in cs):
            return flat[_ravel_concrete(cs, shape_t)]
        # symbolic index into a concrete table: ite chain
        res = None
        for multi in itertools.product(*[range(s) for s in shape_t]):
            v = flat[_ravel_concrete(multi, shape_t)]
            if res is None:
                res = v
            else:
                c = _and(*[compare("==", i, m) for i, m in zip(idx, multi)])
                res = ite(c, v, res)
        return res

    return fresh_array("array", shape_t, fn, kind)


def _flatten(obj, depth):
    if depth == 0:
        return [obj]
    out = []
    for x in obj:
        out.extend(_flatten(x, depth - 1))
    return out


def _ravel_concrete(idx, shape):
    flat = 0
    for i, s in zip(idx, shape):
        i = concrete(i)
        if i is None:
            raise Unsupported("symbolic index into a stacked array")
        flat = flat * s + i
    return flat


def elementwise(fn, *operands, name="ew", kind="real"):
    """apply a scalar function pointwise with broadcasting; scalars are allowed as operands"""
    shapes = [o.shape for o in operands if isinstance(o, NDArr)]
    if not shapes:
        return fn(*operands)
    shape = broadcast_shapes(*shapes)
    readers = []
    for o in operands:
        if isinstance(o, NDArr):
            readers.append((o.frozen(), o.shape))
        else:
            readers.append((o, None))

    def rd(idx):
        args = []
        for r, shp in readers:
            if shp is None:
                args.append(r)
            else:
                args.append(r(broadcast_index(shp, shape, idx)))
        return fn(*args)

    return fresh_array(name, shape, rd, kind)
