/-
Meta-level steps of C12 (cell volumes sum to the volume of the grid) and C17 (the chunk sizes of `_subdivide`
tile the axis), stated over exact integer / real arithmetic (the float intermediates of the code are covered by the
exhaustive bounded sweep of the native driver).
-/
import Mathlib

open Finset

/-- C12: cell k has measure V (r (k+1)) - V (r k) (proved per cell by the solver); the measures add up to
    V (r N) - V (r 0), the measure of the whole grid -/
theorem cell_volumes_sum (N : ℕ) (V : ℕ → ℝ) (vol : ℕ → ℝ)
    (cell : ∀ k, k < N → vol k = V (k + 1) - V k) :
    ∑ k ∈ range N, vol k = V N - V 0 := by
  have h : ∑ k ∈ range N, vol k = ∑ k ∈ range N, (V (k + 1) - V k) := by
    apply sum_congr rfl
    intro k hk
    exact cell k (mem_range.mp hk)
  rw [h, sum_range_sub]

/-- C17: chunk k of `_subdivide(N, c)` has size ⌊(k+1)N/c⌋ - ⌊kN/c⌋ (bounds = linspace(0, N, c+1) truncated);
    the sizes add up to N -/
theorem chunk_sizes_sum (N c : ℕ) (hc : 0 < c) :
    ∑ k ∈ range c, ((k + 1) * N / c - k * N / c) = N := by
  have mono : ∀ k, k * N / c ≤ (k + 1) * N / c := by
    intro k
    apply Nat.div_le_div_right
    exact Nat.mul_le_mul_right N (Nat.le_succ k)
  have h := Finset.sum_range_tsub (f := fun k => k * N / c) (by
    intro a b hab
    apply Nat.div_le_div_right
    exact Nat.mul_le_mul_right N hab) c
  simp only [Nat.zero_mul, Nat.zero_div, Nat.sub_zero] at h
  rw [h, Nat.mul_div_cancel_left N hc]

/-- C17: with at most as many chunks as cells every chunk holds at least one cell -/
theorem chunk_size_pos (N c k : ℕ) (hc : 0 < c) (hN : c ≤ N) :
    k * N / c + 1 ≤ (k + 1) * N / c := by
  have h1 : (k + 1) * N = k * N + N := by ring
  rw [h1]
  calc k * N / c + 1 = (k * N + c) / c := by
        rw [Nat.add_div_right _ hc]
    _ ≤ (k * N + N) / c := by
        apply Nat.div_le_div_right
        exact Nat.add_le_add_left hN _
