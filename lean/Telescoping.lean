/-
Lemmas that close the meta-level steps of the C05 argument (DESIGN.md §4, C05):
the solver proves, for an ARBITRARY cell i, the per-cell identity
    vol i * L i = F (i+1) - F i          (obligation `vol*laplace==sum_of_face_flux_differences`)
and that the boundary fluxes vanish (zero-derivative / zero-value ghost relation, face at r = 0) or coincide
(periodic axes).  Summation over the cells is done here.
-/
import Mathlib

open Finset

/-- one axis: the volume-weighted sum of a flux-form operator is the difference of the two boundary fluxes -/
theorem weighted_sum_telescopes (N : ℕ) (vol L F : ℕ → ℝ)
    (cell : ∀ i, i < N → vol i * L i = F (i + 1) - F i) :
    ∑ i ∈ range N, vol i * L i = F N - F 0 := by
  have h : ∑ i ∈ range N, vol i * L i = ∑ i ∈ range N, (F (i + 1) - F i) := by
    apply sum_congr rfl
    intro i hi
    exact cell i (mem_range.mp hi)
  rw [h, sum_range_sub]

/-- zero-flux conditions on both ends (or a face of zero area at r = 0): the integral vanishes -/
theorem conserved_of_zero_boundary_flux (N : ℕ) (vol L F : ℕ → ℝ)
    (cell : ∀ i, i < N → vol i * L i = F (i + 1) - F i) (lo : F 0 = 0) (hi : F N = 0) :
    ∑ i ∈ range N, vol i * L i = 0 := by
  rw [weighted_sum_telescopes N vol L F cell, lo, hi, sub_zero]

/-- periodic axis: the flux through the upper face is the flux through the lower face -/
theorem conserved_of_periodic_flux (N : ℕ) (vol L F : ℕ → ℝ)
    (cell : ∀ i, i < N → vol i * L i = F (i + 1) - F i) (per : F N = F 0) :
    ∑ i ∈ range N, vol i * L i = 0 := by
  rw [weighted_sum_telescopes N vol L F cell, per, sub_self]

/-- two axes: per-cell identity with one flux per axis; the double sum is the sum of the boundary-flux sums -/
theorem weighted_sum_telescopes_2d (N M : ℕ) (vol L : ℕ → ℕ → ℝ) (F G : ℕ → ℕ → ℝ)
    (cell : ∀ i j, i < N → j < M → vol i j * L i j = (F (i + 1) j - F i j) + (G i (j + 1) - G i j)) :
    ∑ i ∈ range N, ∑ j ∈ range M, vol i j * L i j
      = (∑ j ∈ range M, (F N j - F 0 j)) + (∑ i ∈ range N, (G i M - G i 0)) := by
  have h : ∀ i ∈ range N, ∑ j ∈ range M, vol i j * L i j
      = (∑ j ∈ range M, (F (i + 1) j - F i j)) + (G i M - G i 0) := by
    intro i hi
    have : ∑ j ∈ range M, vol i j * L i j
        = ∑ j ∈ range M, ((F (i + 1) j - F i j) + (G i (j + 1) - G i j)) := by
      apply sum_congr rfl
      intro j hj
      exact cell i j (mem_range.mp hi) (mem_range.mp hj)
    rw [this, sum_add_distrib, sum_range_sub (fun j => G i j)]
  rw [sum_congr rfl h, sum_add_distrib, sum_comm]
  congr 1
  apply sum_congr rfl
  intro j _
  exact sum_range_sub (fun i => F i j) N

/-- a step that adds dt times a weighted combination of rates with vanishing integral keeps the integral
    (linear functional I; this is lemma (S) of C05 summed over the stages) -/
theorem step_keeps_integral {ι : Type} (s : Finset ι) (I : ℝ → ℝ)
    (lin : ∀ a c b, I (a + c * b) = I a + c * I b) (u dt : ℝ) (w k : ι → ℝ)
    (sumlin : I (∑ m ∈ s, w m * k m) = ∑ m ∈ s, w m * I (k m))
    (zero : ∀ m ∈ s, I (k m) = 0) :
    I (u + dt * ∑ m ∈ s, w m * k m) = I u := by
  rw [lin, sumlin]
  have : ∑ m ∈ s, w m * I (k m) = 0 := by
    apply sum_eq_zero
    intro m hm
    rw [zero m hm, mul_zero]
  rw [this, mul_zero, add_zero]
