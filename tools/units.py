import sys, time
sys.path.insert(0,'/verif')
from pdv.runner import run_units
import importlib
C=importlib.import_module('pdv.contracts.'+sys.argv[1])
names=[n for n,_ in C.UNITS]
print(len(names))
sel=[n for n in names if sys.argv[2] in n]
t=time.time()
res=run_units('pdv.contracts.'+sys.argv[1], sel, 'quick', jobs=16)
for r in sorted(res,key=lambda r:r['unit']):
    st={}
    for o in r['results']: st[o['status']]=st.get(o['status'],0)+1
    print(r['unit'], r['wall_s'], st, r['error'] and (r['error']['kind'], r['error']['msg'][:600], r['error'].get('tb','')[-800:]))
    for o in r['results']:
        if o['status'] not in ('proved','covered'): print('   ',o['name'],o['status'],(o.get('model') or '')[:400], o.get('reason'))
print(time.time()-t)
