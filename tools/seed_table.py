#!/usr/bin/env python3
"""markdown rows for DESIGN.md §7.5 from seeded/*/meta.json (written by verify_seeds.sh / run_seeds.sh)"""
import glob
import json
import re
import sys

pat = sys.argv[1] if len(sys.argv) > 1 else r"-[34]$"
for d in sorted(glob.glob("seeded/*")):
    if not re.search(pat, d):
        continue
    m = json.load(open(d + "/meta.json"))
    det = m.get("detection", {})
    summ = re.sub(r"\s+", " ", (m.get("summary") or "")).strip()
    summ = summ[:160].rsplit(" ", 1)[0] + (" …" if len(summ) > 160 else "")
    proof = sorted({x.split("/")[-1].split(".path")[-1].split(".", 1)[-1][:70] for x in det.get("by_proof_obligations", [])})[:2]
    nat = sorted({x.split("/")[-1][:60] for x in det.get("by_bounded_standins", [])})[:2]
    how = []
    if proof:
        how.append("proof (`" + "`, `".join(proof) + "`)")
    if nat:
        how.append("bounded (`" + "`, `".join(nat) + "`)")
    if det.get("exit_code") != 1:
        how = [f"**not caught** (exit {det.get('exit_code')})"]
    print(f"| {m['id']} | {summ.replace('|', '/')} | {' + '.join(how)} |")
