#!/bin/bash
# import the output of a seed agent of round $ROUND (default 2): /tmp/wt/r<ROUND>_<ID>/out/{changeK.diff,demoK.py,metaK.json}
# becomes seeded/<ID>-(K + 2*(ROUND-1)); reproducers of pre-existing defects are kept under seeded/preexisting_reports/<ID>/
ID=$1; ROUND=${ROUND:-2}
src=/tmp/wt/r${ROUND}_$ID/out
for k in 1 2; do
  [ -f $src/change$k.diff ] || continue
  dst=/verif/seeded/$ID-$((k+2*(ROUND-1))); mkdir -p $dst
  cp $src/change$k.diff $dst/patch.diff; cp $src/demo$k.py $dst/demo.py
  [ -f $src/meta$k.json ] && cp $src/meta$k.json $dst/agent_meta.json
done
if ls $src/preexisting_*.py >/dev/null 2>&1; then mkdir -p /verif/seeded/preexisting_reports/$ID; cp $src/preexisting_*.py /verif/seeded/preexisting_reports/$ID/; fi
ls -d /verif/seeded/$ID-*
