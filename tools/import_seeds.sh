#!/bin/bash
# import the output of a round-2 seed agent (/tmp/wt/r2_<ID>/out/{changeK.diff,demoK.py,metaK.json}) as seeded/<ID>-(K+2)
ID=$1
for k in 1 2; do
  src=/tmp/wt/r2_$ID/out
  [ -f $src/change$k.diff ] || continue
  dst=/verif/seeded/$ID-$((k+2)); mkdir -p $dst
  cp $src/change$k.diff $dst/patch.diff; cp $src/demo$k.py $dst/demo.py
  [ -f $src/meta$k.json ] && cp $src/meta$k.json $dst/agent_meta.json
done
ls -d /verif/seeded/$ID-*
