#!/bin/bash
# run every claimed check once (quick tier unless TIER is set); logs under /tmp/wt
cd "$(dirname "$0")/.."
mkdir -p /tmp/wt
for id in ${PROPS:-C01 C02 C03 C04 C05 C06 C07 C08 C09 C10 C12 C13 C14 C15 C16 C17 C18 C19 C20}; do
  ./check $id --tier ${TIER:-quick} $EXTRA > /tmp/wt/final_$id.log 2>&1; echo "$id exit=$? $(grep '^\[' /tmp/wt/final_$id.log | tail -1)"
done
