#!/bin/bash
# seeded-change regression: apply every seeded change to a scratch worktree, run the property's quick check
# against it (PDV_REPO), record exit code and failed obligations in seeded/<id>/meta.json
set -u
WT=${WT:-/tmp/wt/seedrun}
cd /repo && git worktree remove --force $WT 2>/dev/null; git worktree add --detach $WT HEAD >/dev/null 2>&1
cd /verif
for d in seeded/*/; do
  id=$(basename $d); prop=${id%%-*}
  [ -n "${ONLY:-}" ] && [[ "$id" != $ONLY* ]] && continue
  [ -n "${MATCH:-}" ] && [[ ! "$id" =~ $MATCH ]] && continue
  git -C $WT checkout -q -- . ; git -C $WT apply /verif/${d}patch.diff || { echo "$id patch does not apply"; continue; }
  PDV_REPO=$WT PDV_REPLAY_DIR=/tmp/wt/seed_replays ./check $prop --tier quick --no-evidence > /tmp/wt/seed_$id.log 2>&1; rc=$?
  python3 - "$d" "$rc" "/tmp/wt/seed_$id.log" <<'PY'
import json,sys,re
d,rc,log=sys.argv[1:4]
txt=open(log).read()
failed=[l.split("failed obligation:")[1].strip() for l in txt.splitlines() if "failed obligation:" in l]
m=json.load(open(d+"/meta.json"))
m["detection"]={"cmd":"PDV_REPO=<scratch worktree with the change> ./check %s --tier quick"%m["property"],"exit_code":int(rc),"detected":int(rc)==1,
  "by_proof_obligations":[f for f in failed if not f.startswith("bounded/")][:8],"by_bounded_standins":[f for f in failed if f.startswith("bounded/")][:8],
  "undecided":len([l for l in txt.splitlines() if l.startswith("UNDECIDED")])}
json.dump(m,open(d+"/meta.json","w"),indent=1)
print(m["id"],rc,len(m["detection"]["by_proof_obligations"]),len(m["detection"]["by_bounded_standins"]))
PY
done
cd /repo && git worktree remove --force $WT
