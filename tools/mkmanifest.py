"""regenerate MANIFEST.json from the table below (python3 tools/mkmanifest.py)"""
import json, os
HERE = os.path.dirname(os.path.dirname(os.path.abspath(__file__)))
props = [json.loads(l) for l in open(os.path.join(HERE, "properties.jsonl"))]
CLAIMS = json.load(open(os.path.join(HERE, "tools", "claims.json")))
NA = json.load(open(os.path.join(HERE, "tools", "not_applicable.json")))
checks = []
for pid, c in sorted(CLAIMS.items()):
    checks.append({
        "property_id": pid,
        "quick_cmd": f"./check {pid} --tier quick",
        "thorough_cmd": f"./check {pid} --tier thorough",
        "evidence_file": f"/verif/evidence/{pid}.json",
        "replay_cmd_template": f"./check {pid} --replay {{path}}",
        "engine": "pdv",
        "level_claimed": {"category": c.get("category", "proof"), "text": c["text"], "design_ref": c.get("design_ref", f"DESIGN.md section 4, {pid}")},
        "level_note": c["note"],
        "technique": c.get("technique", "contract-based deductive verification: VCs generated from the AST of the real functions against sidecar contracts, discharged by z3 / sympy normal form / cvc5"),
    })
na = [{"property_id": p["id"], "reason": NA.get(p["id"], "check not built yet in this session (plan in DESIGN.md section 4)")} for p in props if p["id"] not in CLAIMS]
m = {
    "version": 1,
    "setup_cmd": "true",
    "hooks": {"guard": "PY_PDE_VERIF", "enable": "no hooks: the technique is static (AST -> verification conditions) plus native replay; nothing in /repo is guarded", "baseline_off_cmd": "cd /repo && /venv/bin/python -m pytest -ra -q -p no:cacheprovider --timeout=900 --continue-on-collection-errors", "source_commits": [], "add_only": True},
    "engines": [{"name": "pdv", "path": "/verif/pdv", "serves_properties": sorted(CLAIMS), "kind_free_text": "self-made verification-condition generator: symbolic execution of the real functions' AST (re-read from /repo on every run) against sidecar contracts; obligations discharged by z3, a sympy rational-function normal form with z3 side conditions, and cvc5 (summation lemmas of C05/C12/C17 by Lean 4 + Mathlib, files under /verif/lean); native replay and labelled bounded stand-ins under /venv/bin/python"}],
    "checks": checks,
    "not_applicable": na,
    "notes": "exit codes of ./check: 0 held, 1 VIOLATION (line printed), 2 UNDECIDED (solver unknown / unsupported syntax / anchor not found; never reported as violation), 3 checker broken. known_findings.json lists genuine defects recorded rather than repaired.",
}
json.dump(m, open(os.path.join(HERE, "MANIFEST.json"), "w"), indent=1)
print("checks:", [c["property_id"] for c in checks])
