#!/bin/bash
# run the bounded stand-ins of every claimed property for several VERIF_SEED values on the unchanged tree:
# any VIOLATION here is either a genuine defect or a false alarm of a driver and has to be triaged
cd "$(dirname "$0")/.."
SEEDS=${SEEDS:-"1 2 3 4 5 6 7"}
PROPS=${PROPS:-"C01 C02 C03 C04 C05 C06 C07 C08 C09 C10 C12 C13 C14 C15 C16 C17 C18 C19 C20"}
TIER=${TIER:-quick}
export PDV_REPLAY_DIR=${PDV_REPLAY_DIR:-/tmp/wt/sweep_replays}
for p in $PROPS; do
  for s in $SEEDS; do
    out=$(VERIF_SEED=$s ./check $p --tier $TIER --bounded-only 2>&1); rc=$?
    [ $rc -ne 0 ] && echo "$out" > /tmp/wt/sweep_fail_${p}_${s}.log
    echo "$p seed=$s rc=$rc $(echo "$out" | grep -c '^VIOLATION') $(echo "$out" | grep 'failed obligation' | head -3 | tr '\n' ' ')"
  done
done
