#!/bin/bash
# confirm every seeded change in a scratch worktree: applies, demo passes without / fails with it,
# relevant existing tests still pass; writes seeded/<id>/meta.json
set -u
WT=/tmp/wt/verify
cd /repo && git worktree remove --force $WT 2>/dev/null; git worktree add --detach $WT HEAD >/dev/null 2>&1
for d in /verif/seeded/*/; do
  id=$(basename $d)
  [ -n "${ONLY:-}" ] && [[ "$id" != $ONLY* ]] && continue
  [ -n "${MATCH:-}" ] && [[ ! "$id" =~ $MATCH ]] && continue
  cd $WT && git checkout -q -- . && git clean -fdq
  applies=no; demo_clean=NA; demo_patched=NA; tests=NA; testcmd=""
  /venv/bin/python $d/demo.py >/dev/null 2>&1; demo_clean=$?
  if git apply --check $d/patch.diff 2>/dev/null; then
    applies=yes; git apply $d/patch.diff
    /venv/bin/python $d/demo.py >/dev/null 2>&1; demo_patched=$?
    dirs=$(git diff --name-only | sed 's#^pde/##; s#/[^/]*$##' | sort -u | while read p; do for c in tests/$p tests/$(echo $p | sed 's#/.*##'); do [ -d "$c" ] && echo $c; done; done | sort -u | head -3 | tr '\n' ' ')
    [ -z "$dirs" ] && dirs="tests/tools"
    testcmd="/venv/bin/python -m pytest -q -p no:cacheprovider --timeout=900 -n 8 $dirs"
    $testcmd > /tmp/wt/verify_$id.log 2>&1; rc=$?
    tests="rc=$rc $(tail -1 /tmp/wt/verify_$id.log)"
  fi
  python3 - "$d" "$id" "$applies" "$demo_clean" "$demo_patched" "$tests" "$testcmd" <<'PY'
import json,sys,os
d,id_,applies,dc,dp,tests,cmd=sys.argv[1:8]
am=json.load(open(os.path.join(d,'agent_meta.json'))) if os.path.exists(os.path.join(d,'agent_meta.json')) else {}
meta={"id":id_,"property":id_.split('-')[0],"summary":am.get("summary"),"needs":am.get("needs"),"files":am.get("files"),
 "confirmed_in_scratch_worktree":{"base_commit":"HEAD of /repo incl. fix: commits","patch_applies":applies=="yes","demo_exit_without_change":int(dc) if dc!="NA" else None,
   "demo_exit_with_change":int(dp) if dp!="NA" else None,"existing_tests_cmd":cmd,"existing_tests_result":tests},
 "agent_reported":{"tests_run":am.get("tests_run"),"tests_result":am.get("tests_result")}}
meta["kept"]= bool(applies=="yes" and dc=="0" and dp not in ("0","NA") and tests.startswith("rc=0"))
json.dump(meta,open(os.path.join(d,'meta.json'),'w'),indent=1)
print(id_,meta["kept"],applies,dc,dp,tests[:60])
PY
done
cd /repo && git worktree remove --force $WT
